"""pytrans_hh.py — translator plug-in for the heavy-hitter kernels of heavyhitters.py (picked up by translate.generate).

Regenerated on every run into coq/generated/KernelsHH.v and tied by proof to the hand-written model (theories/HH.v)
in theories/KernelTieHH.v.  What is translated is the body of the per-row / per-cell loops of `_add`, `_merge` and
`_max_count`, as functions of the scalars the body touches:

* the cell (lhh[row, col], lhh_count[row, col], key_lens[row, col]) is three parameters `X_cell`; the stores into the
  three arrays produce the result triple (key array, count, key length).  A store into an array carries the cast to the
  array's dtype *as declared in the @njit signature* (`lhh_count[row, col] = e` is `wrap32 e`, `+=`/`-=` read the cell
  parameter first); stores are accepted only into the sketch's own three arrays;
* a key array (lhh[row, col], other_lhh[row, col], key_array) is a value of an abstract type K; the only operations on K
  are the array comparison `np.all(a == b)`, translated to `(keq a b)` for an abstract `keq : K -> K -> bool` (operands in
  source order), and the whole-array store `lhh[row, col, :] = a` / `lhh[row, col] = a`.  K and keq are Section
  variables of the generated file; the tie file instantiates them with the model's padded key array and its equality;
* everything else is pytrans.IntTrans' integer mode: locals in 64-bit registers, `+ -` followed by wrap64, casts
  uintN(e) -> wrapN, scalar parameters narrower than 64 bits (per the signature) wrapped at entry;
* `a and b` is `&&` (both sides are pure), a boolean local (`keys_match`) is a let-bound bool.

Fail-closed inside a kernel (anything outside the subset, any name that is not a parameter of the region or a local of
it, any other subscript, a store into another array, a cell store outside the loop raises TranslatorError) and
fail-soft per kernel: the kernel that cannot be translated gets a POISONED definition of the same type (counts -1), the
generated file still compiles, the error is reported, and only the tie lemma of that kernel (theories/KernelTieHH.v) fails.
"""
import ast
import os

from translate import TranslatorError, _parse, _find_func, _strip_doc
from pytrans import IntTrans, WIDTH

FNAME = "KernelsHH.v"


# ------------------------------------------------------------------ signatures
def _sig_full(fn):
    """{param: ("scalar", ty) | ("array", dtype, ndim) | ("other",)}, return type, from @njit(ret(args...), ...)"""
    for d in fn.decorator_list:
        if isinstance(d, ast.Call) and getattr(d.func, "id", None) == "njit" and d.args and isinstance(d.args[0], ast.Call):
            s = d.args[0]
            if isinstance(s.func, ast.Name):
                rt = s.func.id
            elif isinstance(s.func, ast.Attribute):
                rt = s.func.attr
            else:
                raise TranslatorError(f"{fn.name}: return type of the signature not recognised")
            kinds = []
            for a in s.args:
                if isinstance(a, ast.Name):
                    kinds.append(("scalar", a.id))
                elif isinstance(a, ast.Subscript) and isinstance(a.value, ast.Name) and a.value.id in WIDTH:
                    sl = a.slice
                    dims = sl.elts if isinstance(sl, ast.Tuple) else [sl]
                    if not all(isinstance(x, ast.Slice) and x.lower is None and x.upper is None and x.step is None for x in dims):
                        raise TranslatorError(f"{fn.name}: array type in the signature not recognised")
                    kinds.append(("array", a.value.id, len(dims)))
                else:
                    kinds.append(("other",))
            names = [a.arg for a in fn.args.args]
            if len(names) != len(kinds):
                raise TranslatorError(f"{fn.name}: signature arity {len(kinds)} != {len(names)} parameters")
            return dict(zip(names, kinds)), rt
    raise TranslatorError(f"{fn.name}: no @njit(signature) decorator")


def _is_npall(e):
    return (isinstance(e, ast.Call) and isinstance(e.func, ast.Attribute) and e.func.attr == "all"
            and isinstance(e.func.value, ast.Name) and e.func.value.id == "np" and len(e.args) == 1 and not e.keywords)


def _is_boolean(e):
    return isinstance(e, (ast.BoolOp, ast.Compare)) or _is_npall(e)


# ------------------------------------------------------------------ cell accesses -> scalars
class _Cells(ast.NodeTransformer):
    """X[row, col] -> the name X_cell; stores into X[row, col] (X[row, col, :] for the key arrays) -> assignments to
    X_cell carrying the cast to X's dtype.  Any other subscript is rejected."""

    def __init__(self, fname, sig, row, col, own):
        self.fname, self.sig, self.row, self.col, self.own = fname, sig, row, col, own
        self.karrays = set()        # cell names of type K
        self.read, self.stored = [], []

    def _cell(self, sub, store):
        if not (isinstance(sub, ast.Subscript) and isinstance(sub.value, ast.Name)):
            raise TranslatorError(f"{self.fname}: unsupported subscript {ast.unparse(sub)}")
        x = sub.value.id
        kind = self.sig.get(x)
        if not kind or kind[0] != "array" or kind[2] not in (2, 3):
            raise TranslatorError(f"{self.fname}: subscript of {x}, which is not a cell array of the signature")
        idx = sub.slice.elts if isinstance(sub.slice, ast.Tuple) else [sub.slice]
        full = (len(idx) == 3 and isinstance(idx[2], ast.Slice) and idx[2].lower is None and idx[2].upper is None
                and idx[2].step is None)
        if not ((len(idx) == 2 or (full and kind[2] == 3 and store)) and isinstance(idx[0], ast.Name) and idx[0].id == self.row
                and isinstance(idx[1], ast.Name) and idx[1].id == self.col):
            raise TranslatorError(f"{self.fname}: {ast.unparse(sub)} is not the cell [{self.row}, {self.col}]")
        if kind[2] == 3:
            if kind[1] != "uint8":
                raise TranslatorError(f"{self.fname}: key array {x} is not uint8")
            self.karrays.add(x + "_cell")
        if store and x not in self.own:
            raise TranslatorError(f"{self.fname}: store into {x}, which is not one of the sketch's own arrays {self.own}")
        (self.stored if store else self.read).append(x + "_cell")
        return x + "_cell", kind

    def visit_Subscript(self, node):
        n, _ = self._cell(node, False)
        return ast.Name(id=n, ctx=ast.Load())

    def _store(self, name, kind, value):
        if kind[2] == 2:                       # scalar cell: the store converts to the array's dtype
            value = ast.Call(func=ast.Name(id=kind[1], ctx=ast.Load()), args=[value], keywords=[])
        return ast.Assign(targets=[ast.Name(id=name, ctx=ast.Store())], value=value)

    def visit_Assign(self, node):
        if len(node.targets) != 1:
            raise TranslatorError(f"{self.fname}: multiple assignment targets")
        t = node.targets[0]
        value = self.visit(node.value)
        if isinstance(t, ast.Subscript):
            n, kind = self._cell(t, True)
            return self._store(n, kind, value)
        if not isinstance(t, ast.Name):
            raise TranslatorError(f"{self.fname}: unsupported assignment target {ast.unparse(t)}")
        return ast.Assign(targets=[t], value=value)

    def visit_AugAssign(self, node):
        value = self.visit(node.value)
        t = node.target
        if isinstance(t, ast.Subscript):
            n, kind = self._cell(t, True)
            if kind[2] != 2:
                raise TranslatorError(f"{self.fname}: augmented assignment to a key array")
            return self._store(n, kind, ast.BinOp(left=ast.Name(id=n, ctx=ast.Load()), op=node.op, right=value))
        if not isinstance(t, ast.Name):
            raise TranslatorError(f"{self.fname}: unsupported assignment target {ast.unparse(t)}")
        return ast.AugAssign(target=t, op=node.op, value=value)


# ------------------------------------------------------------------ integer mode + abstract key arrays + booleans
class HHTrans(IntTrans):
    def __init__(self, ktyped):
        super().__init__({})
        self.ktyped = set(ktyped)   # names of type K
        self.bools = set()          # boolean locals
        self.scope = set()          # names visible at the statement being translated

    def kexpr(self, e):
        if isinstance(e, ast.Name) and e.id in self.ktyped and e.id in self.scope:
            return e.id
        raise TranslatorError(f"not a key array: {ast.unparse(e)}")

    def expr(self, e):
        if isinstance(e, ast.Name):
            if e.id not in self.scope:
                raise TranslatorError(f"name {e.id} is neither a parameter of the region nor a local of it")
            if e.id in self.ktyped:
                raise TranslatorError(f"key array {e.id} used as a scalar")
            if e.id in self.bools:
                raise TranslatorError(f"boolean {e.id} used as an integer")
            return e.id
        if _is_boolean(e):
            raise TranslatorError(f"boolean expression used as an integer: {ast.unparse(e)}")
        return super().expr(e)

    def cond(self, t):
        if isinstance(t, ast.BoolOp) and isinstance(t.op, ast.And):
            parts = [self.cond(v) for v in t.values]
            out = parts[0]
            for p in parts[1:]:
                out = f"({out} && {p})"
            return out
        if isinstance(t, ast.Name):
            if t.id in self.bools and t.id in self.scope:
                return t.id
            raise TranslatorError(f"condition {t.id} is not a boolean local")
        if _is_npall(t):
            c = t.args[0]
            if isinstance(c, ast.Compare) and len(c.ops) == 1 and isinstance(c.ops[0], ast.Eq):
                return f"(keq {self.kexpr(c.left)} {self.kexpr(c.comparators[0])})"
            raise TranslatorError(f"np.all of something else than an array equality: {ast.unparse(t)}")
        return super().cond(t)

    def block(self, stmts, ret_ty, tail=None, defined=None):
        defined = set(defined or ())
        self.scope = set(defined)
        if stmts and isinstance(stmts[0], ast.Assign) and len(stmts[0].targets) == 1 and isinstance(stmts[0].targets[0], ast.Name):
            s, rest = stmts[0], stmts[1:]
            n = s.targets[0].id
            if n in self.ktyped:
                v = self.kexpr(s.value)
                return f"let {n} := {v} in\n  {self.block(rest, ret_ty, tail, defined | {n})}"
            if _is_boolean(s.value):
                if n in defined and n not in self.bools:
                    raise TranslatorError(f"{n} changes its type to bool")
                v = self.cond(s.value)
                self.bools.add(n)
                return f"let {n} := {v} in\n  {self.block(rest, ret_ty, tail, defined | {n})}"
            if n in self.bools:
                raise TranslatorError(f"boolean {n} assigned an integer")
        if stmts and isinstance(stmts[0], ast.AugAssign) and isinstance(stmts[0].target, ast.Name) \
                and (stmts[0].target.id in self.ktyped or stmts[0].target.id in self.bools):
            raise TranslatorError("augmented assignment to a key array / boolean")
        return super().block(stmts, ret_ty, tail, defined)

    def kernel(self, name, stmts, params, entry, result, rtype):
        """params: [(name, "K" | "Z")]; entry: {scalar parameter: width < 64}; result: tuple of names (or one name)"""
        tail = result if isinstance(result, str) else "(" + ", ".join(result) + ")"
        names = [n for n, _ in params]
        term = self.block(list(stmts), None, tail, set(names))
        pre = "".join(f"let {n} := wrap{w} {n} in\n  " for n, w in entry.items())
        b = _binders(params)
        return f"Definition {name}{' ' + b if b else ''} : {rtype} :=\n  {pre}{term}.\n"


def _binders(params):
    groups = []
    for n, t in params:
        if groups and groups[-1][1] == t:
            groups[-1][0].append(n)
        else:
            groups.append(([n], t))
    return " ".join(f"({' '.join(ns)} : {t})" for ns, t in groups)


# ------------------------------------------------------------------ the three kernels
def _range_loop(fname, st, callee=("range",)):
    if not (isinstance(st, ast.For) and isinstance(st.target, ast.Name) and not st.orelse and isinstance(st.iter, ast.Call)
            and isinstance(st.iter.func, ast.Name) and st.iter.func.id in callee and len(st.iter.args) == 1
            and isinstance(st.iter.args[0], ast.Name)):
        raise TranslatorError(f"{fname}: loop header not recognised")
    return st.target.id, st.iter.args[0].id


def _no_cell_stores(fname, stmts, arrays):
    for s in stmts:
        for n in ast.walk(s):
            if isinstance(n, ast.Subscript) and isinstance(n.ctx, ast.Store) and isinstance(n.value, ast.Name) \
                    and n.value.id in arrays:
                raise TranslatorError(f"{fname}: store into {n.value.id} outside the translated loop body (line {n.lineno})")


def _col_assign(fname, st, row):
    """`col = <row hash of the key>` — WHICH hash is not part of the cell update (the row-hash expression is pinned as a
    string by the rowhash constants, an obligation of C14 only); the column must not be read off the tables; returns the name"""
    if not (isinstance(st, ast.Assign) and len(st.targets) == 1 and isinstance(st.targets[0], ast.Name)
            and not any(isinstance(c, ast.Name) and c.id in ("lhh", "lhh_count", "key_lens") for c in ast.walk(st.value))):
        raise TranslatorError(f"{fname}: first statement of the row loop is not the column assignment")
    return st.targets[0].id


def _scalar_entry(fname, sig, names):
    """entry wraps of the scalar parameters `names` (all must be unsigned integer scalars of the signature)"""
    out = {}
    for n in names:
        k = sig.get(n)
        if not k or k[0] != "scalar" or k[1] not in WIDTH:
            raise TranslatorError(f"{fname}: {n} is not an unsigned integer scalar parameter")
        if WIDTH[k[1]] < 64:
            out[n] = WIDTH[k[1]]
    return out


def _local_uint64(fname, fn, sig, name, before):
    """every assignment to the local `name` ahead of the loop is np.uint64(...) / uint64(...) or a uint64 parameter"""
    seen = 0
    for s in before:
        for n in ast.walk(s):
            tg = None
            if isinstance(n, ast.Assign) and len(n.targets) == 1 and isinstance(n.targets[0], ast.Name):
                tg, v = n.targets[0].id, n.value
            elif isinstance(n, ast.AugAssign) and isinstance(n.target, ast.Name):
                tg, v = n.target.id, None
            if tg != name:
                continue
            seen += 1
            ok = False
            if isinstance(v, ast.Call) and len(v.args) == 1:
                f = v.func
                ok = (isinstance(f, ast.Name) and f.id == "uint64") or \
                     (isinstance(f, ast.Attribute) and f.attr == "uint64" and getattr(f.value, "id", None) == "np")
            elif isinstance(v, ast.Name):
                ok = sig.get(v.id) == ("scalar", "uint64")
            if not ok:
                raise TranslatorError(f"{fname}: local {name} is not a uint64 (line {n.lineno})")
    if not seen:
        raise TranslatorError(f"{fname}: local {name} is never assigned ahead of the loop")


OWN = ("lhh", "lhh_count", "key_lens")
CELL3 = "(K * Z * Z)"

# name -> (binders, result type, poisoned body); the poisoned body mentions keq so that the type after the Section
# is closed is the one the tie file applies
SHAPES = {
    "gen_hh_add_cell": ([("lhh_cell", "K"), ("lhh_count_cell", "Z"), ("key_lens_cell", "Z"), ("key_array", "K"),
                         ("key_len", "Z"), ("value", "Z"), ("uint_maxval", "Z")], CELL3,
                        "let _ := keq in (lhh_cell, -1, -1)"),
    "gen_hh_merge_cell": ([("lhh_cell", "K"), ("lhh_count_cell", "Z"), ("key_lens_cell", "Z"), ("other_lhh_cell", "K"),
                           ("other_lhh_count_cell", "Z"), ("other_key_lens_cell", "Z"), ("uint_maxval", "Z")], CELL3,
                          "let _ := keq in (lhh_cell, -1, -1)"),
    "gen_hh_max_count_init": ([], "Z", "-1"),
    "gen_hh_max_count_row": ([("max_count", "Z"), ("lhh_cell", "K"), ("lhh_count_cell", "Z"), ("key_lens_cell", "Z"),
                              ("key_array", "K"), ("key_len", "Z")], "Z", "let _ := keq lhh_cell key_array in -1"),
}
RESULT = ("lhh_cell", "lhh_count_cell", "key_lens_cell")


def _check_cells(fname, cells, sig, expect_read):
    # the three own arrays must have the dtypes the result triple is typed with, and only the expected cells are read
    for x, k in (("lhh", ("array", "uint8", 3)), ("lhh_count", ("array", "uint32", 2)), ("key_lens", ("array", "uint8", 2))):
        if sig.get(x) != k:
            raise TranslatorError(f"{fname}: parameter {x} is not {k[1]}[{k[2]}-d] in the signature: {sig.get(x)}")
    extra = set(cells.read + cells.stored) - set(expect_read)
    if extra:
        raise TranslatorError(f"{fname}: unexpected cells {sorted(extra)}")


def _add(tree):
    fn = _find_func(tree, "_add")
    sig, _ = _sig_full(fn)
    body = _strip_doc(fn)
    loops = [i for i, s in enumerate(body) if isinstance(s, ast.For)]
    if len(loops) != 1 or loops[0] != len(body) - 1:
        raise TranslatorError("_add: expected exactly one loop, as the last statement")
    loop = body[-1]
    row, _ = _range_loop("_add", loop)
    col = _col_assign("_add", loop.body[0], row)
    _no_cell_stores("_add", body[:-1], OWN)
    _local_uint64("_add", fn, sig, "key_len", body[:-1])
    cells = _Cells("_add", sig, row, col, OWN)
    stmts = [cells.visit(s) for s in loop.body[1:]]
    _check_cells("_add", cells, sig, RESULT)
    params, rty, _ = SHAPES["gen_hh_add_cell"]
    tr = HHTrans({"lhh_cell", "key_array"})
    return ("(* heavyhitters.py _add l.%d-%d: body of the loop over the rows, after the column assignment *)\n" %
            (loop.body[1].lineno, loop.end_lineno)
            + tr.kernel("gen_hh_add_cell", stmts, params, _scalar_entry("_add", sig, ["value", "uint_maxval"]), RESULT, rty))


def _merge(tree):
    fn = _find_func(tree, "_merge")
    sig, _ = _sig_full(fn)
    body = _strip_doc(fn)
    loops = [i for i, s in enumerate(body) if isinstance(s, ast.For)]
    if loops != [0]:
        raise TranslatorError("_merge: expected exactly one outer loop, as the first statement")
    row, _ = _range_loop("_merge", body[0], ("range", "prange"))
    if len(body[0].body) != 1:
        raise TranslatorError("_merge: the row loop does not consist of the column loop alone")
    inner = body[0].body[0]
    col, _ = _range_loop("_merge", inner)
    _no_cell_stores("_merge", body[1:], OWN + tuple("other_" + x for x in OWN))
    cells = _Cells("_merge", sig, row, col, OWN)
    stmts = [cells.visit(s) for s in inner.body]
    _check_cells("_merge", cells, sig, RESULT + tuple("other_" + x for x in RESULT))
    for x in OWN:
        if sig.get("other_" + x) != sig.get(x):
            raise TranslatorError(f"_merge: other_{x} and {x} have different types in the signature")
    params, rty, _ = SHAPES["gen_hh_merge_cell"]
    tr = HHTrans({"lhh_cell", "other_lhh_cell"})
    return ("(* heavyhitters.py _merge l.%d-%d: body of the loop over the cells *)\n" % (inner.body[0].lineno, inner.end_lineno)
            + tr.kernel("gen_hh_merge_cell", stmts, params, _scalar_entry("_merge", sig, ["uint_maxval"]), RESULT, rty))


def _max_count(tree):
    fn = _find_func(tree, "_max_count")
    sig, rt = _sig_full(fn)
    body = _strip_doc(fn)
    loops = [i for i, s in enumerate(body) if isinstance(s, ast.For)]
    if len(loops) != 1 or loops[0] != len(body) - 2 or loops[0] < 1:
        raise TranslatorError("_max_count: expected `max_count = ...; for ...; return max_count`")
    init, loop, ret = body[-3], body[-2], body[-1]
    if not (isinstance(ret, ast.Return) and isinstance(ret.value, ast.Name) and ret.value.id == "max_count" and rt == "uint32"):
        raise TranslatorError("_max_count: does not end in `return max_count` with return type uint32")
    if not (isinstance(init, ast.Assign) and len(init.targets) == 1 and isinstance(init.targets[0], ast.Name)
            and init.targets[0].id == "max_count"):
        raise TranslatorError("_max_count: the statement before the loop is not the initialisation of max_count")
    row, _ = _range_loop("_max_count", loop)
    col = _col_assign("_max_count", loop.body[0], row)
    _no_cell_stores("_max_count", body, OWN)
    cells = _Cells("_max_count", sig, row, col, ())
    stmts = [cells.visit(s) for s in loop.body[1:]]
    _check_cells("_max_count", cells, sig, RESULT)
    out = "(* heavyhitters.py _max_count l.%d: the running maximum before the first row *)\n" % init.lineno
    out += HHTrans(()).kernel("gen_hh_max_count_init", [init], [], {}, "max_count", "Z")
    params, rty, _ = SHAPES["gen_hh_max_count_row"]
    tr = HHTrans({"lhh_cell", "key_array"})
    out += ("\n(* _max_count l.%d-%d: body of the loop over the rows, after the column assignment *)\n" %
            (loop.body[1].lineno, loop.end_lineno)
            + tr.kernel("gen_hh_max_count_row", stmts, params, _scalar_entry("_max_count", sig, ["key_len"]), "max_count", rty))
    return out


HDR = ["(* GENERATED by harness/pytrans_hh.py from the repository - do not edit.  Heavy-hitter kernels: the bodies of the",
       "   per-row / per-cell loops of heavyhitters.py, translated from the AST.  K is the type of a key array",
       "   (lhh[row, col]), keq the array comparison np.all(a == b). *)",
       "From Coq Require Import ZArith Bool.", "From Sketchnu Require Import Machine.", "Open Scope Z_scope.", "",
       "Section HHKernels.", "Variable K : Type.", "Variable keq : K -> K -> bool.", ""]


def _poison(names, why):
    out = "(* TRANSLATION FAILED: " + str(why).replace("*)", "* )").replace("(*", "( *") + " *)\n"
    for n in names:
        params, rty, body = SHAPES[n]
        b = _binders(params)
        out += f"Definition {n}{' ' + b if b else ''} : {rty} := {body}.  (* translation failed *)\n"
    return out


def generate(repo):
    """({file name: text}, {tag: error}); never raises"""
    out, errors = list(HDR), {}
    tree = None
    try:
        tree = _parse(os.path.join(repo, "sketchnu", "heavyhitters.py"))
    except Exception as e:
        errors["kernels:hh:parse"] = f"{type(e).__name__}: {e}"
    for tag, names, fn in (("_add", ["gen_hh_add_cell"], _add), ("_merge", ["gen_hh_merge_cell"], _merge),
                           ("_max_count", ["gen_hh_max_count_init", "gen_hh_max_count_row"], _max_count)):
        try:
            if tree is None:
                raise TranslatorError("heavyhitters.py could not be parsed")
            out.append(fn(tree))
        except Exception as e:   # TranslatorError, or anything unexpected inside the translator
            if tree is not None:
                errors["kernels:hh:" + tag] = f"{type(e).__name__}: {e}"
            out.append(_poison(names, e))
    out.append("End HHKernels.")
    return {FNAME: "\n".join(out) + "\n"}, errors


if __name__ == "__main__":
    import sys
    t, e = generate(sys.argv[1] if len(sys.argv) > 1 else "/repo")
    print(t[FNAME])
    print("errors:", e)
