"""zip_common.py — helpers of the C20 check (persist suite, prefix part).

* py_locate / py_dispatch: a line-for-line Python port of Zip.v (locate_eocd / np_load_dispatch), used as a
  third voice on every prefix (the Coq model itself is evaluated on the subsets named in the check);
* observe_*: what CPython's zipfile and numpy really do on a byte string;
* coq_file_jobs: one coqc run per file (the file is parsed once, Coq takes `firstn n` for every case).
"""
import io
import os
import re
import zipfile

import lib

SIG = b"PK\x05\x06"
ZIP_PREFIX = b"PK\x03\x04"
NPY_MAGIC = b"\x93NUMPY"
K_EMPTY, K_ZIP, K_NPY, K_PICKLE = 0, 1, 2, 3


# ------------------------------------------------------------------ port of Zip.v
def py_locate(f):
    filesize = len(f)
    if filesize < 22:
        return -1
    data = f[filesize - 22:]
    if len(data) == 22 and data[0:4] == SIG and data[20:] == b"\0\0":
        return filesize - 22
    mcs = max(filesize - 65536 - 22, 0)
    data = f[mcs:]
    start = data.rfind(SIG)
    if start >= 0:
        rec = data[start:start + 22]
        return mcs + start if len(rec) == 22 else -1
    return -1


def py_dispatch(f):
    magic = f[:6]
    if not magic:
        return K_EMPTY
    if magic.startswith(ZIP_PREFIX) or magic.startswith(SIG):
        return K_ZIP
    if magic == NPY_MAGIC:
        return K_NPY
    return K_PICKLE


def py_file_hyps(f):
    """wf_eocd (last 22 bytes) and sig_free (body ++ first 3 bytes of the record), as Zip.file_hyps"""
    if len(f) < 22:
        return False
    e = f[-22:]
    return e[:4] == SIG and e[20:] == b"\0\0" and SIG not in f[:len(f) - 19]


# ------------------------------------------------------------------ observations on the real readers
def observe_locate(b):
    """offset of the end record zipfile locates in b (its own first step), -1 for None.
    'raised:<cls>' when _EndRecData raises (ZIP64 locator oddities: outside the model)."""
    try:
        r = zipfile._EndRecData(io.BytesIO(b))
    except Exception as e:  # noqa
        return "raised:" + type(e).__name__
    return -1 if r is None else int(r[9])


def observe_locate_file(path):
    with open(path, "rb") as fp:
        try:
            r = zipfile._EndRecData(fp)
        except Exception as e:  # noqa
            return "raised:" + type(e).__name__
    return -1 if r is None else int(r[9])


def observe_dispatch(np, b):
    """which branch np.load takes on b: K_EMPTY (EOFError), K_ZIP, K_NPY, K_PICKLE (refused)"""
    try:
        r = np.load(io.BytesIO(b))
    except EOFError:
        return K_EMPTY
    except zipfile.BadZipFile:
        return K_ZIP
    except ValueError as e:
        if "pickled" in str(e):
            return K_PICKLE
        return K_NPY if b[:6] == NPY_MAGIC else K_ZIP
    except Exception:  # noqa  (zip path: NotImplementedError, struct.error ...; npy path: header errors)
        return K_NPY if b[:6] == NPY_MAGIC else K_ZIP
    if isinstance(r, np.lib.npyio.NpzFile):
        r.close()
        return K_ZIP
    return K_NPY


# ------------------------------------------------------------------ Coq side
def coq_file_jobs(ctx, jobs, par=4, timeout=900):
    """jobs: list of dict(tag=, fexpr=<Coq term : list Z>, cases=[(n, loc, kind)], hyps=bool|None).
    Returns {tag: dict(bad=[n...], hyps=bool|None, err=str|None)}."""
    from concurrent.futures import ThreadPoolExecutor

    def one(job):
        name = f"zip_{job['tag']}.v"
        with open(os.path.join(ctx.dir, name), "w") as f:
            f.write("From Coq Require Import ZArith List Bool.\n")
            f.write("From Sketchnu Require Import Machine Zip.\n")
            f.write("Import ListNotations.\nOpen Scope Z_scope.\n")
            f.write(f"Definition f : list Z := {job['fexpr']}.\n")
            f.write("Definition cases : list (Z * Z * Z) := [\n")
            f.write(";\n".join(f"({n}, {loc}, {k})" for n, loc, k in job["cases"]))
            f.write("\n].\n")
            f.write("Eval vm_compute in (bad_prefixes f cases).\n")
            f.write("Eval vm_compute in (file_hyps f).\n")
        rc, out, err = lib.run(["coqc"] + lib.COQFLAGS + [name], timeout, cwd=ctx.dir)
        res = {"bad": [], "hyps": None, "err": None}
        if rc != 0:
            res["err"] = f"{name}: rc={rc} {err.strip()[:500]}"
            return job["tag"], res
        flat = " ".join(out.split())
        m = re.search(r"= \[(.*?)\]\s*:\s*list Z", flat)
        h = re.search(r"= (true|false)\s*:\s*bool", flat)
        if not m or not h:
            res["err"] = f"{name}: unparsable output {flat[:300]}"
            return job["tag"], res
        res["bad"] = [int(x) for x in re.findall(r"-?\d+", m.group(1))]
        res["hyps"] = h.group(1) == "true"
        return job["tag"], res

    with ThreadPoolExecutor(max_workers=max(1, min(par, lib.PAR))) as ex:
        return dict(ex.map(one, jobs))
