"""lib.py — shared machinery of the /verif checks (see DESIGN.md section 7).

One Ctx per check invocation:  hygiene -> regenerate generated/*.v from /repo and
rebuild stale .vo (under a file lock) -> compile props/<id>.v and audit
Print Assumptions -> property module runs correspondence + predicate search ->
known findings -> evidence -> exit code.
"""
import fcntl
import hashlib
import json
import os
import random
import re
import shutil
import subprocess
import sys
import time

VERIF = os.path.dirname(os.path.dirname(os.path.abspath(__file__)))
COQ = os.path.join(VERIF, "coq")
BUILD = os.path.join(VERIF, "build")
REPO = os.environ.get("VERIF_REPO", "/repo")
# measured on this VM: more than ~5 concurrent coqc processes make kernel time explode
PAR = int(os.environ.get("VERIF_PAR", "5"))
COQFLAGS = ["-R", os.path.join(COQ, "theories"), "Sketchnu",
            "-R", os.path.join(COQ, "generated"), "Sketchnu",
            "-w", "-notation-overridden,-deprecated-hint-without-locality,-deprecated-instance-without-locality"]

FORBIDDEN = re.compile(
    r"\b(Admitted|admit|Axiom|Axioms|Parameter|Parameters|Conjecture|Conjectures|"
    r"Admit\s+Obligations|bypass_check|hammer|give_up)\b|Unset\s+Guard|Unset\s+Positivity|"
    r"Unset\s+Universe|type-in-type|impredicative-set")

# axioms of the standard library that may appear, by family (DESIGN.md section 4)
AX_REALS = {
    "ClassicalDedekindReals.sig_forall_dec", "ClassicalDedekindReals.sig_not_dec",
    "FunctionalExtensionality.functional_extensionality_dep",
    "Classical_Prop.classic", "Eqdep.Eq_rect_eq.eq_rect_eq",
}
AX_FLOAT = {
    "FloatAxioms." + n for n in (
        "Prim2SF_valid", "SF2Prim_Prim2SF", "Prim2SF_SF2Prim", "opp_spec", "abs_spec", "eqb_spec",
        "ltb_spec", "leb_spec", "compare_spec", "classify_spec", "mul_spec", "add_spec", "sub_spec",
        "div_spec", "sqrt_spec", "of_uint63_spec", "normfr_mantissa_spec", "frshiftexp_spec",
        "ldshiftexp_spec", "next_up_spec", "next_down_spec", "Leibniz.eqb_spec")
}


def write_coqproject():
    """_CoqProject lists every theories/*.v and generated/*.v (props are compiled per check)."""
    lines = ["-R theories Sketchnu", "-R generated Sketchnu",
             "-arg -w -arg -notation-overridden,-deprecated-hint-without-locality,-deprecated-instance-without-locality"]
    for sub in ("generated", "theories"):
        for f in sorted(os.listdir(os.path.join(COQ, sub))):
            if f.endswith(".v"):
                lines.append(f"{sub}/{f}")
    txt = "\n".join(lines) + "\n"
    p = os.path.join(COQ, "_CoqProject")
    old = open(p).read() if os.path.exists(p) else None
    if old != txt:
        with open(p, "w") as f:
            f.write(txt)
        return True
    return False


def log(*a):
    print(*a, file=sys.stderr, flush=True)


def run(cmd, timeout, cwd=None, env=None, stdin=None):
    try:
        p = subprocess.run(cmd, cwd=cwd, env=env, input=stdin, capture_output=True, text=True,
                           timeout=timeout)
        return p.returncode, p.stdout, p.stderr
    except subprocess.TimeoutExpired as e:
        return 124, (e.stdout or b"").decode() if isinstance(e.stdout, bytes) else (e.stdout or ""), \
            "TIMEOUT after %ss" % timeout


def zlist(xs):
    return "[" + "; ".join(str(int(x)) for x in xs) + "]"


def zkey(b):
    """bytes -> Coq list Z"""
    return zlist(b)


def zbool(b):
    return "true" if b else "false"


class Ctx:
    def __init__(self, pid, tier, seed):
        self.pid = pid
        self.tier = tier
        self.seed = seed
        self.rng = random.Random(seed * 1000003 + int(hashlib.sha256(pid.encode()).hexdigest()[:8], 16))
        self.t0 = time.time()
        self.dir = os.path.join(BUILD, pid + ("." + os.environ["VERIF_BUILD_TAG"] if os.environ.get("VERIF_BUILD_TAG") else ""))
        shutil.rmtree(self.dir, ignore_errors=True)
        os.makedirs(self.dir, exist_ok=True)
        self.violations = []          # (replay_path, has_input)
        self.known = []               # printed KNOWN-FINDING lines
        self.broken = []              # names of theorems / correspondences that no longer check
        self.cov = {"evaluations": 0, "distinct_nontrivial": 0, "samples": [],
                    "traces_validated_against_impl": 0, "obligations": 0, "discharged": 0}
        self.assumptions = []
        self.trusted = ["Coq 8.16.1 kernel + vm_compute (no native_compute)",
                        "harness/translate.py (constants, guards, HLL tables re-read from /repo)",
                        "harness correspondence runner (Python) and the generated case files"]
        self.axioms = {}
        self.hist = {}
        self._distinct = set()
        self._impl = None
        self.notes = []
        self.translator_error = None
        self.translator_errors = {}
        self.build_failed = []
        self.search_factor = 1
        self.second_search = False

    # ------------------------------------------------------------------ counters
    def tick(self, what):
        now = time.time()
        log(f"[{self.pid}] +{now - getattr(self, '_tick', self.t0):.1f}s {what}")
        self._tick = now

    def count(self, key, n=1):
        self.hist[key] = self.hist.get(key, 0) + n

    def case_seen(self, canon, nontrivial):
        """Register one evaluated case.  canon: hashable canonical form."""
        self.cov["evaluations"] += 1
        if nontrivial:
            h = hashlib.sha1(repr(canon).encode()).digest()[:10]
            self._distinct.add(h)

    def sample(self, s, limit=5):
        if len(self.cov["samples"]) < limit:
            self.cov["samples"].append(s)

    # ------------------------------------------------------------------ hygiene
    def hygiene(self):
        bad = []
        files = []
        for sub in ("theories", "props", "generated"):
            d = os.path.join(COQ, sub)
            if os.path.isdir(d):
                files += [os.path.join(d, f) for f in sorted(os.listdir(d)) if f.endswith(".v")]
        for f in files:
            depth = 0
            txt = open(f).read()
            # strip comments (non-nested is enough: we never nest)
            code = re.sub(r"\(\*.*?\*\)", " ", txt, flags=re.S)
            for m in FORBIDDEN.finditer(code):
                bad.append(f"{f}: forbidden token {m.group(0)!r}")
            for line in code.splitlines():
                s = line.strip()
                if re.match(r"^Section\b", s):
                    depth += 1
                elif re.match(r"^End\b", s):
                    depth = max(0, depth - 1)
                elif depth == 0 and re.match(r"^(Variable|Variables|Hypothesis|Hypotheses|Context)\b", s):
                    bad.append(f"{f}: top-level {s.split()[0]}")
        if write_coqproject():
            try:
                os.remove(os.path.join(COQ, "Makefile"))
            except OSError:
                pass
        proj = open(os.path.join(COQ, "_CoqProject")).read()
        if FORBIDDEN.search(proj):
            bad.append("_CoqProject: forbidden flag")
        if bad:
            self.fail_machinery("hygiene: " + "; ".join(bad))

    def fail_machinery(self, msg):
        # the development itself is not clean: nothing it reports may be believed -> hard error
        log("MACHINERY ERROR:", msg)
        self.broken.append(msg)
        self.finish()

    # ------------------------------------------------------------------ build
    def sync_build(self):
        """Regenerate coq/generated from the repository and rebuild stale .vo files.
        Locking: a check holds a SHARED lock on build/.lock for its whole life (its case files are compiled
        against the .vo files) and upgrades to an EXCLUSIVE lock only when something must be regenerated or
        rebuilt, so concurrent checks of the same tree do not serialise and a rebuild never happens under the
        feet of another check's coqc runs."""
        import translate
        os.makedirs(BUILD, exist_ok=True)
        self._lock = open(os.path.join(BUILD, ".lock"), "w")
        gen_dir = os.path.join(COQ, "generated")

        def regenerate(write):
            try:
                return translate.generate(REPO, gen_dir, write=write)
            except Exception as e:  # should not happen: generate() is fail-soft per component
                return None, {}, {"translator": repr(e)}

        def up_to_date():
            mk = os.path.join(COQ, "Makefile")
            if write_coqproject() or not os.path.exists(mk):
                return False
            # (make -q is useless here: coq_makefile's recursive structure always reports work);
            # a dry run uses the real dependency graph: any coqc command it would issue means work to do
            rc, out, err = run(["make", "-n", "-k"], 300, cwd=COQ)
            return rc == 0 and "coqc" not in out.lower().replace("coqchk", "") and "COQC" not in out

        fcntl.flock(self._lock, fcntl.LOCK_SH)
        changed, self.consts, self.translator_errors = regenerate(write=False)
        if changed is None:
            self.broken.append("translator obligation: " + str(self.translator_errors))
            changed = []
        elif self.translator_errors:
            # a component that could not be extracted is emitted with sentinel / poisoned definitions: the generated
            # files still compile, the obligations that depend on that component fail, other properties are unaffected
            log("translator obligations not met:", self.translator_errors)
            self.notes.append("translator obligations not met (sentinel definitions emitted): " + str(self.translator_errors))
        if not changed and up_to_date():
            self.build_s = 0.0
            return
        # something to do: exclusive section
        fcntl.flock(self._lock, fcntl.LOCK_UN)
        fcntl.flock(self._lock, fcntl.LOCK_EX)
        try:
            changed, _, _ = regenerate(write=True)
            if changed:
                log("regenerated from the repository:", changed)
            mk = os.path.join(COQ, "Makefile")
            if write_coqproject() or not os.path.exists(mk):
                rc, out, err = run(["coq_makefile", "-f", "_CoqProject", "-o", "Makefile"], 120, cwd=COQ)
                if rc != 0:
                    self.fail_machinery("coq_makefile failed: " + err)
            t = time.time()
            rc, out, err = run(["make", "-k", "-j%d" % PAR], 3000, cwd=COQ)
            self.build_s = round(time.time() - t, 1)
            if rc != 0:
                self.build_failed = re.findall(r"\[[^\]]*?([A-Za-z0-9_/]+\.vo)\]? Error", out + err) or \
                    re.findall(r"([A-Za-z0-9_/]+\.vo)", err)
                self.build_log = (out + err)[-4000:]
                log("theory build failed for:", self.build_failed)
        finally:
            fcntl.flock(self._lock, fcntl.LOCK_SH)     # keep a shared lock until the process exits

    # ------------------------------------------------------------------ proof obligations
    def compile_props(self, allowed_axioms=frozenset()):
        src = os.path.join(COQ, "props", self.pid + ".v")
        dst = os.path.join(self.dir, self.pid + ".v")
        shutil.copy(src, dst)
        txt = re.sub(r"\(\*.*?\*\)", " ", open(src).read(), flags=re.S)
        names = re.findall(r"^\s*(?:Theorem|Lemma|Example|Corollary)\s+([A-Za-z0-9_']+)", txt, flags=re.M)
        self.cov["obligations"] = len(names)
        self.theorems = names
        rc, out, err = run(["coqc"] + COQFLAGS + [dst], 900, cwd=self.dir)
        self.cov["checker_cmd"] = "coqc -R coq/theories Sketchnu -R coq/generated Sketchnu coq/props/%s.v " \
                                  "(after make of coq/_CoqProject); Print Assumptions audited" % self.pid
        # parse Print Assumptions blocks
        blocks = re.split(r"(?m)^(?=Closed under the global context|Axioms:)", out)
        n_closed = 0
        axioms = set()
        for b in blocks:
            if b.startswith("Closed under the global context"):
                n_closed += 1
            elif b.startswith("Axioms:"):
                n_closed += 1
                # a name starts at column 0; its type follows after " : " on the same line or, for long
                # names, on the next (indented) line
                for m in re.finditer(r"(?m)^([A-Za-z_][A-Za-z0-9_.']*)[ \t]*(?::|$)", b[len("Axioms:"):]):
                    axioms.add(m.group(1))
        self.axioms = sorted(axioms)
        n_print = len(re.findall(r"^\s*Print Assumptions", txt, flags=re.M))
        if rc != 0:
            m = re.search(r'line (\d+), characters', err)
            where = ""
            req_note = ""
            if m:
                ln = int(m.group(1))
                lines = open(src).read().splitlines()
                prev = [n for n in names if any(re.match(r"\s*(?:Theorem|Lemma|Example|Corollary)\s+" + re.escape(n) + r"\b", l)
                                                for l in lines[:ln])]
                where = prev[-1] if prev else "header/imports"
                # a `From Sketchnu Require <tie library>` in the middle of the file belongs to the block that follows it:
                # attribute its failure to the first theorem after that line, not to the last one before it
                if 0 < ln <= len(lines) and re.match(r"\s*(From\s+\S+\s+)?Require\b", lines[ln - 1]) and prev:
                    nxt = [n for n in names if n not in prev]
                    if nxt:
                        where = nxt[0]
                        req_note = " (the library required for it, " + lines[ln - 1].strip() + ", does not load)"
            self.broken.append(f"theorem {where or '?'}{req_note} in props/{self.pid}.v no longer checks: "
                               + err.strip().replace("\n", " ")[:400]
                               + (" | translator obligations not met: " + str(self.translator_errors)
                                  if getattr(self, "translator_errors", None) else ""))
            # obligations discharged before the failure
            self.cov["discharged"] = max(0, names.index(where)) if where in names else 0
            self.props_ok = False
        else:
            self.props_ok = True
            self.cov["discharged"] = len(names)
            if n_closed != n_print:
                self.fail_machinery(f"Print Assumptions output not understood ({n_closed} blocks for {n_print} commands)")
        notallowed = [a for a in axioms if a not in allowed_axioms and not a.split(".")[-1] in
                      {x.split(".")[-1] for x in allowed_axioms}]
        if notallowed:
            self.fail_machinery("axioms outside the allow-list: " + ", ".join(sorted(notallowed)))
        self.trusted.append("Print Assumptions: " + ("closed under the global context for every theorem"
                                                     if not axioms else "axioms " + ", ".join(sorted(axioms))))
        return self.props_ok

    # ------------------------------------------------------------------ model evaluation in Coq
    def coq_bad_cases(self, tag, imports, check_fn, cases, shard=300, prelude="", timeout=900):
        """cases: list of Coq terms (strings).  check_fn: Coq term : case -> bool.
        Returns (set of indices for which check_fn is false, error string or None)."""
        if not cases:
            return set(), None
        files = []
        for si in range(0, len(cases), shard):
            name = f"cases_{tag}_{si // shard}.v"
            with open(os.path.join(self.dir, name), "w") as f:
                f.write("From Coq Require Import String ZArith List Bool Floats.PrimFloat.\n")
                f.write(f"From Sketchnu Require Import {imports}.\n")
                f.write("Import ListNotations.\nOpen Scope Z_scope.\n")
                f.write(prelude + "\n")
                f.write("Definition cases := [\n")
                f.write(";\n".join(f"({i}, {c})" for i, c in enumerate(cases[si:si + shard], si)))
                f.write("\n].\n")
                f.write(f"Eval vm_compute in (bad_cases ({check_fn}) cases).\n")
            files.append(name)
        bad = set()
        errs = []
        from concurrent.futures import ThreadPoolExecutor

        def one(name):
            return name, run(["coqc"] + COQFLAGS + [name], timeout, cwd=self.dir)
        with ThreadPoolExecutor(max_workers=PAR) as ex:
            for name, (rc, out, err) in ex.map(one, files):
                if rc != 0:
                    errs.append(f"{name}: rc={rc} {err.strip()[:600]}")
                    continue
                flat = " ".join(out.split())
                m = re.search(r"= \[(.*?)\]\s*:\s*list Z", flat)
                if not m:
                    errs.append(f"{name}: unparsable output {flat[:300]}")
                    continue
                body = m.group(1).strip()
                if body:
                    bad |= {int(x) for x in re.findall(r"-?\d+", body)}
        return bad, ("; ".join(errs) if errs else None)

    def coq_show(self, tag, imports, term, prelude=""):
        name = f"show_{tag}.v"
        with open(os.path.join(self.dir, name), "w") as f:
            f.write("From Coq Require Import String ZArith List Bool Floats.PrimFloat.\n")
            f.write(f"From Sketchnu Require Import {imports}.\n")
            f.write("Import ListNotations.\nOpen Scope Z_scope.\n" + prelude + "\n")
            f.write(f"Eval vm_compute in ({term}).\n")
        rc, out, err = run(["coqc"] + COQFLAGS + [name], 600, cwd=self.dir)
        return (out + err).strip()

    # ------------------------------------------------------------------ implementation
    def impl(self):
        """import the package from /repo once (22 s of eager JIT)"""
        if self._impl is None:
            t = time.time()
            if REPO not in sys.path:
                sys.path.insert(0, REPO)
            import importlib
            try:
                self._impl = importlib.import_module("sketchnu")
                for m in ("hashes", "countmin", "hyperloglog", "heavyhitters", "helpers"):
                    importlib.import_module("sketchnu." + m)
            except Exception as e:
                self.violation({"kind": "import", "error": repr(e)},
                               "the package no longer imports: " + repr(e), has_input=False)
                self.finish()
            self.import_s = round(time.time() - t, 1)
        return self._impl

    # ------------------------------------------------------------------ results
    def violation(self, replay, what, has_input=True):
        n = len(self.violations)
        path = os.path.join(self.dir, f"replay_{n}.json")
        replay = dict(replay)
        replay.update({"property": self.pid, "seed": self.seed, "tier": self.tier, "what": what})
        with open(path, "w") as f:
            json.dump(replay, f, indent=1, default=repr)
        self.violations.append((path, has_input, what))

    def known_finding(self, text):
        self.known.append(text)

    def finish(self):
        self.cov["distinct_nontrivial"] = len(self._distinct)
        self.cov["trusted_base"] = self.trusted
        self.cov["histograms"] = self.hist
        if self.notes:
            self.cov["notes"] = self.notes
        # a broken theorem / correspondence without any concrete failing input
        if self.broken and not any(h for _, h, _ in self.violations):
            path = os.path.join(self.dir, "replay_broken.json")
            with open(path, "w") as f:
                json.dump({"property": self.pid, "seed": self.seed, "tier": self.tier,
                           "no_longer_checks": self.broken,
                           "searched": self.cov["evaluations"]}, f, indent=1)
            self.violations.append((path, False, "; ".join(self.broken)[:300]))
        ev = {
            "property_id": self.pid, "tier": self.tier, "seed": self.seed,
            "level": getattr(self, "level", "proof"),
            "coverage": self.cov,
            "assumptions": self.assumptions,
            "wall_s": round(time.time() - self.t0, 1),
            "violations": len(self.violations),
        }
        if self.known:
            ev["known_findings"] = self.known
        if self.axioms:
            ev["coverage"]["axioms"] = self.axioms
        os.makedirs(os.path.join(VERIF, "evidence"), exist_ok=True)
        # experiments against a scratch copy of the repository (VERIF_BUILD_TAG) never touch the real evidence
        evpath = (os.path.join(self.dir, "evidence.json") if os.environ.get("VERIF_BUILD_TAG")
                  else os.path.join(VERIF, "evidence", self.pid + ".json"))
        with open(evpath, "w") as f:
            json.dump(ev, f, indent=1, default=repr)
        for k in self.known:
            print(f"KNOWN-FINDING: property={self.pid} {k}")
        for path, has_input, what in self.violations:
            log("violation:", what)
            print(f"VIOLATION property={self.pid} replay={path}" + ("" if has_input else " no-failing-input-found"))
        sys.stdout.flush()
        log(f"[{self.pid}] tier={self.tier} seed={self.seed} evaluations={self.cov['evaluations']} "
            f"distinct_nontrivial={self.cov['distinct_nontrivial']} obligations={self.cov['obligations']}/"
            f"{self.cov['discharged']} wall={ev['wall_s']}s violations={len(self.violations)}")
        sys.exit(1 if self.violations else 0)


def run_coqchk(ctx, timeout=3000):
    """Re-check every compiled Sketchnu library with the independent checker and record its context summary."""
    libs = []
    for sub in ("generated", "theories"):
        for f in sorted(os.listdir(os.path.join(COQ, sub))):
            if f.endswith(".vo"):
                libs.append("Sketchnu." + f[:-3])
    t = time.time()
    rc, out, err = run(["coqchk", "-o", "-silent", "-R", "theories", "Sketchnu", "-R", "generated", "Sketchnu"] + libs,
                       timeout, cwd=COQ)
    txt = out + err
    with open(os.path.join(BUILD, "coqchk.txt"), "w") as f:
        f.write(txt)
    m = re.search(r"\* Axioms:(.*?)\* Constants/Inductives relying on type-in-type", txt, flags=re.S)
    axioms = [l.strip() for l in (m.group(1).splitlines() if m else []) if l.strip()]
    prim = [a for a in axioms if "PrimInt63" in a or "PrimFloat" in a]
    other = [a for a in axioms if a not in prim]
    res = {"rc": rc, "libraries": len(libs), "wall_s": round(time.time() - t, 1),
           "kernel_primitives_listed": len(prim), "axioms_other_than_primitives": other,
           "type_in_type": re.search(r"type-in-type: (.*)", txt).group(1) if re.search(r"type-in-type: (.*)", txt) else "?",
           "unsafe_fixpoints": re.search(r"unsafe \(co\)fixpoints: (.*)", txt).group(1) if re.search(r"unsafe \(co\)fixpoints: (.*)", txt) else "?",
           "positivity_assumed": re.search(r"positivity is assumed: (.*)", txt).group(1) if re.search(r"positivity is assumed: (.*)", txt) else "?"}
    ctx.cov["coqchk"] = res
    if rc != 0:
        ctx.broken.append("coqchk rejected the compiled development: " + txt[-400:])
    return res


def load_known_findings():
    p = os.path.join(VERIF, "known_findings.json")
    if not os.path.exists(p):
        return []
    return json.load(open(p))["findings"]
