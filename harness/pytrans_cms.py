"""pytrans_cms.py — translator plug-in (see translate.generate): kernels WITH array element reads / writes.

Regenerated on every run:
  generated/KernelsCms.v     count-min linear: the loop bodies and straight-line regions of _query_linear,
                             _add_linear and _merge_linear (countmin.py)
  generated/KernelsHllAdd.v  HyperLogLog: _add (loop free, complete) and the loop body of _merge (hyperloglog.py)
tied by proof to the hand-written models in theories/KernelTieCms.v and theories/KernelTieHllAdd.v.

The integer-mode rules of pytrans.IntTrans are reused unchanged (64-bit registers, `+ - * <<` followed by wrap64,
casts uintN(e) -> wrapN, scope tracking for variables assigned under an `if`).  What this module adds:

* array cells.  `a[i]`, `a[i, j]`, `a[i, b[i]]` of an array parameter (element type taken from the @njit signature)
  is rewritten to a scalar variable `a_i`, `a_i_j`, `a_i_b_i` BEFORE translation: a read is the variable (the cell's
  content when the region starts is a parameter of the generated function), a store `a[i] = e` is
  `a_i = <element type>(e)` (the truncation of the store), `a[i] op= e` is `a_i = <element type>(a_i op e)`; the
  cell's final content is a result of the generated function.  This is sound whatever arrays alias because it is
  only accepted when every store is in tail position (nothing is read after a store on any path) and no variable
  used inside an index is assigned after the cell was first mentioned; anything else is a TranslatorError.
* scalar parameters of the enclosing function narrower than 64 bits are wrapped at the entry of a region (the cast
  Numba performs at the call boundary); locals and cell contents handed to a region are not (a load from a uintN
  array cannot produce anything outside the type).
* `min(a, b)` / `max(a, b)` -> Z.min / Z.max.
* a bare `return` / `return None` inside a region of a void function -> `None`, falling through -> `Some results`.

Fail-soft per function: a function that cannot be translated gets POISONED definitions (constant -1 of the right
arity and type), the error is reported, the generated files always compile and only the tie lemmas fail.
"""
import ast
import copy
import os

from translate import TranslatorError, _parse, _find_func, _strip_doc
from pytrans import IntTrans, WIDTH

COQ_RESERVED = {"as", "at", "cofix", "else", "end", "exists", "exists2", "fix", "for", "forall", "fun", "if", "IF", "in",
                "let", "match", "mod", "Prop", "return", "Set", "then", "Type", "using", "where", "with", "Some", "None",
                "fst", "snd", "negb", "wrap8", "wrap16", "wrap32", "wrap64"}


# ------------------------------------------------------------------ signature
def sig_types(fn):
    """{param name: ("scalar", ty) | ("array", element ty) | ("other", None)}, return type name"""
    for d in fn.decorator_list:
        if isinstance(d, ast.Call) and getattr(d.func, "id", None) == "njit" and d.args:
            s = d.args[0]
            if not isinstance(s, ast.Call):
                continue
            rt = s.func.id if isinstance(s.func, ast.Name) else (s.func.attr if isinstance(s.func, ast.Attribute) else None)
            names = [a.arg for a in fn.args.args]
            if len(names) != len(s.args):
                raise TranslatorError(f"{fn.name}: signature arity")
            out = {}
            for n, a in zip(names, s.args):
                if isinstance(a, ast.Name):
                    out[n] = ("scalar", a.id)
                elif isinstance(a, ast.Subscript) and isinstance(a.value, ast.Name):
                    out[n] = ("array", a.value.id)
                else:
                    out[n] = ("other", None)
            return out, rt
    raise TranslatorError(f"{fn.name}: no @njit(signature) decorator")


# ------------------------------------------------------------------ array cells -> scalar variables
class Cells(ast.NodeTransformer):
    def __init__(self, fname, arrays):
        self.fname = fname
        self.arrays = arrays            # array parameter -> element type
        self.first = {}                 # cell name -> (line, col) of its first mention
        self.index_names = {}           # cell name -> names used inside its index
        self.stored = set()
        self.used = set()               # cells whose content the region reads or writes (not those only used as an index)

    def cell(self, node):
        """name of the scalar that stands for the array element `node`, or None if it is not one"""
        if not (isinstance(node, ast.Subscript) and isinstance(node.value, ast.Name) and node.value.id in self.arrays):
            return None
        if isinstance(node.slice, ast.Slice):
            return None
        used = set()

        def comp(i):
            if isinstance(i, ast.Name):
                used.add(i.id)
                return i.id
            if isinstance(i, ast.Constant) and isinstance(i.value, int) and not isinstance(i.value, bool) and i.value >= 0:
                return str(i.value)
            if isinstance(i, ast.Subscript):
                c = self.cell(i)
                if c is None:
                    raise TranslatorError(f"{self.fname}: unsupported index {ast.unparse(i)}")
                used.add(c)
                used.update(self.index_names[c])
                return c
            raise TranslatorError(f"{self.fname}: unsupported index {ast.unparse(i)}")

        idx = node.slice.elts if isinstance(node.slice, ast.Tuple) else [node.slice]
        name = node.value.id + "_" + "_".join(comp(i) for i in idx)
        self.first.setdefault(name, (node.lineno, node.col_offset))
        self.index_names.setdefault(name, set()).update(used)
        return name

    def visit_Subscript(self, node):
        c = self.cell(node)
        if c is None:
            return self.generic_visit(node)
        if not isinstance(node.ctx, ast.Load):
            raise TranslatorError(f"{self.fname}: unsupported store to {ast.unparse(node)}")
        self.used.add(c)
        return ast.copy_location(ast.Name(id=c, ctx=ast.Load()), node)

    def _store(self, node, target, value):
        c = self.cell(target)
        ety = self.arrays[target.value.id]
        if ety not in WIDTH:
            raise TranslatorError(f"{self.fname}: element type {ety} of {target.value.id}")
        self.stored.add(c)
        self.used.add(c)
        cast = ast.Call(func=ast.Name(id=ety, ctx=ast.Load()), args=[value], keywords=[])
        new = ast.Assign(targets=[ast.Name(id=c, ctx=ast.Store())], value=cast)
        new._cell_store = True
        return ast.fix_missing_locations(ast.copy_location(new, node))

    def visit_Assign(self, node):
        if len(node.targets) == 1 and self.cell(node.targets[0]) is not None:
            return self._store(node, node.targets[0], self.visit(node.value))
        return self.generic_visit(node)

    def visit_AugAssign(self, node):
        if self.cell(node.target) is not None:
            c = self.cell(node.target)
            old = ast.copy_location(ast.Name(id=c, ctx=ast.Load()), node.target)
            return self._store(node, node.target, ast.BinOp(left=old, op=node.op, right=self.visit(node.value)))
        return self.generic_visit(node)


def _is_store(s):
    return getattr(s, "_cell_store", False)


def _check_tail_stores(fname, stmts):
    """every cell store is the last thing executed on its path"""
    for i, s in enumerate(stmts):
        last = i == len(stmts) - 1
        has = any(_is_store(n) for n in ast.walk(s))
        if not has:
            continue
        if not last:
            raise TranslatorError(f"{fname}: l.{s.lineno}: statements follow a store into an array (aliasing not modelled)")
        if isinstance(s, ast.If):
            _check_tail_stores(fname, s.body)
            _check_tail_stores(fname, s.orelse)
        elif not _is_store(s):
            raise TranslatorError(f"{fname}: l.{s.lineno}: array store inside {type(s).__name__}")


def _check_index_stability(fname, stmts, cells):
    for s in stmts:
        for n in ast.walk(s):
            tgt = None
            if isinstance(n, ast.Assign) and len(n.targets) == 1 and isinstance(n.targets[0], ast.Name):
                tgt = n.targets[0].id
            elif isinstance(n, ast.AugAssign) and isinstance(n.target, ast.Name):
                tgt = n.target.id
            if tgt is None:
                continue
            for c, used in cells.index_names.items():
                if tgt in used and (n.lineno, n.col_offset) >= cells.first[c]:
                    raise TranslatorError(f"{fname}: l.{n.lineno}: {tgt} is assigned after it was used as an index of {c}")


# ------------------------------------------------------------------ the translator
class CellTrans(IntTrans):
    """IntTrans + min/max + `return` of a void function"""

    def __init__(self, known):
        super().__init__(known)
        self.void = None             # Gallina term for a bare `return` (None: not allowed)

    def expr(self, e):
        if isinstance(e, ast.Call) and isinstance(e.func, ast.Name) and e.func.id in ("min", "max") \
                and len(e.args) == 2 and not e.keywords:
            return f"(Z.{e.func.id} {self.expr(e.args[0])} {self.expr(e.args[1])})"
        if isinstance(e, ast.Call) and e.keywords:
            raise TranslatorError("keyword arguments")
        return super().expr(e)

    def block(self, stmts, ret_ty, tail=None, defined=None):
        if stmts and isinstance(stmts[0], ast.Return):
            v = stmts[0].value
            if v is None or (isinstance(v, ast.Constant) and v.value is None):
                if self.void is None:
                    raise TranslatorError("bare return in a region that has no early exit")
                return self.void
        return super().block(stmts, ret_ty, tail, defined)

    # the scoping discipline of IntTrans.block, replayed on names only: everything the term mentions is bound
    def check_scope(self, fname, stmts, defined):
        defined = set(defined)

        def names(e):
            funcs = {id(n.func) for n in ast.walk(e) if isinstance(n, ast.Call)}
            return {n.id for n in ast.walk(e) if isinstance(n, ast.Name) and id(n) not in funcs}

        for s in stmts:
            if isinstance(s, ast.Return):
                if s.value is not None:
                    self._bound(fname, names(s.value), defined, s)
                return defined
            if isinstance(s, ast.Assign) and len(s.targets) == 1 and isinstance(s.targets[0], ast.Name):
                self._bound(fname, names(s.value), defined, s)
                defined.add(s.targets[0].id)
            elif isinstance(s, ast.AugAssign) and isinstance(s.target, ast.Name):
                self._bound(fname, names(s.value) | {s.target.id}, defined, s)
            elif isinstance(s, ast.If):
                self._bound(fname, names(s.test), defined, s)
                self.check_scope(fname, s.body, defined)
                self.check_scope(fname, s.orelse, defined)
            else:
                raise TranslatorError(f"{fname}: l.{s.lineno}: unsupported statement {type(s).__name__}")
        return defined

    @staticmethod
    def _bound(fname, used, defined, s):
        free = sorted(used - defined)
        if free:
            raise TranslatorError(f"{fname}: l.{s.lineno}: {free} not bound in the region (parameters: {sorted(defined)})")

    def cell_region(self, gname, fn, stmts, params, results, option=False):
        """Gallina definition `gname params : results` for the statements `stmts` of the function `fn`.
        params / results: source-level variable names or array cells written as they become after the rewriting
        (`cms_row_col`).  option=True: the region may leave the function early (`return`): result type option."""
        types, _ = sig_types(fn)
        arrays = {n: t for n, (k, t) in types.items() if k == "array"}
        cells = Cells(fn.name, arrays)
        new = [cells.visit(copy.deepcopy(s)) for s in stmts]
        for s in new:
            ast.fix_missing_locations(s)
        _check_tail_stores(fn.name, new)
        _check_index_stability(fn.name, new, cells)
        for c in cells.stored:
            for d, used in cells.index_names.items():
                if c in used:
                    raise TranslatorError(f"{fn.name}: {c} is stored and used as an index of {d}")
        for p in list(params) + list(results):
            if p in COQ_RESERVED or not p.isidentifier():
                raise TranslatorError(f"{fn.name}: name {p}")
        for c in sorted(cells.used):
            if c not in params:
                raise TranslatorError(f"{fn.name}: array element {c} is not a parameter of region {gname}")
        final = self.check_scope(fn.name, new, params)
        for r in results:
            if r not in final:
                raise TranslatorError(f"{fn.name}: result {r} is not defined when region {gname} ends")
        for n in final:
            if n in COQ_RESERVED:
                raise TranslatorError(f"{fn.name}: variable name {n}")
        pre = ""
        for p in params:
            k, t = types.get(p, (None, None))
            if k == "scalar":
                if t not in WIDTH:
                    raise TranslatorError(f"{fn.name}: parameter type {t} of {p}")
                if WIDTH[t] < 64:
                    pre += f"let {p} := wrap{WIDTH[t]} {p} in\n  "
            elif k is not None:
                raise TranslatorError(f"{fn.name}: {p} is not a scalar")
        tup = results[0] if len(results) == 1 else "(" + ", ".join(results) + ")"
        rty = "Z" if len(results) == 1 else "(" + " * ".join(["Z"] * len(results)) + ")"
        if option:
            self.void, tail, rty = "None", f"Some {tup}", f"option {rty}"
        else:
            self.void, tail = None, tup
        try:
            term = self.block(new, None, tail, set(params))
        finally:
            self.void = None
        return f"Definition {gname} ({' '.join(params)} : Z) : {rty} :=\n  {pre}{term}.\n"


def _shape(fn, body, want):
    # `x op= e` and `x = x op e` are the same statement to the translator (CellTrans handles both)
    norm = lambda names: ["Assign" if n == "AugAssign" else n for n in names]
    got = [type(x).__name__ for x in body]
    if norm(got) != norm(want):
        raise TranslatorError(f"{fn.name}: unexpected statement shape {got}")


def _range_loop(fn, s, var, bound, fns=("range",)):
    ok = (isinstance(s, ast.For) and isinstance(s.target, ast.Name) and s.target.id == var and not s.orelse
          and isinstance(s.iter, ast.Call) and getattr(s.iter.func, "id", None) in fns and len(s.iter.args) == 1
          and isinstance(s.iter.args[0], ast.Name) and s.iter.args[0].id == bound)
    if not ok:
        raise TranslatorError(f"{fn.name}: l.{s.lineno}: expected `for {var} in {'/'.join(fns)}({bound})`")


# ------------------------------------------------------------------ count-min linear
def _uses(node, names):
    return any(isinstance(c, ast.Name) and c.id in names for c in ast.walk(node))


def split_query(fn, body, cms, buckets, depth):
    """The reduction part of a count-min query kernel, whatever computes the columns (the row hash is not part of the
    min-reduction; it is pinned separately, by C14's obligations): returns (init statement, loop, region, name of the
    running minimum).  Accepted: statements before the row loop that do not touch the table or the running minimum (hash
    preparation), exactly one initialisation of the running minimum, one `for row in range(depth)` loop directly followed
    by `return <minimum>`; inside the loop, leading assignments that do not read the table or the minimum (the column
    computation, e.g. `buckets[row] = ...`) are skipped, the rest is the region."""
    if not (body and isinstance(body[-1], ast.Return) and isinstance(body[-1].value, ast.Name)):
        raise TranslatorError(f"{fn.name}: does not end with `return <running minimum>`")
    mc = body[-1].value.id
    if len(body) < 3 or not isinstance(body[-2], ast.For):
        raise TranslatorError(f"{fn.name}: the return is not directly preceded by the row loop")
    loop = body[-2]
    if not isinstance(loop.target, ast.Name):
        raise TranslatorError(f"{fn.name}: row loop target")
    _range_loop(fn, loop, loop.target.id, depth)
    init = None
    for st in body[:-2]:
        if isinstance(st, ast.Assign) and len(st.targets) == 1 and isinstance(st.targets[0], ast.Name) and st.targets[0].id == mc:
            if init is not None:
                raise TranslatorError(f"{fn.name}: the running minimum is initialised twice")
            init = st
        elif isinstance(st, (ast.Assign, ast.Expr)) and not _uses(st, {mc, cms}):
            continue                                     # hash preparation
        else:
            raise TranslatorError(f"{fn.name}: l.{st.lineno}: unexpected statement before the row loop")
    if init is None:
        raise TranslatorError(f"{fn.name}: the running minimum is not initialised before the loop")
    k = 0
    while k < len(loop.body) and isinstance(loop.body[k], ast.Assign) and not _uses(loop.body[k].value, {mc, cms}) \
            and not _uses(loop.body[k].targets[0], {mc, cms}):
        k += 1                                           # column computation
    region = loop.body[k:]
    if not region:
        raise TranslatorError(f"{fn.name}: nothing left in the row loop after the column computation")
    return init, loop, region, mc


def _query_linear(cm):
    fn = _find_func(cm, "_query_linear")
    body = _strip_doc(fn)
    init, loop, region, mc = split_query(fn, body, "cms", "buckets", "depth")
    row = loop.target.id
    t = CellTrans({})
    out = [f"(* countmin.py _query_linear l.{init.lineno}: the running minimum starts from uint_maxval *)",
           t.cell_region("gen_query_linear_init", fn, [init], ["uint_maxval"], [mc]),
           f"(* _query_linear l.{region[0].lineno}-{region[-1].end_lineno}: one row of the loop, after the column computation *)",
           t.cell_region("gen_query_linear_step", fn, region, [mc, f"cms_{row}_buckets_{row}"], [mc])]
    return out


def _add_linear(cm):
    fn = _find_func(cm, "_add_linear")
    body = _strip_doc(fn)
    _shape(fn, body, ["Assign", "If", "Assign", "Assign", "AugAssign", "For"])
    q = body[0]
    if not (isinstance(q.targets[0], ast.Name) and isinstance(q.value, ast.Call)
            and getattr(q.value.func, "id", None) == "_query_linear"
            and [ast.unparse(a) for a in q.value.args] == ["cms", "buckets", "width", "depth", "uint_maxval", "key"]):
        raise TranslatorError("_add_linear: first statement is not <min> = _query_linear(cms, buckets, width, depth, uint_maxval, key)")
    mc = q.targets[0].id                    # local names are taken from the source (a rename is not a change)
    if not (isinstance(body[3], ast.Assign) and isinstance(body[3].targets[0], ast.Name)):
        raise TranslatorError("_add_linear: fourth statement does not assign the new count to a local")
    nc = body[3].targets[0].id
    _range_loop(fn, body[5], "row", "depth")
    t = CellTrans({})
    out = [f"(* countmin.py _add_linear l.{body[1].lineno}-{body[4].end_lineno}: from the queried minimum to (value, new_count, n_added_records[0]); "
           "None = the early return *)",
           t.cell_region("gen_add_linear_pre", fn, body[1:5], [mc, "value", "uint_maxval", "n_added_records_0"],
                         ["value", nc, "n_added_records_0"], option=True),
           f"(* _add_linear l.{body[5].body[0].lineno}-{body[5].body[-1].end_lineno}: body of the update loop, new content of cms[row, buckets[row]] *)",
           t.cell_region("gen_add_linear_cell", fn, body[5].body, ["cms_row_buckets_row", nc], ["cms_row_buckets_row"])]
    return out


def _merge_linear(cm):
    fn = _find_func(cm, "_merge_linear")
    body = _strip_doc(fn)
    _shape(fn, body, ["For", "AugAssign", "AugAssign"])
    _range_loop(fn, body[0], "row", "depth", ("prange", "range"))
    _shape(fn, body[0].body, ["For"])
    inner = body[0].body[0]
    _range_loop(fn, inner, "col", "width")
    t = CellTrans({})
    out = [f"(* countmin.py _merge_linear l.{inner.body[0].lineno}-{inner.body[-1].end_lineno}: body of the loop over the cells, new content of cms[row, col] *)",
           t.cell_region("gen_merge_linear_cell", fn, inner.body, ["cms_row_col", "other_cms_row_col", "uint_maxval"], ["cms_row_col"]),
           f"(* _merge_linear l.{body[1].lineno}-{body[2].end_lineno}: the two special counters *)",
           t.cell_region("gen_merge_linear_n_added", fn, body[1:2], ["n_added_records_0", "other_n_added_records_0"], ["n_added_records_0"]),
           t.cell_region("gen_merge_linear_n_records", fn, body[2:3], ["n_added_records_1", "other_n_added_records_1"], ["n_added_records_1"])]
    return out


# ------------------------------------------------------------------ HyperLogLog
def _hll_add(hl):
    fn = _find_func(hl, "_add")
    body = _strip_doc(fn)
    _shape(fn, body, ["Assign", "Assign", "Assign", "Assign", "Assign", "Return"])
    h = body[0]
    if not (isinstance(h.targets[0], ast.Name) and h.targets[0].id == "hash_val" and ast.unparse(h.value) == "fasthash64(key, seed)"):
        raise TranslatorError("_add: first statement is not hash_val = fasthash64(key, seed)")
    r = body[5].value
    if not (r is None or (isinstance(r, ast.Constant) and r.value is None)):
        raise TranslatorError("_add: returns a value")
    t = CellTrans({})
    t.function(_find_func(hl, "_n_leading_zeros64"))      # registers the callee (its definition lives in KernelsHll.v)
    return [f"(* hyperloglog.py _add l.{body[1].lineno}-{body[4].end_lineno}: everything after hash_val = fasthash64(key, seed): "
            "(register index, new content of registers[reg_idx]) *)",
            t.cell_region("gen_hll_add", fn, body[1:5], ["hash_val", "p", "m", "registers_reg_idx"], ["reg_idx", "registers_reg_idx"])]


def _hll_merge(hl):
    fn = _find_func(hl, "_merge")
    body = _strip_doc(fn)
    _shape(fn, body, ["For"])
    _range_loop(fn, body[0], "i", "m")
    t = CellTrans({})
    return [f"(* hyperloglog.py _merge l.{body[0].body[0].lineno}-{body[0].body[-1].end_lineno}: body of the loop, new content of registers[i] *)",
            t.cell_region("gen_hll_merge_cell", fn, body[0].body, ["registers_i", "other_registers_i"], ["registers_i"])]


# ------------------------------------------------------------------ files
HDR = ["(* GENERATED by harness/pytrans_cms.py from the repository - do not edit.  Kernel regions with array cells, translated from the AST. *)",
       "From Coq Require Import ZArith Bool.", "From Sketchnu Require Import Machine.", "Open Scope Z_scope.", ""]

# (file, extra header lines, source file, [(tag, translator, [(definition, arity, type, poison value)])])
PLAN = [
    ("KernelsCms.v", [], "countmin.py", [
        ("_query_linear", _query_linear, [("gen_query_linear_init", 1, "Z", "-1"), ("gen_query_linear_step", 2, "Z", "-1")]),
        ("_add_linear", _add_linear, [("gen_add_linear_pre", 4, "option (Z * Z * Z)", "Some (-1, -1, -1)"), ("gen_add_linear_cell", 2, "Z", "-1")]),
        ("_merge_linear", _merge_linear, [("gen_merge_linear_cell", 3, "Z", "-1"), ("gen_merge_linear_n_added", 2, "Z", "-1"),
                                          ("gen_merge_linear_n_records", 2, "Z", "-1")]),
    ]),
    ("KernelsHllAdd.v", ["From Sketchnu Require Import KernelsHll.", ""], "hyperloglog.py", [
        ("_add", _hll_add, [("gen_hll_add", 4, "(Z * Z)", "(-1, -1)")]),
        ("_merge", _hll_merge, [("gen_hll_merge_cell", 2, "Z", "-1")]),
    ]),
]


def generate(repo):
    """({file name: text}, {tag: error}); never raises, the files always compile"""
    src = os.path.join(repo, "sketchnu")
    texts, errors = {}, {}
    for fname, extra, source, groups in PLAN:
        out = list(HDR) + list(extra)
        tree, perr = None, None
        try:
            tree = _parse(os.path.join(src, source))
        except Exception as e:
            perr = e
        for tag, fn, defs in groups:
            try:
                if tree is None:
                    raise perr
                part = fn(tree)
                for name, arity, rty, _ in defs:      # what is emitted is what the tie files expect
                    if sum(p.startswith(f"Definition {name} (") for p in part) != 1:
                        raise TranslatorError(f"{tag}: definition {name} not produced")
                out += part
            except Exception as e:
                errors[f"kernels:{source[:-3]}:{tag}"] = f"{type(e).__name__}: {e}"
                out.append("(* TRANSLATION FAILED (" + tag + "): " + str(e).replace("*)", "* )").replace("(*", "( *") + " *)")
                for name, arity, rty, poison in defs:
                    out.append(f"Definition {name} ({' '.join('x%d' % i for i in range(arity))} : Z) : {rty} := {poison}.  (* translation failed *)\n")
        texts[fname] = "\n".join(out) + "\n"
    return texts, errors


if __name__ == "__main__":
    import sys
    t, e = generate(sys.argv[1] if len(sys.argv) > 1 else "/repo")
    for k, v in t.items():
        print("=====", k)
        print(v)
    print("errors:", e)
