"""pytrans.py — translator for the loop-free leaf kernels: Python/Numba AST -> Gallina.

Regenerated on every run into coq/generated/Kernels.v.  Two modes:

* int mode (hashes.py helpers, _n_leading_zeros64): every integer local lives in a 64-bit unsigned
  register (Numba unifies the small unsigned types of these functions to uint64/int64 as soon as an
  arithmetic result is assigned), so `+ - * <<` are followed by wrap64; explicit casts uintN(e) are wrapN;
  parameters narrower than 64 bits are wrapped at entry (the cast Numba performs at the call boundary);
  the result is wrapped to the declared return type.
* real mode (_func, _funcprime, _counter2value of countmin.py): float64 expressions are read as real-number
  expressions (what the code computes up to rounding); `x ** e` with an integer-valued exponent is `powerRZ`.

The generated definitions are tied to the hand-written models by equality lemmas in theories/KernelTie.v, so an
edit of one of these functions in the source breaks a proof obligation (besides the correspondence runs).
Fail-closed: any construct outside the small subset raises TranslatorError.
"""
import ast
import os

from translate import TranslatorError, _parse, _find_func, _strip_doc

WIDTH = {"uint8": 8, "uint16": 16, "uint32": 32, "uint64": 64}


def _sig(fn):
    """(param types, return type) from the @njit(ret(args...)) decorator"""
    for d in fn.decorator_list:
        if isinstance(d, ast.Call) and getattr(d.func, "id", None) == "njit" and d.args:
            s = d.args[0]
            if isinstance(s, ast.Call) and isinstance(s.func, ast.Name):
                ps = []
                for a in s.args:
                    if isinstance(a, ast.Name):
                        ps.append(a.id)
                    else:
                        ps.append("other")
                return ps, s.func.id
    raise TranslatorError(f"{fn.name}: no @njit(signature) decorator")


class IntTrans:
    def __init__(self, known):
        self.known = known          # name -> (param types, ret type) of already translated functions

    def wrap(self, ty, e):
        return f"(wrap{WIDTH[ty]} {e})" if ty in WIDTH else e

    def expr(self, e):
        if isinstance(e, ast.Name):
            return e.id
        if isinstance(e, ast.Constant) and isinstance(e.value, int) and not isinstance(e.value, bool):
            return str(e.value) if e.value >= 0 else f"({e.value})"
        if isinstance(e, ast.Subscript) and isinstance(e.value, ast.Name):
            idx = e.slice
            if isinstance(idx, ast.Constant) and isinstance(idx.value, int):
                return f"{e.value.id}_{idx.value}"
            if isinstance(idx, ast.Name):
                return f"{e.value.id}_{idx.id}"
            raise TranslatorError("unsupported subscript")
        if isinstance(e, ast.Call) and isinstance(e.func, ast.Name):
            f = e.func.id
            if f == "len" and len(e.args) == 1 and isinstance(e.args[0], ast.Name):
                return "len_" + e.args[0].id
            if f in WIDTH and len(e.args) == 1:
                return self.wrap(f, self.expr(e.args[0]))
            if f in self.known:
                ps, _ = self.known[f]
                if len(ps) != len(e.args):
                    raise TranslatorError(f"call {f}: arity")
                return "(gen_" + f.lstrip("_") + " " + " ".join(self.expr(a) for a in e.args) + ")"
            raise TranslatorError(f"unsupported call {f}")
        if isinstance(e, ast.BinOp):
            a, b = self.expr(e.left), self.expr(e.right)
            op = type(e.op)
            if op is ast.BitXor:
                return f"(Z.lxor {a} {b})"
            if op is ast.BitOr:
                return f"(Z.lor {a} {b})"
            if op is ast.BitAnd:
                return f"(Z.land {a} {b})"
            if op is ast.RShift:
                return f"(Z.shiftr {a} {b})"
            if op is ast.LShift:
                return f"(wrap64 (Z.shiftl {a} {b}))"
            if op is ast.Mult:
                return f"(wrap64 ({a} * {b}))"
            if op is ast.Add:
                return f"(wrap64 ({a} + {b}))"
            if op is ast.Sub:
                return f"(wrap64 ({a} - {b}))"
            if op is ast.FloorDiv:
                return f"({a} / {b})"
            raise TranslatorError(f"unsupported operator {op.__name__}")
        raise TranslatorError(f"unsupported expression {ast.dump(e)[:80]}")

    def cond(self, t):
        if isinstance(t, ast.Compare) and len(t.ops) == 1:
            a, b = self.expr(t.left), self.expr(t.comparators[0])
            op = type(t.ops[0])
            return {ast.NotEq: f"(negb ({a} =? {b}))", ast.Eq: f"({a} =? {b})", ast.Lt: f"({a} <? {b})",
                    ast.LtE: f"({a} <=? {b})", ast.Gt: f"({a} >? {b})", ast.GtE: f"({a} >=? {b})"}[op]
        raise TranslatorError("unsupported condition")

    @staticmethod
    def assigned(stmts):
        out = []
        for s in stmts:
            if isinstance(s, ast.Assign) and len(s.targets) == 1 and isinstance(s.targets[0], ast.Name):
                out.append(s.targets[0].id)
            elif isinstance(s, ast.AugAssign) and isinstance(s.target, ast.Name):
                out.append(s.target.id)
            elif isinstance(s, ast.If):
                out += IntTrans.assigned(s.body) + IntTrans.assigned(s.orelse)
        return list(dict.fromkeys(out))

    @staticmethod
    def has_return(stmts):
        return any(isinstance(n, ast.Return) for s in stmts for n in ast.walk(s))

    def block(self, stmts, ret_ty, tail=None, defined=None):
        """Gallina term for a statement list.  tail: term to continue with when the block falls through.
        defined: names in scope (a variable first assigned inside an if-branch is local to that branch)."""
        defined = set(defined or ())
        if not stmts:
            if tail is None:
                raise TranslatorError("function may fall off its end")
            return tail
        s, rest = stmts[0], stmts[1:]
        if isinstance(s, ast.Return):
            return self.wrap(ret_ty, self.expr(s.value))
        if isinstance(s, ast.Assign) and len(s.targets) == 1 and isinstance(s.targets[0], ast.Name):
            v = s.value
            if isinstance(v, ast.Subscript) and isinstance(v.slice, ast.Slice):
                # `tail = key[n:]`: a view; its elements appear as parameters tail_0, tail_1, ...
                return self.block(rest, ret_ty, tail, defined)
            n = s.targets[0].id
            return f"let {n} := {self.expr(s.value)} in\n  {self.block(rest, ret_ty, tail, defined | {n})}"
        if isinstance(s, ast.AugAssign) and isinstance(s.target, ast.Name):
            e = self.expr(ast.BinOp(left=ast.Name(id=s.target.id), op=s.op, right=s.value))
            return f"let {s.target.id} := {e} in\n  {self.block(rest, ret_ty, tail, defined | {s.target.id})}"
        if isinstance(s, ast.If):
            c = self.cond(s.test)
            if self.has_return(s.body) or self.has_return(s.orelse):
                cont = self.block(rest, ret_ty, tail, defined) if (rest or tail is not None) else None
                return (f"if {c} then ({self.block(s.body, ret_ty, cont, defined)})\n  else ({self.block(s.orelse, ret_ty, cont, defined)})")
            vs = [v for v in self.assigned([s]) if v in defined]
            if not vs:
                raise TranslatorError("if statement without effect on the variables in scope")
            tup = vs[0] if len(vs) == 1 else "(" + ", ".join(vs) + ")"
            pat = vs[0] if len(vs) == 1 else "'(" + ", ".join(vs) + ")"
            return (f"let {pat} := (if {c} then ({self.block(s.body, None, tup, defined)}) else ({self.block(s.orelse, None, tup, defined)})) in\n  "
                    f"{self.block(rest, ret_ty, tail, defined)}")
        raise TranslatorError(f"unsupported statement {type(s).__name__}")

    def function(self, fn):
        ps, rt = _sig(fn)
        names = [a.arg for a in fn.args.args]
        if len(names) != len(ps):
            raise TranslatorError(f"{fn.name}: signature arity")
        body = _strip_doc(fn)
        pre = ""
        for n, t in zip(names, ps):
            if t in WIDTH and WIDTH[t] < 64:
                pre += f"let {n} := wrap{WIDTH[t]} {n} in\n  "
            elif t not in WIDTH:
                raise TranslatorError(f"{fn.name}: parameter type {t}")
        term = self.block(body, rt, None, set(names))
        self.known[fn.name] = (ps, rt)
        gname = "gen_" + fn.name.lstrip("_")
        return f"Definition {gname} ({' '.join(names)} : Z) : Z :=\n  {pre}{term}.\n"


    def region(self, name, stmts, params, result=None, ret_ty=None):
        """A straight-line region of a function as a Gallina function of `params`.
        result: name(s) of the variable(s) whose value the region produces (when it does not end in `return`)."""
        tail = None
        if result is not None:
            tail = result if isinstance(result, str) else "(" + ", ".join(result) + ")"
        term = self.block(list(stmts), ret_ty, tail, set(params))
        rty = "Z" if (result is None or isinstance(result, str)) else "(" + " * ".join(["Z"] * len(result)) + ")"
        return f"Definition {name} ({' '.join(params)} : Z) : {rty} :=\n  {term}.\n"


class RealTrans:
    """float64 code read as real-number expressions.  Integer-typed parameters are Z, float ones R."""

    def __init__(self, ztypes):
        self.z = set(ztypes)        # names known to be integers (Z)
        self.intval = {}            # float locals that hold an integer value: name -> Z expression

    def zexpr(self, e):
        if isinstance(e, ast.Name) and e.id in self.z:
            return e.id
        if isinstance(e, ast.Constant) and isinstance(e.value, int):
            return str(e.value)
        if isinstance(e, ast.BinOp) and isinstance(e.op, (ast.Sub, ast.Add)):
            a, b = self.zexpr(e.left), self.zexpr(e.right)
            if a is not None and b is not None:
                return f"({a} {'-' if isinstance(e.op, ast.Sub) else '+'} {b})%Z"
        return None

    def expr(self, e):
        z = self.zexpr(e)
        if z is not None:
            return f"(IZR {z})"
        if isinstance(e, ast.Name):
            return e.id
        if isinstance(e, ast.Constant) and isinstance(e.value, float):
            if e.value != int(e.value):
                raise TranslatorError("non-integer float literal in real mode")
            return f"(IZR {int(e.value)})"
        if isinstance(e, ast.Call) and isinstance(e.func, ast.Name) and e.func.id == "float64" and len(e.args) == 1:
            return self.expr(e.args[0])
        if isinstance(e, ast.BinOp):
            if isinstance(e.op, ast.Pow):
                base = self.expr(e.left)
                ex = self.zexpr(e.right)
                if ex is None and isinstance(e.right, ast.Name) and e.right.id in self.intval:
                    ex = self.intval[e.right.id]
                if ex is None:
                    raise TranslatorError("exponent is not integer valued")
                return f"(powerRZ {base} {ex})"
            a, b = self.expr(e.left), self.expr(e.right)
            op = {ast.Add: "+", ast.Sub: "-", ast.Mult: "*", ast.Div: "/"}.get(type(e.op))
            if op is None:
                raise TranslatorError("unsupported real operator")
            return f"({a} {op} {b})"
        raise TranslatorError(f"unsupported real expression {ast.dump(e)[:80]}")

    def block(self, stmts):
        s, rest = stmts[0], stmts[1:]
        if isinstance(s, ast.Return):
            return self.expr(s.value)
        if isinstance(s, ast.Assign) and len(s.targets) == 1 and isinstance(s.targets[0], ast.Name):
            n = s.targets[0].id
            z = self.zexpr(s.value)
            if z is not None:
                self.z.add(n)
                return f"let {n} := {z} in\n  {self.block(rest)}"
            v = s.value
            if isinstance(v, ast.Call) and getattr(v.func, "id", None) == "float64" and self.zexpr(v.args[0]) is not None:
                self.intval[n] = self.zexpr(v.args[0])
            return f"let {n} := {self.expr(s.value)} in\n  {self.block(rest)}"
        if isinstance(s, ast.If) and isinstance(s.test, ast.Compare) and len(s.test.ops) == 1 \
                and isinstance(s.test.ops[0], ast.LtE):
            a, b = self.zexpr(s.test.left), self.zexpr(s.test.comparators[0])
            if a is None or b is None:
                raise TranslatorError("real mode: only integer comparisons")
            return f"if ({a} <=? {b})%Z then ({self.block(s.body)}) else ({self.block(s.orelse or rest)})"
        raise TranslatorError(f"real mode: unsupported statement {type(s).__name__}")


HDR = ["(* GENERATED by harness/pytrans.py from the repository - do not edit.  Loop-free kernels, translated from the AST. *)",
       "From Coq Require Import ZArith Bool Reals.", "From Sketchnu Require Import Machine.", "Open Scope Z_scope.", ""]

# name -> Gallina signature, used to emit a POISONED definition (constant -1) when a kernel cannot be translated:
# the generated file still compiles, the tie lemma of that source file fails, and only the properties that import
# that tie are affected
POISON = {
    "hashes": [("gen_xor_shiftl", 3), ("gen_fhmix64", 1), ("gen_xor32", 2), ("gen_shift32r", 2), ("gen_shift32l", 2),
               ("gen_rotl32", 2), ("gen_fmix32", 1), ("gen_fh_init", 2), ("gen_fh_block", 3), ("gen_fh_finish", 10),
               ("gen_fh32_fin", 1), ("gen_mm_block", 5), ("gen_mm_finish", 7)],
    "hll": [("gen_n_leading_zeros64", 1)],
}


def _poison_int(names):
    return "".join(f"Definition {n} ({' '.join('x%d' % i for i in range(k))} : Z) : Z := -1.  (* translation failed *)\n"
                   for n, k in names)


def _hashes(src):
    out = list(HDR)
    h = _parse(os.path.join(src, "hashes.py"))
    it = IntTrans({})
    for name in ("_xor_shiftl", "_fhmix64", "_xor32", "_shift32r", "_shift32l", "_rotl32", "_fmix32"):
        out.append(f"(* hashes.py {name} *)")
        out.append(it.function(_find_func(h, name)))
    # ---- fasthash64 / fasthash32 / murmur3: everything except the loop headers, region by region
    fh = _strip_doc(_find_func(h, "fasthash64"))
    shape = [type(x).__name__ for x in fh]
    if shape != ["Assign", "Assign", "Assign", "Assign", "If", "Assign", "If", "Return"]:
        raise TranslatorError(f"fasthash64: unexpected statement shape {shape}")
    loop = [x for x in fh[4].body if isinstance(x, ast.For)]
    if len(loop) != 1 or fh[4].orelse:
        raise TranslatorError("fasthash64: block loop not found")
    out.append("(* hashes.py fasthash64 l.63-68: initial state from (seed, len(key)) *)")
    out.append(it.region("gen_fh_init", fh[0:4], ["seed", "len_key"], result="h"))
    out.append("(* fasthash64 l.74-76: body of the loop over the 8-byte blocks *)")
    out.append(it.region("gen_fh_block", loop[0].body, ["h", "v", "m"], result="h"))
    out.append("(* fasthash64 l.80-145: the seven-way tail switch and the final mix *)")
    out.append(it.region("gen_fh_finish", fh[5:], ["h", "key_len", "m"] + [f"tail_{i}" for i in range(7)], ret_ty="uint64"))
    f32 = _strip_doc(_find_func(h, "fasthash32"))
    if [type(x).__name__ for x in f32] != ["Assign", "Return"]:
        raise TranslatorError("fasthash32: unexpected shape")
    out.append("(* hashes.py fasthash32 l.168: folding of the 64-bit hash *)")
    out.append(it.region("gen_fh32_fin", f32[1:], ["h"], ret_ty="uint32"))
    mm = _strip_doc(_find_func(h, "murmur3"))
    shape = [type(x).__name__ for x in mm]
    if shape != ["Assign", "Assign", "Assign", "Assign", "Assign", "Assign", "Assign", "Assign", "For", "Assign", "Assign", "If",
                 "Assign", "Assign", "Return"]:
        raise TranslatorError(f"murmur3: unexpected statement shape {shape}")
    out.append("(* hashes.py murmur3 l.241-249: body of the loop over the 4-byte blocks *)")
    out.append(it.region("gen_mm_block", mm[8].body, ["h", "blocks_i", "c1", "c2", "c3"], result="h"))
    out.append("(* murmur3 l.251-278: tail switch, length xor, final mix *)")
    out.append(it.region("gen_mm_finish", mm[9:], ["h", "key_len", "c1", "c2"] + [f"tail_{i}" for i in range(3)], ret_ty="uint32"))
    return "\n".join(out) + "\n"


def _hll(src):
    out = list(HDR)
    hl = _parse(os.path.join(src, "hyperloglog.py"))
    out.append("(* hyperloglog.py _n_leading_zeros64 *)")
    out.append(IntTrans({}).function(_find_func(hl, "_n_leading_zeros64")))
    return "\n".join(out) + "\n"


REAL_SIGS = (("_func", ["max_count", "num_reserved", "uint_max"], "(base : R) (max_count num_reserved uint_max : Z)"),
             ("_funcprime", ["max_count", "num_reserved", "uint_max"], "(base : R) (max_count num_reserved uint_max : Z)"),
             ("_counter2value", ["counter", "num_reserved"], "(counter num_reserved : Z) (base : R)"))


def _countmin(src):
    out = list(HDR)
    cm = _parse(os.path.join(src, "countmin.py"))
    out.append("Open Scope R_scope.")
    for name, zs, sig in REAL_SIGS:
        fn = _find_func(cm, name)
        names = [a.arg for a in fn.args.args]
        want = [w for w in sig.replace("(", " ").replace(")", " ").replace(":", " ").split() if w not in ("R", "Z")]
        if names != want:
            raise TranslatorError(f"{name}: parameters {names} != {want}")
        rt = RealTrans(zs)
        out.append(f"(* countmin.py {name}, float64 read as real numbers *)")
        out.append(f"Definition gen_{name.lstrip('_')} {sig} : R :=\n  {rt.block(_strip_doc(fn))}.\n")
    return "\n".join(out) + "\n"


def generate_kernels(repo):
    """{file name: text}, {group: error}.  One generated module per source file; a source file whose kernels
    cannot be translated gets poisoned definitions (the module still compiles, its tie lemmas do not)."""
    src = os.path.join(repo, "sketchnu")
    texts, errors = {}, {}
    for group, fname, fn in (("hashes", "KernelsHashes.v", _hashes), ("hll", "KernelsHll.v", _hll),
                             ("countmin", "KernelsCountmin.v", _countmin)):
        try:
            texts[fname] = fn(src)
        except Exception as e:  # TranslatorError, SyntaxError of the source, ...
            errors["kernels:" + group] = f"{type(e).__name__}: {e}"
            if group == "countmin":
                body = "Open Scope R_scope.\n" + "".join(
                    f"Definition gen_{n.lstrip('_')} {sig} : R := -1.  (* translation failed *)\n" for n, _, sig in REAL_SIGS)
            else:
                body = _poison_int(POISON[group])
            texts[fname] = "\n".join(HDR) + "\n(* TRANSLATION FAILED: " + str(e).replace("*)", "* )") + " *)\n" + body
    return texts, errors


if __name__ == "__main__":
    import sys
    t, e = generate_kernels(sys.argv[1] if len(sys.argv) > 1 else "/repo")
    for k, v in t.items():
        print("=====", k)
        print(v)
    print("errors:", e)
