"""pytrans.py — translator for the loop-free leaf kernels: Python/Numba AST -> Gallina.

Regenerated on every run into coq/generated/Kernels.v.  Two modes:

* int mode (hashes.py helpers, _n_leading_zeros64): every integer local lives in a 64-bit unsigned
  register (Numba unifies the small unsigned types of these functions to uint64/int64 as soon as an
  arithmetic result is assigned), so `+ - * <<` are followed by wrap64; explicit casts uintN(e) are wrapN;
  parameters narrower than 64 bits are wrapped at entry (the cast Numba performs at the call boundary);
  the result is wrapped to the declared return type.
* real mode (_func, _funcprime, _counter2value of countmin.py): float64 expressions are read as real-number
  expressions (what the code computes up to rounding); `x ** e` with an integer-valued exponent is `powerRZ`.

The generated definitions are tied to the hand-written models by equality lemmas in theories/KernelTie.v, so an
edit of one of these functions in the source breaks a proof obligation (besides the correspondence runs).
Fail-closed: any construct outside the small subset raises TranslatorError.
"""
import ast

from translate import TranslatorError, _parse, _find_func, _strip_doc

WIDTH = {"uint8": 8, "uint16": 16, "uint32": 32, "uint64": 64}


def _sig(fn):
    """(param types, return type) from the @njit(ret(args...)) decorator"""
    for d in fn.decorator_list:
        if isinstance(d, ast.Call) and getattr(d.func, "id", None) == "njit" and d.args:
            s = d.args[0]
            if isinstance(s, ast.Call) and isinstance(s.func, ast.Name):
                ps = []
                for a in s.args:
                    if isinstance(a, ast.Name):
                        ps.append(a.id)
                    else:
                        ps.append("other")
                return ps, s.func.id
    raise TranslatorError(f"{fn.name}: no @njit(signature) decorator")


class IntTrans:
    def __init__(self, known):
        self.known = known          # name -> (param types, ret type) of already translated functions

    def wrap(self, ty, e):
        return f"(wrap{WIDTH[ty]} {e})" if ty in WIDTH else e

    def expr(self, e):
        if isinstance(e, ast.Name):
            return e.id
        if isinstance(e, ast.Constant) and isinstance(e.value, int) and not isinstance(e.value, bool):
            return str(e.value) if e.value >= 0 else f"({e.value})"
        if isinstance(e, ast.Call) and isinstance(e.func, ast.Name):
            f = e.func.id
            if f in WIDTH and len(e.args) == 1:
                return self.wrap(f, self.expr(e.args[0]))
            if f in self.known:
                ps, _ = self.known[f]
                if len(ps) != len(e.args):
                    raise TranslatorError(f"call {f}: arity")
                return "(gen_" + f.lstrip("_") + " " + " ".join(self.expr(a) for a in e.args) + ")"
            raise TranslatorError(f"unsupported call {f}")
        if isinstance(e, ast.BinOp):
            a, b = self.expr(e.left), self.expr(e.right)
            op = type(e.op)
            if op is ast.BitXor:
                return f"(Z.lxor {a} {b})"
            if op is ast.BitOr:
                return f"(Z.lor {a} {b})"
            if op is ast.BitAnd:
                return f"(Z.land {a} {b})"
            if op is ast.RShift:
                return f"(Z.shiftr {a} {b})"
            if op is ast.LShift:
                return f"(wrap64 (Z.shiftl {a} {b}))"
            if op is ast.Mult:
                return f"(wrap64 ({a} * {b}))"
            if op is ast.Add:
                return f"(wrap64 ({a} + {b}))"
            if op is ast.Sub:
                return f"(wrap64 ({a} - {b}))"
            raise TranslatorError(f"unsupported operator {op.__name__}")
        raise TranslatorError(f"unsupported expression {ast.dump(e)[:80]}")

    def cond(self, t):
        if isinstance(t, ast.Compare) and len(t.ops) == 1:
            a, b = self.expr(t.left), self.expr(t.comparators[0])
            op = type(t.ops[0])
            return {ast.NotEq: f"(negb ({a} =? {b}))", ast.Eq: f"({a} =? {b})", ast.Lt: f"({a} <? {b})",
                    ast.LtE: f"({a} <=? {b})", ast.Gt: f"({a} >? {b})", ast.GtE: f"({a} >=? {b})"}[op]
        raise TranslatorError("unsupported condition")

    @staticmethod
    def assigned(stmts):
        out = []
        for s in stmts:
            if isinstance(s, ast.Assign) and len(s.targets) == 1 and isinstance(s.targets[0], ast.Name):
                out.append(s.targets[0].id)
            elif isinstance(s, ast.AugAssign) and isinstance(s.target, ast.Name):
                out.append(s.target.id)
            elif isinstance(s, ast.If):
                out += IntTrans.assigned(s.body) + IntTrans.assigned(s.orelse)
        return list(dict.fromkeys(out))

    @staticmethod
    def has_return(stmts):
        return any(isinstance(n, ast.Return) for s in stmts for n in ast.walk(s))

    def block(self, stmts, ret_ty, tail=None):
        """Gallina term for a statement list.  tail: term to continue with when the block falls through."""
        if not stmts:
            if tail is None:
                raise TranslatorError("function may fall off its end")
            return tail
        s, rest = stmts[0], stmts[1:]
        if isinstance(s, ast.Return):
            return self.wrap(ret_ty, self.expr(s.value))
        if isinstance(s, ast.Assign) and len(s.targets) == 1 and isinstance(s.targets[0], ast.Name):
            return f"let {s.targets[0].id} := {self.expr(s.value)} in\n  {self.block(rest, ret_ty, tail)}"
        if isinstance(s, ast.AugAssign) and isinstance(s.target, ast.Name):
            e = self.expr(ast.BinOp(left=ast.Name(id=s.target.id), op=s.op, right=s.value))
            return f"let {s.target.id} := {e} in\n  {self.block(rest, ret_ty, tail)}"
        if isinstance(s, ast.If):
            c = self.cond(s.test)
            if self.has_return(s.body) or self.has_return(s.orelse):
                cont = self.block(rest, ret_ty, tail) if (rest or tail is not None) else None
                return (f"if {c} then ({self.block(s.body, ret_ty, cont)})\n  else ({self.block(s.orelse, ret_ty, cont)})")
            vs = self.assigned([s])
            tup = vs[0] if len(vs) == 1 else "(" + ", ".join(vs) + ")"
            pat = vs[0] if len(vs) == 1 else "'(" + ", ".join(vs) + ")"
            return (f"let {pat} := (if {c} then ({self.block(s.body, None, tup)}) else ({self.block(s.orelse, None, tup)})) in\n  "
                    f"{self.block(rest, ret_ty, tail)}")
        raise TranslatorError(f"unsupported statement {type(s).__name__}")

    def function(self, fn):
        ps, rt = _sig(fn)
        names = [a.arg for a in fn.args.args]
        if len(names) != len(ps):
            raise TranslatorError(f"{fn.name}: signature arity")
        body = _strip_doc(fn)
        pre = ""
        for n, t in zip(names, ps):
            if t in WIDTH and WIDTH[t] < 64:
                pre += f"let {n} := wrap{WIDTH[t]} {n} in\n  "
            elif t not in WIDTH:
                raise TranslatorError(f"{fn.name}: parameter type {t}")
        term = self.block(body, rt)
        self.known[fn.name] = (ps, rt)
        gname = "gen_" + fn.name.lstrip("_")
        return f"Definition {gname} ({' '.join(names)} : Z) : Z :=\n  {pre}{term}.\n"


class RealTrans:
    """float64 code read as real-number expressions.  Integer-typed parameters are Z, float ones R."""

    def __init__(self, ztypes):
        self.z = set(ztypes)        # names known to be integers (Z)
        self.intval = {}            # float locals that hold an integer value: name -> Z expression

    def zexpr(self, e):
        if isinstance(e, ast.Name) and e.id in self.z:
            return e.id
        if isinstance(e, ast.Constant) and isinstance(e.value, int):
            return str(e.value)
        if isinstance(e, ast.BinOp) and isinstance(e.op, (ast.Sub, ast.Add)):
            a, b = self.zexpr(e.left), self.zexpr(e.right)
            if a is not None and b is not None:
                return f"({a} {'-' if isinstance(e.op, ast.Sub) else '+'} {b})%Z"
        return None

    def expr(self, e):
        z = self.zexpr(e)
        if z is not None:
            return f"(IZR {z})"
        if isinstance(e, ast.Name):
            return e.id
        if isinstance(e, ast.Constant) and isinstance(e.value, float):
            if e.value != int(e.value):
                raise TranslatorError("non-integer float literal in real mode")
            return f"(IZR {int(e.value)})"
        if isinstance(e, ast.Call) and isinstance(e.func, ast.Name) and e.func.id == "float64" and len(e.args) == 1:
            return self.expr(e.args[0])
        if isinstance(e, ast.BinOp):
            if isinstance(e.op, ast.Pow):
                base = self.expr(e.left)
                ex = self.zexpr(e.right)
                if ex is None and isinstance(e.right, ast.Name) and e.right.id in self.intval:
                    ex = self.intval[e.right.id]
                if ex is None:
                    raise TranslatorError("exponent is not integer valued")
                return f"(powerRZ {base} {ex})"
            a, b = self.expr(e.left), self.expr(e.right)
            op = {ast.Add: "+", ast.Sub: "-", ast.Mult: "*", ast.Div: "/"}.get(type(e.op))
            if op is None:
                raise TranslatorError("unsupported real operator")
            return f"({a} {op} {b})"
        raise TranslatorError(f"unsupported real expression {ast.dump(e)[:80]}")

    def block(self, stmts):
        s, rest = stmts[0], stmts[1:]
        if isinstance(s, ast.Return):
            return self.expr(s.value)
        if isinstance(s, ast.Assign) and len(s.targets) == 1 and isinstance(s.targets[0], ast.Name):
            n = s.targets[0].id
            z = self.zexpr(s.value)
            if z is not None:
                self.z.add(n)
                return f"let {n} := {z} in\n  {self.block(rest)}"
            v = s.value
            if isinstance(v, ast.Call) and getattr(v.func, "id", None) == "float64" and self.zexpr(v.args[0]) is not None:
                self.intval[n] = self.zexpr(v.args[0])
            return f"let {n} := {self.expr(s.value)} in\n  {self.block(rest)}"
        if isinstance(s, ast.If) and isinstance(s.test, ast.Compare) and len(s.test.ops) == 1 \
                and isinstance(s.test.ops[0], ast.LtE):
            a, b = self.zexpr(s.test.left), self.zexpr(s.test.comparators[0])
            if a is None or b is None:
                raise TranslatorError("real mode: only integer comparisons")
            return f"if ({a} <=? {b})%Z then ({self.block(s.body)}) else ({self.block(s.orelse or rest)})"
        raise TranslatorError(f"real mode: unsupported statement {type(s).__name__}")


def generate_kernels(repo):
    import os
    src = os.path.join(repo, "sketchnu")
    out = ["(* GENERATED by harness/pytrans.py from /repo — do not edit.  Loop-free leaf kernels, translated from the AST. *)",
           "From Coq Require Import ZArith Bool Reals.", "From Sketchnu Require Import Machine.", "Open Scope Z_scope.", ""]
    h = _parse(os.path.join(src, "hashes.py"))
    it = IntTrans({})
    for name in ("_xor_shiftl", "_fhmix64", "_xor32", "_shift32r", "_shift32l", "_rotl32", "_fmix32"):
        out.append(f"(* hashes.py {name} *)")
        out.append(it.function(_find_func(h, name)))
    hl = _parse(os.path.join(src, "hyperloglog.py"))
    out.append("(* hyperloglog.py _n_leading_zeros64 *)")
    out.append(IntTrans({}).function(_find_func(hl, "_n_leading_zeros64")))
    cm = _parse(os.path.join(src, "countmin.py"))
    out.append("Open Scope R_scope.")
    for name, zs, sig in (("_func", ["max_count", "num_reserved", "uint_max"], "(base : R) (max_count num_reserved uint_max : Z)"),
                          ("_funcprime", ["max_count", "num_reserved", "uint_max"], "(base : R) (max_count num_reserved uint_max : Z)"),
                          ("_counter2value", ["counter", "num_reserved"], "(counter num_reserved : Z) (base : R)")):
        fn = _find_func(cm, name)
        names = [a.arg for a in fn.args.args]
        want = [w for w in sig.replace("(", " ").replace(")", " ").replace(":", " ").split() if w not in ("R", "Z")]
        if names != want:
            raise TranslatorError(f"{name}: parameters {names} != {want}")
        rt = RealTrans(zs)
        out.append(f"(* countmin.py {name}, float64 read as real numbers *)")
        out.append(f"Definition gen_{name.lstrip('_')} {sig} : R :=\n  {rt.block(_strip_doc(fn))}.\n")
    return "\n".join(out) + "\n"


if __name__ == "__main__":
    import sys
    print(generate_kernels(sys.argv[1] if len(sys.argv) > 1 else "/repo"))
