"""Regenerates MANIFEST.json from the table below (kept in one place so it stays valid)."""
import json, os
HERE = os.path.dirname(os.path.dirname(os.path.abspath(__file__)))
props = [json.loads(l) for l in open(os.path.join(HERE, "properties.jsonl"))]
ids = [p["id"] for p in props]

import importlib, sys
sys.path.insert(0, os.path.join(HERE, "harness"))
CLAIMED = {}
NOT_CLAIMED_REASON = {}
READY = set(open(os.path.join(HERE, "harness", "claimed.txt")).read().split())  # maintained by hand: checks validated on the unchanged tree
for i in ids:
    if i in READY and os.path.exists(os.path.join(HERE, "harness", "checks", i + ".py")):
        mod = importlib.import_module("checks." + i)
        if getattr(mod, "MANIFEST", None):
            CLAIMED[i] = mod.MANIFEST
        elif getattr(mod, "NOT_CLAIMED", None):
            NOT_CLAIMED_REASON[i] = mod.NOT_CLAIMED

# the source ties added after the check modules were written (DESIGN.md 2.2): appended to the claimed text
TIE = {
 "C01": "_query_linear (initial minimum, row-loop body)",
 "C02": "hyperloglog _add (index, rank, register update), _merge loop body, _n_leading_zeros64, the HyperLogLog.add wrapper",
 "C03": "heavy-hitter _add/_merge cell updates, the _max_count row body, the HeavyHitters.add wrapper (clamp)",
 "C04": "heavy-hitter _add/_merge cell updates",
 "C05": "_add_linear (straight-line part and update-loop body), _query_log*/_add_log* regions, the class-level add wrappers of the three count-min classes",
 "C06": "_rand pointer logic and the body of _log_counter's loop",
 "C07": "the HyperLogLog estimator composed from regenerated pieces on the empty sketch",
 "C08": "the index arithmetic of parallel_merging (loop test, merger count, block indices, survivor range), _merge_worker's receiver and _fill_queue's pill count",
 "C12": "the five n-gram drivers (whole-key test, loop bound, slice bounds, multiplicity, callee, rand_ptr threading; ngram = 0 included)",
 "C19": "_fill_queue's pill count (one per worker)",
 "C09": "_merge_linear and _merge_log16/_merge_log8 cell bodies and counter updates (log: under the stated hypothesis on the np.log quotient)",
 "C17": "_query's decision structure, _linear_counting, _estimation_function, the alpha expression",
 "C18": "_func/_funcprime/_counter2value (real mode), the saturation branches of _log_counter and _merge_log*",
}
checks = []
for i in ids:
    if i in CLAIMED:
        c = dict(CLAIMED[i])
        if i in TIE:
            c["text"] = c["text"] + "  Source tie: " + TIE[i] + " are regenerated from /repo's AST on every run and proved equal to the corresponding pieces of the model (…_source_tie theorems), so an edit of those regions breaks a proof obligation."
        checks.append({
            "property_id": i,
            "quick_cmd": f"./check {i} --tier quick",
            "thorough_cmd": f"./check {i} --tier thorough",
            "evidence_file": f"/verif/evidence/{i}.json",
            "replay_cmd_template": f"./check {i} --replay {{path}}",
            "engine": "coq-model+correspondence",
            "level_claimed": {"category": c["category"], "text": c["text"], "design_ref": c["design_ref"]},
            "level_note": c["note"],
            "technique": c["technique"],
        })
na = [{"property_id": i, "reason": NOT_CLAIMED_REASON.get(i, "check not built yet in this round (planned: Coq model + theorems, DESIGN.md section 6); not claimed until its check passes on the unchanged tree")}
      for i in ids if i not in CLAIMED]
m = {
 "version": 1,
 "setup_cmd": "./check --setup",
 "hooks": {"guard": "SKETCHNU_VERIF", "enable": "none needed: no instrumentation was added to /repo (public attributes and test-side monkeypatching only)",
           "baseline_off_cmd": "cd /repo && /venv/bin/python -m pytest -q -p no:cacheprovider --timeout=900",
           "source_commits": [], "add_only": True},
 "engines": [{"name": "coq-model+correspondence", "path": "/verif/coq + /verif/harness",
              "serves_properties": sorted(CLAIMED),
              "kind_free_text": "Coq 8.16 theorems over a hand-written Gallina model of the kernels (constants, tables, the hash functions and the bodies of the count-min / heavy-hitter / HyperLogLog kernels regenerated from /repo's AST each run and tied to the model by proof) + differential correspondence check (model evaluated by vm_compute vs the Numba implementation)"}],
 "checks": checks,
 "notes": "Four genuine defects were repaired in /repo by separate fix: commits (see known_findings.json and DESIGN.md section 5).",
 "not_applicable": na,
}
json.dump(m, open(os.path.join(HERE, "MANIFEST.json"), "w"), indent=1)
print("claimed:", sorted(CLAIMED), "not claimed:", len(na))
