"""Regenerates MANIFEST.json from the table below (kept in one place so it stays valid)."""
import json, os
HERE = os.path.dirname(os.path.dirname(os.path.abspath(__file__)))
props = [json.loads(l) for l in open(os.path.join(HERE, "properties.jsonl"))]
ids = [p["id"] for p in props]

import importlib, sys
sys.path.insert(0, os.path.join(HERE, "harness"))
CLAIMED = {}
NOT_CLAIMED_REASON = {}
READY = set(open(os.path.join(HERE, "harness", "claimed.txt")).read().split())  # maintained by hand: checks validated on the unchanged tree
for i in ids:
    if i in READY and os.path.exists(os.path.join(HERE, "harness", "checks", i + ".py")):
        mod = importlib.import_module("checks." + i)
        if getattr(mod, "MANIFEST", None):
            CLAIMED[i] = mod.MANIFEST
        elif getattr(mod, "NOT_CLAIMED", None):
            NOT_CLAIMED_REASON[i] = mod.NOT_CLAIMED

checks = []
for i in ids:
    if i in CLAIMED:
        c = CLAIMED[i]
        checks.append({
            "property_id": i,
            "quick_cmd": f"./check {i} --tier quick",
            "thorough_cmd": f"./check {i} --tier thorough",
            "evidence_file": f"/verif/evidence/{i}.json",
            "replay_cmd_template": f"./check {i} --replay {{path}}",
            "engine": "coq-model+correspondence",
            "level_claimed": {"category": c["category"], "text": c["text"], "design_ref": c["design_ref"]},
            "level_note": c["note"],
            "technique": c["technique"],
        })
na = [{"property_id": i, "reason": NOT_CLAIMED_REASON.get(i, "check not built yet in this round (planned: Coq model + theorems, DESIGN.md section 6); not claimed until its check passes on the unchanged tree")}
      for i in ids if i not in CLAIMED]
m = {
 "version": 1,
 "setup_cmd": "./check --setup",
 "hooks": {"guard": "SKETCHNU_VERIF", "enable": "none needed: no instrumentation was added to /repo (public attributes and test-side monkeypatching only)",
           "baseline_off_cmd": "cd /repo && /venv/bin/python -m pytest -q -p no:cacheprovider --timeout=900",
           "source_commits": [], "add_only": True},
 "engines": [{"name": "coq-model+correspondence", "path": "/verif/coq + /verif/harness",
              "serves_properties": sorted(CLAIMED),
              "kind_free_text": "Coq 8.16 theorems over a hand-written Gallina model of the kernels (constants/tables regenerated from /repo each run) + differential correspondence check (model evaluated by vm_compute vs the Numba implementation)"}],
 "checks": checks,
 "notes": "Four genuine defects were repaired in /repo by separate fix: commits (see known_findings.json and DESIGN.md section 5).",
 "not_applicable": na,
}
json.dump(m, open(os.path.join(HERE, "MANIFEST.json"), "w"), indent=1)
print("claimed:", sorted(CLAIMED), "not claimed:", len(na))
