"""hllq_common.py — shared by checks C17 and C07 (HyperLogLog.query()).

* `Tables`: the shipped tables loaded by file path (data, not code) for the independent oracle.
* `oracle(p, regs)`: the documented HyperLogLog++ estimator written from the property text
  (not from hyperloglog.py): linear counting m*ln(m/V) while V > 0 and the value does not exceed
  threshold[p]; otherwise alpha*m^2/sum(2^-r) minus the bias interpolated (textbook two-point
  interpolation, bisect) from the row of this precision, the correction applied up to 5m when
  V = 0 and the raw estimate used above that.
* run-length helpers for the Coq case files.
"""
import bisect
import importlib.util
import math
import os

REGIME_CODE = {"LC": 0, "Corrected": 1, "Raw": 2}
POW2NEG = [math.ldexp(1.0, -r) for r in range(256)]

# every kernel primitive Print Assumptions lists for a theorem that *computes* with PrimFloat /
# Uint63 (they are primitives of the Coq kernel, part of the trusted base, not logical axioms)
PRIMITIVES = frozenset(
    ["float", "add", "sub", "mul", "div", "opp", "abs", "eqb", "ltb", "leb", "of_uint63", "ldshiftexp",
     "frshiftexp", "normfr_mantissa", "PrimFloat.leb", "PrimFloat.ltb", "PrimFloat.eqb", "PrimFloat.add",
     "PrimFloat.sub", "PrimFloat.mul", "PrimFloat.div", "PrimFloat.opp", "PrimFloat.abs",
     "PrimInt63.int", "PrimInt63.sub", "PrimInt63.add", "PrimInt63.lsl", "PrimInt63.lsr", "PrimInt63.lor",
     "PrimInt63.land", "PrimInt63.eqb", "PrimInt63.ltb", "PrimInt63.leb"])


class Tables:
    def __init__(self, repo):
        path = os.path.join(repo, "sketchnu", "hll_constants.py")
        spec = importlib.util.spec_from_file_location("_verif_hllq_constants", path)
        mod = importlib.util.module_from_spec(spec)
        spec.loader.exec_module(mod)
        self.threshold = [int(x) for x in mod.sub_algorithm_threshold]
        self.raw = [[float(x) for x in row] for row in mod.raw_estimate]
        self.bias = [[float(x) for x in row] for row in mod.bias_data]


def textbook_interp(x, xp, fp):
    if x <= xp[0]:
        return fp[0]
    if x >= xp[-1]:
        return fp[-1]
    j = bisect.bisect_right(xp, x) - 1
    t = (x - xp[j]) / (xp[j + 1] - xp[j])
    return fp[j] + t * (fp[j + 1] - fp[j])


def oracle(T, p, regs):
    """regs: sequence of ints (register order).  Returns (regime name, estimate, detail dict)."""
    m = 1 << p
    assert len(regs) == m
    V = 0
    total = 0.0
    for r in regs:                 # plain left-to-right float additions (sum() would compensate)
        if r == 0:
            V += 1
        total += POW2NEG[r]
    alpha = 0.7213 / (1.0 + 1.079 / m)
    thr = T.threshold[p - 7]
    raw = alpha * float(m * m) / total
    det = {"V": V, "raw": raw, "total": total}
    if V > 0:
        lc = m * math.log(m / V)
        det["lc"] = lc
        if lc <= thr:
            return "LC", lc, det
        return "Corrected", raw - textbook_interp(raw, T.raw[p - 7], T.bias[p - 7]), det
    if raw <= 5 * m:
        return "Corrected", raw - textbook_interp(raw, T.raw[p - 7], T.bias[p - 7]), det
    return "Raw", raw, det


def rle(arr):
    """list of ints -> [(value, count), ...] in order"""
    out = []
    prev = None
    cnt = 0
    for v in arr:
        v = int(v)
        if v == prev:
            cnt += 1
        else:
            if prev is not None:
                out.append((prev, cnt))
            prev, cnt = v, 1
    if prev is not None:
        out.append((prev, cnt))
    return out


def rle_np(a):
    """same for a numpy uint8 array (fast)"""
    import numpy as np
    a = np.asarray(a)
    if a.size == 0:
        return []
    cut = np.flatnonzero(a[1:] != a[:-1]) + 1
    starts = np.concatenate(([0], cut))
    ends = np.concatenate((cut, [a.size]))
    return [(int(a[s]), int(e - s)) for s, e in zip(starts, ends)]


def unrle(pairs):
    out = []
    for v, c in pairs:
        out.extend([v] * c)
    return out


def coq_rle(pairs):
    return "[" + "; ".join(f"({v},{c})" for v, c in pairs) + "]"


def coq_float(x):
    """exact binary64 literal"""
    x = float(x)
    if x != x or x in (float("inf"), float("-inf")):
        raise ValueError("non-finite float in a case: %r" % x)
    h = x.hex()
    return f"({h})%float"


def relerr(a, b):
    if a == b:
        return 0.0
    return abs(a - b) / max(abs(b), 1e-300)
