"""log_checks.py — log8/log16 parts of C05, C09 and C18, built on log_common (the C06 machinery).
Model side: CmsLog.hist_case_ok (whole-state correspondence after every op) and the reflected grid
checks merge_grid_b / merge_nearest_grid_b evaluated on the tables read from the implementation."""
from fractions import Fraction

import lib
import log_common as L

IMPORTS = "Machine Consts Harness Ngram CmsLog"
P61 = 2305843009213693951


def _pick_cfgs(ctx, n8, n16):
    ok8, _ = L.configs("log8", ctx.tier)
    ok16, _ = L.configs("log16", ctx.tier)
    return ok8[:n8], ok16[:n16]


def _case_fn(cfg):
    w = L.KINDS[cfg.kind]["wrap"]
    return ("fun c : (Z * Z * list (key * list Z) * list lop * list (list (list Z) * Z * Z * Z)) => "
            f"hist_case_ok {cfg.nr} {cfg.umax} {cfg.max_count} pn dc {w} c")


# ------------------------------------------------------------------------------------------ C05
def c05(ctx):
    rng = ctx.rng
    quick = ctx.tier == "quick"
    cfgs8, cfgs16 = _pick_cfgs(ctx, 3 if quick else 8, 1 if quick else 3)
    tabmods = L.compile_tables(ctx, cfgs16)
    jobs = []
    nviol = 0
    nadds = 0
    for ci, cfg in enumerate(cfgs8 + cfgs16):
        nr, umax = cfg.nr, cfg.umax
        cases = []
        for i in range((40 if quick else 300) if cfg.kind == "log8" else (12 if quick else 60)):
            width = rng.choice([1, 2, 2, 3, 4, 8])
            depth = rng.choice([1, 2, 3])
            keys = L.gen_keys(rng, rng.randrange(3, 7))
            # other sketches to merge in, so that the add happens on states produced by merges
            others = []
            for _ in range(rng.choice([0, 1, 2])):
                o = cfg.new(width, depth)
                L.run_ops(o, L.gen_history(rng, cfg, keys, width, depth, rng.randrange(2, 6), big=False))
                others.append(o)
            ops = L.gen_history(rng, cfg, keys, width, depth, rng.randrange(5, 18), others=others)
            allkeys = list(dict.fromkeys(list(keys) + [k for o in ops for k in _op_keys(o)]))
            bmap = L.probe_buckets(cfg, width, depth, allkeys)
            sk = cfg.new(width, depth)
            runner = L.Runner(sk)
            prev = L.snapshot(sk)
            for idx, op in enumerate(ops):
                snap = runner.step(op)
                if op.kind in ("add", "add1"):
                    nadds += 1
                    v = op.v if op.kind == "add" else 1
                    bad = _c05_clauses(cfg, depth, bmap, allkeys, op.key, v, prev, snap, sk)
                    if bad and nviol < 3:
                        bad.update({"config": cfg.key(), "width": width, "depth": depth,
                                    "ops": [o.json() for o in ops[:idx + 1]]})
                        ctx.violation(bad, "an add on a log sketch broke a clause of C05")
                        nviol += 1
                prev = snap
            ctx.case_seen(("c05log", cfg.key(), width, depth, repr([o.json() for o in ops])), True)
            ctx.count("log-history:" + cfg.kind)
            cases.append(L.hist_case(width, depth, bmap, ops, runner.snaps))
        jobs.append((f"c05_{cfg.kind}_{ci}", _case_fn(cfg), cases, 40, L.coq_table_prelude(cfg, tabmods.get(cfg.key()))))
    ctx.cov["log_adds_checked"] = nadds
    ctx.tick("log: implementation + predicate")
    _run_jobs(ctx, jobs, "cms-log (C05)")
    ctx.tick("log: model evaluated in Coq")
    ctx.cov["rule"] += ("; log8/log16: histories from log_common.gen_history (draws placed on the decision boundaries, "
                        "merges with other sketches, ngram/update entry points) on a few configurations; the C05 clauses are "
                        "evaluated at counter level on before/after snapshots of every single add (advance 0..v, exactly v while "
                        "<= num_reserved+1 with the estimate equal to the count, no other minimum counter falls or ends above "
                        "max(old, key's new), one counter per row, n_added += v) and every state is compared with CmsLog in Coq")


def _op_keys(op):
    if op.kind in ("add", "add1"):
        return [op.key]
    if op.kind == "ngram":
        k, n = op.key, op.n
        return [k] if len(k) <= n else [k[i:i + n] for i in range(len(k) - n + 1)]
    if op.kind == "upd_list":
        return list(op.keys)
    if op.kind == "upd_dict":
        return [k for k, _ in op.items]
    if op.kind == "upd_ngram":
        out = []
        for k in op.keys:
            out += [k] if len(k) <= op.n else [k[i:i + op.n] for i in range(len(k) - op.n + 1)]
        return out
    return []


def _c05_clauses(cfg, depth, bmap, allkeys, key, v, before, after, sk):
    rb, nab = before[0], before[1]
    ra, naa = after[0], after[1]
    nr, umax = cfg.nr, cfg.umax

    def mc(rows, k):
        return min(rows[r][bmap[k][r]] for r in range(depth))
    cb, ca = mc(rb, key), mc(ra, key)
    if not (cb <= ca <= min(cb + v, umax)):
        return {"clause": "smallest counter advances by between 0 and v steps", "key": list(key), "v": v, "before": cb, "after": ca}
    if cb + v <= nr + 1:
        if ca != cb + v:
            return {"clause": "exactly v steps while the result is <= num_reserved+1", "key": list(key), "v": v, "before": cb, "after": ca}
        est = float(sk.query(key))
        if est != float(cb + v):
            return {"clause": "estimate exactly old + v in the reserved range", "key": list(key), "v": v, "before": cb, "estimate": est}
    for j in allkeys:
        jb, ja = mc(rb, j), mc(ra, j)
        if ja < jb:
            return {"clause": "no other key's estimate decreases", "other": list(j), "before": jb, "after": ja}
        if ja > max(jb, ca):
            return {"clause": "no other key ends above max(old, key's new)", "other": list(j), "before": jb, "after": ja, "key_new": ca}
    for r in range(depth):
        ch = [c for c in range(len(rb[r])) if rb[r][c] != ra[r][c]]
        if len(ch) > 1 or (ch and ch[0] != bmap[key][r]):
            return {"clause": "at most one counter per row changes", "row": r, "changed": ch, "key_column": bmap[key][r]}
    if naa - nab != v:
        return {"clause": "n_added grows by exactly v", "v": v, "before": nab, "after": naa}
    return None


def _run_jobs(ctx, jobs, what):
    res = L.coq_jobs(ctx, IMPORTS, jobs)
    n = 0
    for tag, fn, cases, shard, prelude in jobs:
        bad, err = res[tag]
        n += len(cases)
        if err:
            ctx.broken.append(f"correspondence {what} [{tag}] could not be evaluated: {err[:400]}")
        if bad:
            ctx.broken.append(f"correspondence {what} [{tag}]: model and implementation differ on {len(bad)} cases; first: "
                              f"{cases[sorted(bad)[0]][:700]}")
    ctx.cov["traces_validated_against_impl"] = ctx.cov.get("traces_validated_against_impl", 0) + n
    return res


# ------------------------------------------------------------------------------------------ C09
def _nearest_ok(cfg, a, b, m):
    """documented rule with exact rationals on the decode table: m must be a counter whose decoded value is
    nearest to decode(a)+decode(b) (either neighbour on an exact tie)"""
    nr, umax, mcnt = cfg.nr, cfg.umax, cfg.max_count
    dec = cfg.decode
    vf = dec[a] + dec[b]                       # the binary64 sum the code forms
    if vf <= nr:
        return m == int(vf)
    if vf >= mcnt:
        return m == umax
    v = Fraction(vf)
    d = abs(Fraction(dec[m]) - v)
    for c in (m - 1, m + 1):
        if 0 <= c <= umax and abs(Fraction(dec[c]) - v) < d:
            return False
    return nr < m <= umax or m == int(vf)


def grid_hash(rows):
    h = 0
    for row in rows:
        for x in row:
            h = (h * 65537 + int(x)) % P61
    return h


def c09(ctx):
    np = L.kernels().np
    rng = ctx.rng
    quick = ctx.tier == "quick"
    cfgs8, cfgs16 = _pick_cfgs(ctx, 4 if quick else 12, 1 if quick else 3)
    nviol = 0
    jobs = []
    # ---- log8: all 256 x 256 counter pairs in ONE merge call per configuration
    for ci, cfg in enumerate(cfgs8):
        n = cfg.umax + 1
        a, b = cfg.new(n, n), cfg.new(n, n)
        a.cms[:, :] = np.arange(n, dtype=a.cms.dtype)[:, None]
        b.cms[:, :] = np.arange(n, dtype=b.cms.dtype)[None, :]
        a.n_added_records[:] = [11, 3]
        b.n_added_records[:] = [5, 2]
        bb = b.cms.copy()
        a.merge(b)
        M = a.cms.astype(np.int64)
        bad = None
        if not np.array_equal(bb, b.cms) or list(map(int, b.n_added_records)) != [5, 2]:
            bad = {"clause": "b unchanged"}
        elif list(map(int, a.n_added_records)) != [16, 5]:
            bad = {"clause": "n_added/n_records are the sums", "got": list(map(int, a.n_added_records))}
        elif not np.array_equal(M, M.T):
            i, j = map(int, np.argwhere(M != M.T)[0])
            bad = {"clause": "commutative", "a": i, "b": j, "merge(a,b)": int(M[i, j]), "merge(b,a)": int(M[j, i])}
        elif not np.array_equal(M[:, 0], np.arange(n)):
            i = int(np.argwhere(M[:, 0] != np.arange(n))[0][0])
            bad = {"clause": "merging an empty counter changes nothing", "a": i, "merged": int(M[i, 0])}
        else:
            lo = np.maximum(np.arange(n)[:, None], np.arange(n)[None, :])
            if (M < lo).any():
                i, j = map(int, np.argwhere(M < lo)[0])
                bad = {"clause": "a merged counter is never below either input", "a": i, "b": j, "merged": int(M[i, j])}
            else:
                pairs = [(i, j) for i in range(n) for j in range(i, n)] if not quick else \
                        [(i, j) for i in range(n) for j in range(i, n) if (i + j) % 3 == 0 or i < 40 or j > n - 20]
                for (i, j) in pairs:
                    if not _nearest_ok(cfg, i, j, int(M[i, j])):
                        bad = {"clause": "nearest counter to decoded(a)+decoded(b) (exact in the reserved range, maximum at max_count)",
                               "a": i, "b": j, "merged": int(M[i, j]), "decoded_sum": cfg.decode[i] + cfg.decode[j]}
                        break
        if bad and nviol < 3:
            bad.update({"config": cfg.key()})
            ctx.violation(bad, "log8 merge broke a clause of C09")
            nviol += 1
        ctx.case_seen(("c09log8", cfg.key()), True)
        ctx.count("log8-all-pairs-config")
        w = L.KINDS[cfg.kind]["wrap"]
        h = grid_hash(M.tolist())
        fn = (f"fun x : Z => let g := fold_left (fun h a => fold_left (fun h b => (h * 65537 + merge_cell {cfg.nr} {cfg.umax} "
              f"{cfg.max_count} dc {w} a b) mod {P61}) (zrange 0 {n}) h) (zrange 0 {n}) 0 in "
              f"match x with 0 => g =? {h} | 1 => merge_grid_b {cfg.nr} {cfg.umax} {cfg.max_count} dc {w} "
              f"| 2 => merge_nearest_grid_b {cfg.nr} {cfg.umax} {cfg.max_count} dc {w} "
              f"| _ => float_tables_ok_b {cfg.nr} {cfg.umax} {cfg.max_count} dc end")
        jobs.append((f"c09_grid_{ci}", fn, ["0", "1", "3"] + (["2"] if (ci < 1 or not quick) else []), 1, L.coq_table_prelude(cfg, None)))
        del a, b
    ctx.cov["log8_pairs_enumerated"] = len(cfgs8) * 65536
    # ---- log16: all 65536 counters against the empty sketch, and sampled pairs
    tabmods = L.compile_tables(ctx, cfgs16)
    for ci, cfg in enumerate(cfgs16):
        n = cfg.umax + 1
        a, b = cfg.new(n, 1), cfg.new(n, 1)
        a.cms[0, :] = np.arange(n, dtype=a.cms.dtype)
        a.merge(b)
        if not np.array_equal(a.cms[0].astype(np.int64), np.arange(n)) and nviol < 3:
            i = int(np.argwhere(a.cms[0].astype(np.int64) != np.arange(n))[0][0])
            ctx.violation({"config": cfg.key(), "counter": i, "merged_with_empty": int(a.cms[0, i])},
                          "log16: merging an empty sketch changed a counter")
            nviol += 1
        npairs = 100000 if quick else 1000000
        A = np.array([rng.randrange(n) for _ in range(npairs)], dtype=a.cms.dtype)
        B = np.array([rng.randrange(n) for _ in range(npairs)], dtype=a.cms.dtype)
        # bias towards the reserved range and the ceiling
        A[: npairs // 4] = A[: npairs // 4] % (cfg.nr + 3)
        B[npairs // 8: npairs // 4] = B[npairs // 8: npairs // 4] % (cfg.nr + 3)
        A[-npairs // 8:] = n - 1 - (A[-npairs // 8:] % 50)
        x, y, z = cfg.new(npairs, 1), cfg.new(npairs, 1), cfg.new(npairs, 1)
        x.cms[0, :] = A
        y.cms[0, :] = B
        z.cms[0, :] = B
        x.merge(y)
        z2 = cfg.new(npairs, 1)
        z2.cms[0, :] = A
        z.merge(z2)
        M = x.cms[0].astype(np.int64)
        bad = None
        if not np.array_equal(y.cms[0], B):
            bad = {"clause": "b unchanged"}
        elif not np.array_equal(M, z.cms[0].astype(np.int64)):
            i = int(np.argwhere(M != z.cms[0])[0][0])
            bad = {"clause": "commutative", "a": int(A[i]), "b": int(B[i]), "ab": int(M[i]), "ba": int(z.cms[0, i])}
        elif (M < np.maximum(A, B)).any():
            i = int(np.argwhere(M < np.maximum(A, B))[0][0])
            bad = {"clause": "never below either input", "a": int(A[i]), "b": int(B[i]), "merged": int(M[i])}
        else:
            for i in range(0, npairs, 7 if quick else 3):
                if not _nearest_ok(cfg, int(A[i]), int(B[i]), int(M[i])):
                    bad = {"clause": "nearest counter rule", "a": int(A[i]), "b": int(B[i]), "merged": int(M[i])}
                    break
        if bad and nviol < 3:
            bad.update({"config": cfg.key()})
            ctx.violation(bad, "log16 merge broke a clause of C09")
            nviol += 1
        ctx.case_seen(("c09log16", cfg.key()), True)
        ctx.count("log16-sampled-pairs", npairs)
        w = L.KINDS[cfg.kind]["wrap"]
        sel = list(range(0, npairs, npairs // (1500 if quick else 20000)))
        cases = [f"({int(A[i])}, {int(B[i])}, {int(M[i])})" for i in sel]
        fn = (f"fun t : Z * Z * Z => let '(a, b, m) := t in merge_cell {cfg.nr} {cfg.umax} {cfg.max_count} dc {w} a b =? m")
        jobs.append((f"c09_log16_{ci}", fn, cases, 800, L.coq_table_prelude(cfg, tabmods.get(cfg.key()))))
        # premise of C09_log_tables_sound (linear-size check) on the real log16 tables
        jobs.append((f"c09_log16_tables_{ci}", f"fun x : Z => float_tables_ok_b {cfg.nr} {cfg.umax} {cfg.max_count} dc", ["0"], 1,
                     L.coq_table_prelude(cfg, tabmods.get(cfg.key()))))
        del a, b, x, y, z, z2
    ctx.tick("log merges on the implementation")
    _run_jobs(ctx, jobs, "cms-log merge (C09)")
    ctx.tick("log merges in Coq (grid hash, reflected grid checks, sampled log16 pairs)")
    ctx.cov["rule"] += ("; log8: ALL 256x256 counter pairs of each configuration in one merge of two 256x256 sketches (exhaustive for "
                        "those configurations): b unchanged, counters summed, symmetric, empty operand neutral, never below either "
                        "input, and the documented nearest rule checked with exact rationals on the decode table; the model's "
                        "merge_cell grid is compared through a 61-bit polynomial hash and the reflected grid checks "
                        "(merge_grid_b, merge_nearest_grid_b) are evaluated in Coq on the real tables; log16: all 65536 counters against "
                        "the empty sketch and 10^5 (quick) / 10^6 sampled pairs, a subset re-evaluated by the model")


# ------------------------------------------------------------------------------------------ C18
def c18(ctx):
    """model side of the log-counter part of C18: histories driven to the ceiling + the reflected grid
    premise (merge_ge_ok) of C18_log_mono_merge / C18_log_sticky_merge for the configurations used"""
    rng = ctx.rng
    quick = ctx.tier == "quick"
    cfgs8, _ = _pick_cfgs(ctx, 3 if quick else 8, 0)
    jobs = []
    for ci, cfg in enumerate(cfgs8):
        cases = []
        for i in range(25 if quick else 200):
            width, depth = rng.choice([1, 2, 3]), rng.choice([1, 2])
            keys = L.gen_keys(rng, 3)
            others = []
            for _ in range(rng.choice([0, 1])):
                o = cfg.new(width, depth)
                o.cms[:, :] = rng.choice([cfg.umax, cfg.umax - 1, cfg.nr + 1])
                others.append(o)
            ops = [L.Op("set_rand", vals=[], pre=0, ptr=0),
                   L.Op("set_table", rows=[[rng.choice([cfg.umax - 2, cfg.umax - 1, cfg.umax, cfg.nr]) for _ in range(width)]
                                           for _ in range(depth)])]
            ops += L.gen_history(rng, cfg, keys, width, depth, rng.randrange(3, 10), others=others)[1:]
            allkeys = list(dict.fromkeys(list(keys) + [k for o in ops for k in _op_keys(o)]))
            bmap = L.probe_buckets(cfg, width, depth, allkeys)
            sk = cfg.new(width, depth)
            snaps = L.run_ops(sk, ops)
            cases.append(L.hist_case(width, depth, bmap, ops, snaps))
            ctx.case_seen(("c18log", cfg.key(), repr([o.json() for o in ops])), True)
            ctx.count("log-ceiling-history")
        jobs.append((f"c18_{ci}", _case_fn(cfg), cases, 40, L.coq_table_prelude(cfg, None)))
        w = L.KINDS[cfg.kind]["wrap"]
        jobs.append((f"c18_grid_{ci}", f"fun x : Z => merge_grid_b {cfg.nr} {cfg.umax} {cfg.max_count} dc {w}", ["0"], 1,
                     L.coq_table_prelude(cfg, None)))
    _run_jobs(ctx, jobs, "cms-log ceiling (C18)")
    ctx.tick("log ceiling histories + merge_ge_ok premise in Coq")
