"""pytrans_api.py — translator plug-in (see translate.generate): the class-level `add` wrappers.

Regenerated on every run into generated/KernelsApi.v and tied by proof (theories/KernelTieApi.v) to the class glue of
the models (CmsLinear.cls_add, CmsLog.lcls_add, HH.hh_add, Hll.cls_add):

  CountMinLinear.add, HeavyHitters.add   what happens to `value` before the kernel is called (the clamp at uint_maxval)
  CountMinLog16.add, CountMinLog8.add    that `value` is handed over unchanged and the kernel's result is written back to
                                         self.rand_ptr
  HyperLogLog.add                        that the multiplicity is not passed to the kernel

and, for each of them, fail-closed in the translator: after the (optional) statements that only rewrite `value` the
method consists of exactly one call of the expected kernel; every positional argument is `self.<name of the kernel's
parameter at that position>`, except the kernel's `key` / `value` parameters, which get the method's own `key` / `value`.

`value` is a Python int here (unbounded): `min(a, b)` is Z.min, `if value > self.x: value = self.x` is the same clamp
written out.  Only these two statement forms are accepted before the call.
Fail-soft per method: on failure POISONED definitions of the right type are emitted and only the tie fails.
"""
import ast
import os

from translate import TranslatorError, _parse, _find_func, _strip_doc


def vexpr(e, env):
    """Python int expression over `value` and self.<attr> -> Gallina Z; env maps names / attributes to Coq variables"""
    if isinstance(e, ast.Name) and e.id in env:
        return env[e.id]
    if isinstance(e, ast.Attribute) and isinstance(e.value, ast.Name) and e.value.id == "self" and ("self." + e.attr) in env:
        return env["self." + e.attr]
    if isinstance(e, ast.Call) and getattr(e.func, "id", None) in ("min", "max") and len(e.args) == 2 and not e.keywords:
        return f"(Z.{e.func.id} {vexpr(e.args[0], env)} {vexpr(e.args[1], env)})"
    raise TranslatorError(f"l.{getattr(e, 'lineno', '?')}: unsupported expression {ast.unparse(e)}")


def vcond(e, env):
    if isinstance(e, ast.Compare) and len(e.ops) == 1:
        a, b = vexpr(e.left, env), vexpr(e.comparators[0], env)
        op = e.ops[0]
        if isinstance(op, ast.Gt):
            return f"({b} <? {a})"
        if isinstance(op, ast.GtE):
            return f"({b} <=? {a})"
        if isinstance(op, ast.Lt):
            return f"({a} <? {b})"
        if isinstance(op, ast.LtE):
            return f"({a} <=? {b})"
    raise TranslatorError(f"l.{getattr(e, 'lineno', '?')}: unsupported test {ast.unparse(e)}")


def _wrapper(tree, cls, kernel, kernel_tree, attr, writes_back):
    """returns (Gallina term for the value handed to the kernel, or None if the kernel has no value parameter;
    line numbers)"""
    fn = _find_func(tree, "add", cls)
    params = [a.arg for a in fn.args.args]
    if params[:2] != ["self", "key"] or len(params) < 3:
        raise TranslatorError(f"{cls}.add: parameters {params}")
    vname = params[2]
    body = _strip_doc(fn)
    if not body:
        raise TranslatorError(f"{cls}.add: empty body")
    env = {vname: "value"}
    if attr:
        env["self." + attr] = attr
    term = "value"
    for st in body[:-1]:
        # value = <expr>   |   if <test>: value = <expr>
        if isinstance(st, ast.Assign) and len(st.targets) == 1 and isinstance(st.targets[0], ast.Name) and st.targets[0].id == vname:
            term = f"(let value := {term} in {vexpr(st.value, env)})"
        elif isinstance(st, ast.If) and not st.orelse and len(st.body) == 1 and isinstance(st.body[0], ast.Assign) \
                and len(st.body[0].targets) == 1 and isinstance(st.body[0].targets[0], ast.Name) and st.body[0].targets[0].id == vname:
            term = f"(let value := {term} in if {vcond(st.test, env)} then {vexpr(st.body[0].value, env)} else value)"
        else:
            raise TranslatorError(f"{cls}.add: l.{st.lineno}: a statement before the kernel call that is not a rewrite of `{vname}`")
    last = body[-1]
    if writes_back:
        ok = (isinstance(last, ast.Assign) and len(last.targets) == 1 and ast.unparse(last.targets[0]) == "self." + writes_back
              and isinstance(last.value, ast.Call))
        if not ok:
            raise TranslatorError(f"{cls}.add: the last statement is not `self.{writes_back} = {kernel}(...)`")
        call = last.value
    else:
        if not (isinstance(last, ast.Expr) and isinstance(last.value, ast.Call)):
            raise TranslatorError(f"{cls}.add: the last statement is not a call of {kernel}")
        call = last.value
    if getattr(call.func, "id", None) != kernel or call.keywords:
        raise TranslatorError(f"{cls}.add: calls {ast.unparse(call.func)}, expected {kernel}")
    kfn = _find_func(kernel_tree, kernel)
    kparams = [a.arg for a in kfn.args.args]
    if len(kparams) != len(call.args):
        raise TranslatorError(f"{cls}.add: {len(call.args)} arguments for the {len(kparams)} parameters of {kernel}")
    has_value = False
    for kp, a in zip(kparams, call.args):
        got = ast.unparse(a)
        if kp == "key":
            want = "key"
        elif kp == "value":
            want, has_value = vname, True
        else:
            want = "self." + kp
        if got != want:
            raise TranslatorError(f"{cls}.add: argument for {kernel}'s parameter `{kp}` is `{got}`, expected `{want}`")
    if writes_back and writes_back not in kparams:
        raise TranslatorError(f"{cls}.add: {kernel} has no parameter {writes_back}")
    return (term if has_value else None), fn.lineno, last.lineno


# (tag, source file, class, kernel, attribute the clamp may mention, attribute written back, generated name)
PLAN = [
    ("CountMinLinear.add", "countmin.py", "CountMinLinear", "_add_linear", "uint_maxval", None, "linear"),
    ("CountMinLog16.add", "countmin.py", "CountMinLog16", "_add_log16", "uint_maxval", "rand_ptr", "log16"),
    ("CountMinLog8.add", "countmin.py", "CountMinLog8", "_add_log8", "uint_maxval", "rand_ptr", "log8"),
    ("HeavyHitters.add", "heavyhitters.py", "HeavyHitters", "_add", "uint_maxval", None, "hh"),
    ("HyperLogLog.add", "hyperloglog.py", "HyperLogLog", "_add", None, None, "hll"),
]

HDR = ["(* GENERATED by harness/pytrans_api.py from the repository - do not edit.  The class-level add wrappers (Python ints = Z). *)",
       "From Coq Require Import ZArith Bool.", "Open Scope Z_scope.", ""]


def generate(repo):
    """({file name: text}, {tag: error}); never raises, the file always compiles"""
    out = list(HDR)
    errors = {}
    trees = {}
    for tag, source, cls, kernel, attr, wb, name in PLAN:
        try:
            if source not in trees:
                trees[source] = _parse(os.path.join(repo, "sketchnu", source))
            term, l0, l1 = _wrapper(trees[source], cls, kernel, trees[source], attr, wb)
            out.append(f"(* {source} {cls}.add l.{l0}-{l1}: the multiplicity handed to {kernel} "
                       f"(None: the kernel takes none); every other argument is self.<the kernel's parameter name> *)")
            if term is None:
                out.append(f"Definition gen_api_{name}_add_value (value uint_maxval : Z) : option Z := None.")
            else:
                out.append(f"Definition gen_api_{name}_add_value (value uint_maxval : Z) : option Z := Some {term}.")
            out.append(f"Definition gen_api_{name}_add_writes_back : bool := {'true' if wb else 'false'}.\n")
        except Exception as e:
            errors[f"kernels:api:{tag}"] = f"{type(e).__name__}: {e}"
            out.append("(* TRANSLATION FAILED (" + tag + "): " + str(e).replace("*)", "* )").replace("(*", "( *") + " *)")
            out.append(f"Definition gen_api_{name}_add_value (value uint_maxval : Z) : option Z := Some (-1).  (* translation failed *)")
            out.append(f"Definition gen_api_{name}_add_writes_back : bool := {'false' if wb else 'true'}.  (* translation failed *)\n")
    return {"KernelsApi.v": "\n".join(out) + "\n"}, errors


if __name__ == "__main__":
    import sys
    t, e = generate(sys.argv[1] if len(sys.argv) > 1 else "/repo")
    for k, v in t.items():
        print("=====", k)
        print(v)
    print("errors:", e)
