"""C20 — a truncated sketch file is never loaded as a sketch (partial: framing theorem under a stated
hypothesis; F4 shows the hypothesis is needed)."""
import json
import os
import time

import lib
import zip_common as zc

ALLOWED_AXIOMS = frozenset()
MANIFEST = dict(
    category="proof",
    text="PARTIAL. Coq theorems C20_prefix_rejected / C20_complete_accepted / C20_refuted_without_hyp over a "
         "transcription of np.load's magic dispatch and CPython 3.12 zipfile._EndRecData: if a file is body ++ eocd "
         "(22-byte end record, zero comment length) and the end-record signature occurs nowhere before the record, "
         "every strict prefix is rejected by the reader's first step and the complete file is located; without the "
         "hypothesis the claim is false (finding F4).  Tied to the code by loading EVERY strict prefix of real saved "
         "files of all five classes (truncated in place with os.truncate) through the class loaders and "
         "countmin.load, and by comparing the model's answer with zipfile._EndRecData on the same prefixes.",
    design_ref="DESIGN.md section 6, C20; section 5, F4",
    note="Proved: framing (first step of the reader) only.  Assumed: whatever zipfile/numpy do after locating an end "
         "record can only reject more (never turns 'no record' into a load); np.savez writes body ++ eocd with an empty "
         "comment (checked on every generated file: wf_eocd and sig_free evaluated on the real bytes).  Observed only: "
         "acceptance of the complete file and equality with the saved sketch.  Known finding F4: files whose payload "
         "embeds an archive violate the hypothesis and do load from strict prefixes.  No axioms.",
    technique="Coq proof (prefix rejection of a transcribed reader) + exhaustive every-offset truncation sweep on real files "
              "+ vm_compute correspondence against zipfile._EndRecData / np.load")


# ------------------------------------------------------------------ sketches
def _keys(rng, n, maxlen=12):
    alpha = [b"", b"a", b"ab", b"PK", b"PK\x05", b"\x00", b"\x00\x00", b"\xff\xfe", b"key", b"PK\x03\x04x"]
    out = []
    for _ in range(n):
        if rng.random() < 0.4:
            out.append(rng.choice(alpha))
        else:
            out.append(bytes(rng.getrandbits(8) for _ in range(rng.randrange(1, maxlen))))
    return out


def build(sk, cls, shape, rng):
    cm, hl, hh = sk.countmin, sk.hyperloglog, sk.heavyhitters
    if cls == "CountMinLinear":
        s = cm.CountMinLinear(*shape)
    elif cls == "CountMinLog16":
        s = cm.CountMinLog16(*shape)
    elif cls == "CountMinLog8":
        s = cm.CountMinLog8(*shape)
    elif cls == "HeavyHitters":
        s = hh.HeavyHitters(*shape)
    else:
        s = hl.HyperLogLog(*shape)
    for k in _keys(rng, rng.randrange(3, 40)):
        if cls == "HyperLogLog":
            s.add(k)
        else:
            s.add(k, rng.choice([1, 1, 2, 7, 300]))
    return s


def state(np, s):
    """complete public state as plain python"""
    d = {"class": type(s).__name__}
    for a in ("cms", "registers", "lhh", "lhh_count", "key_lens", "n_added_records"):
        if hasattr(s, a):
            arr = getattr(s, a)
            d[a] = (str(arr.dtype), tuple(arr.shape), arr.tobytes())
    for a in ("width", "depth", "max_count", "num_reserved", "base", "p", "seed", "max_key_len", "phi", "m"):
        if hasattr(s, a):
            d[a] = float(getattr(s, a)) if a in ("base", "phi") else int(getattr(s, a))
    d["args"] = {k: (v if isinstance(v, str) else float(s.phi) if v is None and k == "phi" else float(v))
                 for k, v in s.args.items()}
    return d


def shapes_for(ctx):
    rng = ctx.rng
    quick = ctx.tier == "quick"
    sh = {
        "CountMinLinear": [(5, 3), (rng.randrange(20, 60), rng.randrange(3, 8)), (rng.randrange(200, 330), 8)],
        "CountMinLog16": [(7, 3, 10**7, 15), (rng.randrange(60, 140), 5), (rng.randrange(700, 1100), 8, 2**32 - 1, 1023)],
        "CountMinLog8": [(9, 5, 10**5, 3), (rng.randrange(150, 260), 7), (rng.randrange(1500, 2100), 9)],
        "HeavyHitters": [(3, 2, 5), (rng.randrange(8, 20), 4, 13), (rng.randrange(40, 70), 4, rng.randrange(30, 48))],
        "HyperLogLog": [(7, 5), (10, 1), (14, 2**40 + 3)],
    }
    if not quick:
        for _ in range(10):
            sh["CountMinLinear"].append((rng.randrange(1, 400), rng.randrange(1, 9)))
            sh["CountMinLog16"].append((rng.randrange(1, 900), rng.randrange(1, 9), rng.choice([10**6, 2**32 - 1]), rng.choice([0, 15, 1023])))
            sh["CountMinLog8"].append((rng.randrange(1, 2000), rng.randrange(1, 9), rng.choice([10**4, 2**32 - 1]), rng.choice([0, 3, 15])))
            sh["HeavyHitters"].append((rng.randrange(1, 50), rng.randrange(1, 5), rng.randrange(1, 60)))
            sh["HyperLogLog"].append((rng.randrange(7, 15), rng.getrandbits(40)))
    return sh


def prefix_points(n, full, stride):
    """prefix lengths evaluated inside Coq: all of 0..n when full, otherwise both ends plus a stride"""
    if full:
        return list(range(n + 1))
    pts = set(range(0, min(n, 40) + 1)) | set(range(max(0, n - 60), n + 1)) | set(range(0, n + 1, stride))
    return sorted(pts)


def synthetic(ctx, np):
    """hostile byte strings for the model-vs-zipfile correspondence (not files written by save())"""
    rng = ctx.rng
    eocd0 = zc.SIG + b"\0" * 18
    out = []
    out.append(("exfile", bytes([80, 75, 3, 4, 20, 0, 80, 75, 5, 7, 0, 80, 75, 80, 75, 5, 80, 75, 1, 2, 9, 9, 80, 75, 5]) +
                bytes([80, 75, 5, 6, 0, 0, 0, 0, 1, 0, 1, 0, 80, 75, 5, 6, 26, 0, 0, 0, 0, 0]), None))
    out.append(("tiny", zc.ZIP_PREFIX + eocd0 + b"\x01\x02\x03" + eocd0, None))
    out.append(("comment", zc.ZIP_PREFIX + b"0123456789" + zc.SIG + b"\0" * 16 + b"\x05\x00" + b"hello" + b"!!", None))
    out.append(("shortcomment", zc.ZIP_PREFIX + zc.SIG + b"\0" * 16 + b"\x2c\x01" + b"ab", None))
    out.append(("emptyzip", eocd0 + b"\x00", None))
    out.append(("twosig", zc.ZIP_PREFIX + eocd0 + b"xyz" + zc.SIG + b"\0" * 9, None))
    import io
    bio = io.BytesIO()
    np.save(bio, np.arange(3, dtype=np.uint8))
    out.append(("npy", bio.getvalue(), None))
    nrand = 12 if ctx.tier == "quick" else 60
    alpha = [80, 75, 5, 6, 3, 4, 0, 0]
    for i in range(nrand):
        b = bytes(rng.choice(alpha) for _ in range(rng.randrange(24, 90)))
        for _ in range(rng.randrange(0, 4)):
            pos = rng.randrange(0, len(b))
            b = b[:pos] + zc.SIG + b[pos:]
        if rng.random() < 0.6:
            b = rng.choice([zc.ZIP_PREFIX, zc.SIG]) + b
        if rng.random() < 0.4:
            b = b + b"\0\0"
        out.append((f"rand{i}", b, None))
    # the 65 558-byte search window: record at offset r followed by filler; found iff n <= r + 65558
    head = bytes(rng.choice([1, 2, 80, 75]) for _ in range(100))
    r = len(zc.ZIP_PREFIX + head)
    nfill = 65700
    big = zc.ZIP_PREFIX + head + eocd0 + bytes([7]) * nfill
    fexpr = lib.zlist(zc.ZIP_PREFIX + head + eocd0) + f" ++ repeat 7 (Z.to_nat {nfill})"
    out.append(("window", big, (fexpr, [r + 22, r + 23, r + 65557, r + 65558, r + 65559, r + 65560, len(big)])))
    return out


# ------------------------------------------------------------------ the check
def run(ctx):
    ctx.level = "proof"
    quick = ctx.tier == "quick"
    sk = ctx.impl()
    import numpy as np
    cm, hl, hh = sk.countmin, sk.hyperloglog, sk.heavyhitters
    loaders = {
        "CountMinLinear": [("CountMinLinear.load", cm.CountMinLinear.load), ("countmin.load", cm.load)],
        "CountMinLog16": [("CountMinLog16.load", cm.CountMinLog16.load), ("countmin.load", cm.load)],
        "CountMinLog8": [("CountMinLog8.load", cm.CountMinLog8.load), ("countmin.load", cm.load)],
        "HeavyHitters": [("HeavyHitters.load", hh.HeavyHitters.load)],
        "HyperLogLog": [("HyperLogLog.load", hl.HyperLogLog.load)],
    }
    ctx.tick("imported")
    sweep_path = os.path.join(ctx.dir, "sweep.npz")
    nviol = 0

    # ---- optional replay of a recorded violation
    if getattr(ctx, "replay_file", None):
        try:
            rp = json.load(open(ctx.replay_file))
            data = bytes.fromhex(rp["file_hex"])
            with open(sweep_path, "wb") as f:
                f.write(data[:rp["offset"]])
            fn = dict(sum(loaders.values(), []))[rp["loader"]]
            try:
                obj = fn(sweep_path)
                ctx.violation(dict(rp, replayed=True, loaded=repr(type(obj).__name__)),
                              f"replay: prefix of {rp['offset']} bytes still loads through {rp['loader']}")
            except Exception as e:  # noqa
                ctx.notes.append(f"replay {ctx.replay_file}: the prefix is now rejected with {type(e).__name__}")
        except Exception as e:  # noqa
            ctx.notes.append(f"replay file not understood: {e!r}")

    # ---- 1. real files: save, hypotheses on the real bytes, complete file loads and equals the original
    files = []      # dict(cls, shape, data, tag)
    shapes = shapes_for(ctx)
    for cls, shs in shapes.items():
        for si, shape in enumerate(shs):
            for attempt in range(5):
                s = build(sk, cls, shape, ctx.rng)
                path = os.path.join(ctx.dir, f"{cls}_{si}.npz")
                s.save(path)
                data = open(path, "rb").read()
                if zc.py_file_hyps(data) and b"PK\x06\x07" not in data and b"PK\x06\x06" not in data:
                    break
                # structure: save() must write exactly  body ++ 22-byte end record  (hypothesis wf_eocd of the theorem).
                # A file that does not END with the record is never "bad luck": it is kept and swept.
                if not (len(data) >= 22 and data[-22:-18] == zc.SIG and data[-2:] == b"\0\0"):
                    ctx.broken.append(f"{cls}{shape}.save() wrote a file that does not end with the end-of-central-directory "
                                      f"record (last signature at {data.rfind(zc.SIG)} of {len(data)} bytes): hypothesis wf_eocd "
                                      f"of C20_prefix_rejected does not hold for it")
                    break
                ctx.count("regenerated:not-signature-free")
            else:
                ctx.notes.append(f"{cls}{shape}: no signature-free file after 5 attempts; skipped")
                continue
            orig = state(np, s)
            for lname, fn in loaders[cls]:
                try:
                    back = fn(path)
                    st = state(np, back)
                except Exception as e:  # noqa
                    ctx.violation({"cls": cls, "shape": shape, "loader": lname, "error": repr(e), "file_hex": data.hex()},
                                  f"the complete file written by {cls}{shape}.save() does not load: {e!r}")
                    nviol += 1
                    continue
                if st != orig:
                    diff = [k for k in orig if st.get(k) != orig[k]]
                    ctx.violation({"cls": cls, "shape": shape, "loader": lname, "differs": diff, "file_hex": data.hex()},
                                  f"the complete file loads to a different sketch (fields {diff})")
                    nviol += 1
            files.append(dict(cls=cls, shape=shape, data=data, tag=f"{cls}_{si}", si=si))
            ctx.count("files:" + cls)
            ctx.count("bytes:" + cls, len(data))
    # ---- 1b. save over an existing, longer file: the result must be byte-identical to a save to a fresh path
    for cls, shs in shapes.items():
        big_shape, small_shape = shs[1], shs[0]
        path = os.path.join(ctx.dir, f"{cls}_overwrite.npz")
        fresh = os.path.join(ctx.dir, f"{cls}_fresh.npz")
        for attempt in range(5):
            rb = ctx.rng.getrandbits(32)
            import random as _r
            build(sk, cls, big_shape, _r.Random(rb)).save(path)
            small = build(sk, cls, small_shape, _r.Random(rb + 1))
            small.save(path)                       # overwrite the longer file
            small.save(fresh)
            data, want = open(path, "rb").read(), open(fresh, "rb").read()
            if data != want:
                ctx.broken.append(f"{cls}: saving {small_shape} over an existing longer file ({big_shape}) leaves {len(data)} bytes, "
                                  f"a save to a fresh path writes {len(want)}: the file is not body ++ end record")
                files.append(dict(cls=cls, shape=small_shape, data=data, tag=f"{cls}_overwrite", si=99))
                break
            if zc.py_file_hyps(data):
                break
        ctx.count("overwrite-scenario")
    # ---- 1c. one table above 1 MiB (structure of the file + sampled sweep of its prefixes)
    bigs = cm.CountMinLinear(2**15, 8)
    for k in _keys(ctx.rng, 20):
        bigs.add(k, 3)
    pbig = os.path.join(ctx.dir, "big_linear.npz")
    bigs.save(pbig)
    bigdata = open(pbig, "rb").read()
    os.remove(pbig)
    if not (bigdata[-22:-18] == zc.SIG and bigdata[-2:] == b"\0\0"):
        ctx.broken.append(f"CountMinLinear(32768, 8).save() wrote a file that does not end with the end-of-central-directory record "
                          f"(last signature at {bigdata.rfind(zc.SIG)} of {len(bigdata)} bytes)")
    big_offsets = sorted(set(range(max(0, len(bigdata) - 4200), len(bigdata))) | set(range(0, len(bigdata), 65521)))
    with open(sweep_path, "wb") as f:
        f.write(bigdata)
    for n in reversed(big_offsets):
        os.truncate(sweep_path, n)
        for lname, fn in loaders["CountMinLinear"]:
            try:
                obj = fn(sweep_path)
            except Exception:  # noqa
                continue
            if nviol < 3:
                ctx.violation({"cls": "CountMinLinear", "shape": [32768, 8], "loader": lname, "offset": n, "file_len": len(bigdata),
                               "tail_hex": bigdata[-4300:].hex()},
                              f"strict prefix ({n} of {len(bigdata)} bytes) of a 1 MiB CountMinLinear file loads through {lname}")
            nviol += 1
        ctx.case_seen(("big", n), True)
    ctx.count("big-file-prefixes", len(big_offsets))
    del bigs
    ctx.tick(f"{len(files)} files saved, checked signature-free, reloaded; overwrite and 1 MiB scenarios")

    # ---- 2. the sweep: every strict prefix, truncated in place, through every loader
    exc_hist = {}
    n_loads = 0
    py_mismatch = []
    smallest = {}
    for fz in files:
        if fz["cls"] not in smallest or len(fz["data"]) < len(smallest[fz["cls"]]["data"]):
            smallest[fz["cls"]] = fz
    for fz in files:
        data, cls = fz["data"], fz["cls"]
        N = len(data)
        with open(sweep_path, "wb") as f:
            f.write(data)
        locs = [None] * (N + 1)
        kinds = [None] * (N + 1)
        locs[N] = zc.observe_locate(data)
        kinds[N] = zc.observe_dispatch(np, data)
        is_small = smallest[cls] is fz
        for n in range(N - 1, -1, -1):
            os.truncate(sweep_path, n)
            for lname, fn in loaders[cls]:
                n_loads += 1
                try:
                    obj = fn(sweep_path)
                except Exception as e:  # noqa
                    k = type(e).__name__
                    exc_hist[k] = exc_hist.get(k, 0) + 1
                    continue
                # a strict prefix of a signature-free file came back as an object
                if nviol < 3:
                    what = type(obj).__name__ + " " + repr(getattr(obj, "args", None))
                    ctx.violation({"cls": cls, "shape": fz["shape"], "loader": lname, "offset": n, "file_len": N,
                                   "loaded": what, "file_hex": data.hex()},
                                  f"strict prefix ({n} of {N} bytes) of a file saved by {cls}{fz['shape']} loads through "
                                  f"{lname} as {what}")
                nviol += 1
            pre = data[:n]
            locs[n] = zc.observe_locate(pre)
            kinds[n] = zc.observe_dispatch(np, pre)
            if is_small or n % 61 == 0:
                lf = zc.observe_locate_file(sweep_path)       # the real-file variant (seek(-22, 2) raises OSError)
                if lf != locs[n]:
                    py_mismatch.append((fz["tag"], n, "file-vs-BytesIO", lf, locs[n]))
            if (zc.py_locate(pre), zc.py_dispatch(pre)) != (locs[n], kinds[n]):
                py_mismatch.append((fz["tag"], n, "port-vs-zipfile", zc.py_locate(pre), locs[n], zc.py_dispatch(pre), kinds[n]))
            ctx.case_seen((fz["tag"], n), n >= 4)
        if zc.py_locate(data) != locs[N] or locs[N] != N - 22:
            py_mismatch.append((fz["tag"], N, "complete", zc.py_locate(data), locs[N]))
        fz["locs"], fz["kinds"] = locs, kinds
        ctx.count("prefixes:" + cls, N)
    for k, v in exc_hist.items():
        ctx.count("exception:" + k, v)
    ctx.cov["loads"] = n_loads
    ctx.tick(f"sweep: {n_loads} loads of strict prefixes, exceptions {exc_hist}")
    if py_mismatch:
        ctx.broken.append(f"correspondence persist-prefix (python port of Zip.v vs zipfile/np.load): {len(py_mismatch)} "
                          f"differences, first {py_mismatch[0]}")

    # ---- 3. F4 (known finding): an archive embedded in the payload
    f4 = None
    try:
        small = hl.HyperLogLog(7, 5)
        small.add(b"x")
        p_small = os.path.join(ctx.dir, "f4_small.npz")
        small.save(p_small)
        sb = open(p_small, "rb").read()
        big = hl.HyperLogLog(12)
        big.registers[:len(sb)] = np.frombuffer(sb, np.uint8)
        p_big = os.path.join(ctx.dir, "f4_big.npz")
        big.save(p_big)
        bb = open(p_big, "rb").read()
        n0 = bb.find(sb) + len(sb)
        st_small = state(np, small)
        with open(sweep_path, "wb") as f:
            f.write(bb)
        loaded, other, f4_locs, f4_kinds = [], [], [None] * (len(bb) + 1), [None] * (len(bb) + 1)
        f4_locs[len(bb)] = zc.observe_locate(bb)
        f4_kinds[len(bb)] = zc.observe_dispatch(np, bb)
        for n in range(len(bb) - 1, -1, -1):
            os.truncate(sweep_path, n)
            f4_locs[n] = zc.observe_locate(bb[:n])
            f4_kinds[n] = zc.observe_dispatch(np, bb[:n])
            try:
                obj = hl.HyperLogLog.load(sweep_path)
            except Exception:  # noqa
                continue
            (loaded if state(np, obj) == st_small else other).append(n)
            ctx.count("F4:prefix-loads")
        f4 = dict(data=bb, locs=f4_locs, kinds=f4_kinds, n0=n0, loaded=loaded)
        hyp = zc.py_file_hyps(bb)
        if hyp:
            ctx.broken.append("F4 construction: the file with an embedded archive passes the signature-free test")
        if n0 in loaded:
            ctx.known_finding(
                f"F4: HyperLogLog(12) whose registers hold the {len(sb)} bytes of a saved HyperLogLog(7,5): the first {n0} "
                f"of {len(bb)} bytes load as HyperLogLog(p=7, seed=5) (query()={float(small.query()):.4f}); so do "
                f"{len(loaded)} strict prefixes in all (lengths {min(loaded)}..{max(loaded)}): zipfile tolerates leading and "
                f"trailing bytes around the embedded end record; the file violates the sig_free hypothesis of C20_prefix_rejected")
        else:
            ctx.notes.append(f"F4 witness no longer reproduces: the {n0}-byte prefix of the embedding file is rejected "
                             f"({len(loaded)} prefixes load)")
        # every prefix that loads must be one where the model locates a record (else the model is too optimistic)
        unexplained = [n for n in loaded + other if zc.py_locate(bb[:n]) < 0]
        if other or unexplained:
            ctx.violation({"kind": "F4-variant", "offsets_other_object": other[:20], "unexplained": unexplained[:20],
                           "file_hex": bb.hex()},
                          "prefixes of the F4 file load as something other than the embedded sketch / where the model "
                          "locates no end record")
        ctx.sample({"F4": {"embedded_len": len(sb), "file_len": len(bb), "first_loading_prefix": n0,
                           "prefixes_that_load": len(loaded), "signature_offsets": [i for i in range(len(bb)) if bb[i:i + 4] == zc.SIG]}})
    except Exception as e:  # noqa
        ctx.broken.append("F4 replay could not be executed: " + repr(e))
    ctx.tick("F4 replayed")

    # ---- 4. the model inside Coq on the same prefixes
    jobs = []
    stride = 97 if quick else 7
    for fz in files:
        full = smallest[fz["cls"]] is fz
        pts = prefix_points(len(fz["data"]), full, stride)
        cases = [(n, fz["locs"][n], fz["kinds"][n]) for n in pts if isinstance(fz["locs"][n], int)]
        jobs.append(dict(tag=fz["tag"], fexpr=lib.zlist(fz["data"]), cases=cases, want_hyps=True, full=full))
    if f4:
        pts = prefix_points(len(f4["data"]), not quick, 7)
        cases = [(n, f4["locs"][n], f4["kinds"][n]) for n in pts if isinstance(f4["locs"][n], int)]
        jobs.append(dict(tag="F4", fexpr=lib.zlist(f4["data"]), cases=cases, want_hyps=False, full=not quick))
    syn = synthetic(ctx, np)
    for tag, b, special in syn:
        if special:
            fexpr, pts = special
        else:
            fexpr, pts = lib.zlist(b), list(range(len(b) + 1))
        cases = []
        for n in pts:
            loc, kd = zc.observe_locate(b[:n]), zc.observe_dispatch(np, b[:n])
            if (zc.py_locate(b[:n]), zc.py_dispatch(b[:n])) != (loc, kd) and isinstance(loc, int):
                py_mismatch.append((tag, n, "port-vs-zipfile", zc.py_locate(b[:n]), loc, zc.py_dispatch(b[:n]), kd))
            if isinstance(loc, int):
                cases.append((n, loc, kd))
                ctx.count("synthetic:" + ("located" if loc >= 0 else "none"))
        jobs.append(dict(tag="syn_" + tag, fexpr=fexpr, cases=cases, want_hyps=None, full=True, data=b))
    if py_mismatch and not any("python port" in b for b in ctx.broken):
        ctx.broken.append(f"correspondence persist-prefix (python port of Zip.v vs zipfile/np.load) on synthetic inputs: "
                          f"first {py_mismatch[0]}")
    res = zc.coq_file_jobs(ctx, jobs, par=4)
    n_coq = 0
    for job in jobs:
        r = res[job["tag"]]
        if r["err"]:
            ctx.broken.append("correspondence persist-prefix could not be evaluated: " + r["err"])
            continue
        n_coq += len(job["cases"])
        if r["bad"]:
            n = r["bad"][0]
            exp = [c for c in job["cases"] if c[0] == n][0]
            out = ctx.coq_show("mismatch_" + job["tag"], "Machine Zip",
                               f"let p := firstn (Z.to_nat {n}) ({job['fexpr']}) in "
                               f"(show_loc (locate_eocd p), show_kind (np_load_dispatch p), show_result (reader p))")
            ctx.broken.append(f"correspondence persist-prefix: Zip.v differs from zipfile/np.load on {len(r['bad'])} prefixes of "
                              f"{job['tag']}; first n={n}: observed (locate, dispatch)={exp[1:]}, model={out[-200:]}")
        if job["want_hyps"] is True and r["hyps"] is not True:
            ctx.broken.append(f"hypotheses of C20_prefix_rejected (wf_eocd, sig_free) evaluate to false inside Coq on the "
                              f"real file {job['tag']} although the Python test passed")
        if job["want_hyps"] is False and r["hyps"] is not False:
            ctx.broken.append("the F4 file satisfies file_hyps inside Coq: the hypothesis does not separate it")
    ctx.cov["model_cases_evaluated_in_coq"] = n_coq
    ctx.cov["traces_validated_against_impl"] = n_coq
    ctx.tick(f"coq: {len(jobs)} files, {n_coq} prefixes")

    # ---- evidence
    sizes = {fz["tag"]: len(fz["data"]) for fz in files}
    ctx.cov["file_sizes"] = sizes
    ctx.cov["exhaustive"] = True
    ctx.cov["rule"] = (
        "case = (saved file, prefix length n); every n in 0..len-1 of every file listed in file_sizes is loaded (exhaustive "
        "over the offsets of those files, not over files) from a real file truncated in place with os.truncate, through the "
        "class loader and, for count-min files, also countmin.load; each load must raise; distinct = distinct (file, n); "
        "non-trivial = n >= 4 (the prefix passes np.load's magic test and reaches zipfile).  The complete file must load "
        "through every loader to a sketch equal to the saved one (all arrays, parameters, args).  Correspondence: on every "
        "prefix zipfile._EndRecData and np.load's branch are compared with a Python port of Zip.v; inside Coq the model is "
        "evaluated on every prefix (0..len) of the smallest file of each class, on both ends plus a stride for the larger "
        "files and the F4 file, and on every prefix of hostile synthetic byte strings (comments, truncated last signature, "
        "signatures inside records, .npy magic, the 65558-byte search window)")
    ctx.sample({"exceptions_on_strict_prefixes": exc_hist, "loads": n_loads})
    for fz in files[:2]:
        ctx.sample({"file": fz["tag"], "shape": fz["shape"], "bytes": len(fz["data"]), "eocd": list(fz["data"][-22:])})
    ctx.assumptions += [
        "everything zipfile/numpy do after _EndRecData has located an end record (ZIP64 records, central directory, local "
        "headers, CRC, npy headers, the sketch constructor) can only raise more; it cannot make a file load for which "
        "_EndRecData returned None (read from the CPython 3.12.1 / NumPy sources, exercised by the sweep, not proved)",
        "np.savez writes body ++ 22-byte end record with zero comment length and no ZIP64 end records for these sizes "
        "(checked on every generated file)",
        "a crash during save() leaves a prefix of the final file (np.savez writes sequentially into the target file)",
        "files whose payload contains the bytes 50 4B 05 06 are outside the theorem (finding F4); the generators' files "
        "are checked to be signature-free",
    ]
    ctx.trusted.append("CPython 3.12.1 zipfile._EndRecData (private API, called directly as the observation point of "
                       "the correspondence) and numpy.load")
