"""C04 — heavy hitters always report a key that dominates one of its cells."""
import hh_common

ALLOWED_AXIOMS = frozenset()
MANIFEST = dict(
    category="proof",
    text="Coq theorems over the Gallina model of heavyhitters.py, for every width, depth, max_key_len <= 255, bucket function "
         "and well formed history (any order, partition over sketches and merge tree): phi_add_same / phi_add_other / "
         "phi_merge_superadd (potential +count if the cell stores x else -count), C04_cell (2*truth - mass <= potential of "
         "x's cell in every row whose mass is below 2^32), C04_getitem (hh[k] >= 2f - W_r for every such row with a positive "
         "bound), C04_query (the key is in query(None, thr) with that count when the bound reaches max(thr,1)), C04_query_topk "
         "(finite k), C04_majority (2f > N, N < 2^32: the key is the first answer of query(1, thr) with count >= 2f - N). "
         "Tied to the code by the hh correspondence suite (complete state after every operation, model evaluated in Coq).",
    design_ref="DESIGN.md section 6, C04",
    note="Trusted: Coq kernel + vm_compute; the hand transcription HH.v (validated by the correspondence run; bucket map "
         "observed on a probe sketch); translator for hh_cap; Numba's uint32 store semantics. Saturation (cell mass >= 2^32) is "
         "excluded by hypothesis as in the property text. Theorems closed under the global context (no axioms).",
    technique="Coq proof (potential function argument lifted to histories) + vm_compute correspondence against the Numba code")

ITEMS = [(b"x", 5), (b"y", 2), (b"x\0", 1), (b"x", 1), (b"y", 1)]


def run(ctx):
    ctx.level = "proof"
    quick = ctx.tier == "quick"
    items = ITEMS if quick else ITEMS + [(b"", 2)]
    extra = []
    for n, p in enumerate(hh_common.exhaustive_orderings(items, partitions=True)):
        # every ordering goes to Coq, the merged partitions in part (all of them run on the implementation)
        extra.append((p, p["nsk"] == 1 or n % (23 if quick else 101) == 0))
    n_ex = len(extra)
    hh_common.run_suite(ctx, "C04", 1500 if quick else 20000, 450 if quick else 5000, extra_programs=extra)
    ctx.cov["exhaustive"] = True
    ctx.cov["rule"] = (
        "cases = 5 corpus programs + EXHAUSTIVE sub-space (%d programs): every ordering of the weighted multiset %r in a "
        "width-1 depth-2 sketch, and for every ordering every split of the stream over two sketches merged in both directions "
        "(exhaustive only for that sub-space; all run on the implementation, the orderings and a fraction of the splits also in "
        "Coq) + random programs as in C03 with queries at thresholds None/0/1/small/bound-1/bound/bound+1 (bound computed "
        "while running from the independent Counter and the probe map). Predicate after every operation: for every key with "
        "f > 0 and every row with cell mass W_r < 2^32, hh[key] >= 2f - W_r when positive; in query answers the key is present "
        "with count >= bound when bound >= max(thr,1) and fewer than k keys count at least as much; a key with 2f > N is first "
        "with count >= 2f - N. C03's predicate is evaluated on the same runs. Histogram entries c04_* count how often each "
        "clause was actually exercised. distinct = distinct (shape, program); non-trivial = two added keys share a cell, or a key and its "
        "NUL-suffixed alias were both added, or two non-empty sketches were merged, or a cell mass reached 2^32-2." % (n_ex, items))
    ctx.assumptions += ["no 32-bit saturation: the total multiplicity mapped to the cell is below 2^32 (as in the property)",
                        "n_added_records does not wrap at 2^64; keys shorter than 2^64 bytes; multiplicities >= 0",
                        "depth >= 1 and width >= 1 (the constructor enforces it)"]
