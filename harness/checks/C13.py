"""C13 — query(k, threshold) is the exact, fresh top-k of the sketch's stored counts."""
import hh_common
import lib

ALLOWED_AXIOMS = frozenset()
MANIFEST = dict(
    category="proof",
    text="Coq theorems over the Gallina model of heavyhitters.py with the query cache (candidate_set as an insertion ordered "
         "list, n_added_sort, threshold_sort) as part of the state, for every reachable state (any well formed history of add, "
         "add_ngram, merge, save/load, query, generate_candidate_set): C13_cache_inv (n_added_sort = n_added -> cache = "
         "candidates of the current tables), C13_fresh (the answer is most_common k of the candidate list of the CURRENT tables "
         "at the requested threshold: never stale), C13_sorted, C13_len, C13_nodup, C13_counts (n = hh[key] >= threshold, > 0), "
         "C13_prefix, C13_complete (every key with hh[key] >= max(thr,1) is in the unbounded answer), C13_default_thr "
         "(threshold None = uint32 of the integer part of phi*n_added; the PrimFloat instance is checked against numpy on every "
         "run). Tied to the code by the hh correspondence suite including the cache fields, and a load(save()) freshness oracle.",
    design_ref="DESIGN.md section 6, C13",
    note="Trusted: Coq kernel + vm_compute; the hand transcription HH.v incl. Counter.most_common as a stable descending "
         "insertion sort (validated by the correspondence run); translator for hh_cap. The default threshold is an abstract "
         "function in the theorems (they hold for every such function); the executable instance is the bit-exact binary64 "
         "product truncated and wrapped modulo 2^32 (the C cast as observed here for values below 2^63). Thresholds outside "
         "[0, 2^32-1] raise OverflowError and are out of scope. Theorems closed under the global context (no axioms).",
    technique="Coq proof (cache invariant by induction over histories; sort/permutation lemmas) + vm_compute correspondence "
              "against the Numba code + load(save()) freshness oracle")


def run(ctx):
    ctx.level = "proof"
    quick = ctx.tier == "quick"
    hh_common.run_suite(ctx, "C13", 1200 if quick else 10000, 500 if quick else 5000)
    replay_F6(ctx)
    ctx.cov["rule"] = (
        "cases = 5 corpus programs (cache hit/miss, add with multiplicity 0, merge with an empty sketch, default threshold "
        "wrapping past 2^32) + random programs of <= 25 operations interleaving add/update/ngram/merge/save-load with "
        "query(k in {0,1,2,3,4,7,None}, thr in {None,0,1,2,5,2^32-1}) and generate_candidate_set, half of the queries followed "
        "at once by a second query with the same or another threshold (hit and miss paths, counted in the histogram as "
        "c13_hit_path / c13_miss_path); shapes and alphabets as in C03. Compared with the Coq model after every operation: "
        "tables, n_added, n_records, list(candidate_set.items()), n_added_sort, threshold_sort, the answer. Predicate at every "
        "query: non-increasing counts, distinct keys, len <= k, n == hh[key] >= threshold (None -> independently computed "
        "uint32(phi*n_added)) and > 0, answer == first k of the unbounded answer of HeavyHitters.load(save()), candidate_set "
        "equal to that of the fresh copy, every added key with hh[key] >= max(thr,1) present, answer == the fresh copy's answer "
        "to the same call. No exhaustive sub-space is claimed. distinct = distinct (shape, program); non-trivial = two added keys share a cell, or a key and its "
        "NUL-suffixed alias were both added, or two non-empty sketches were merged, or a cell mass reached 2^32-2.")
    ctx.assumptions += ["phi * n_added < 2^63 (beyond that the float -> uint32 cast is platform dependent)",
                        "thresholds passed explicitly are in [0, 2^32-1] (others raise OverflowError)",
                        "n_added_records does not wrap at 2^64; keys shorter than 2^64 bytes; multiplicities >= 0",
                        "lhh/lhh_count/key_lens/candidate_set are only changed through the public methods"]


def replay_F6(ctx):
    """Known finding F6 (known_findings.json): the default threshold wraps modulo 2^32 once phi*n_added >= 2^32.
    The suite's oracle follows the code's wrap in exactly that regime (phi*n_added >= 2^32) and the property text
    (floor(phi*n_added)) everywhere else, so any other deviation is still reported."""
    import warnings
    if not any(f["id"] == "F6" and f["status"] == "known" for f in lib.load_known_findings()):
        return
    from sketchnu.heavyhitters import HeavyHitters
    hh = HeavyHitters(1, 1, 4, phi=1.0)
    hh.add(b"a", 2**32 - 1)
    hh.add(b"a", 6)
    with warnings.catch_warnings():
        warnings.simplefilter("ignore")
        ans = hh.query(None)
    n_added = int(hh.n_added())
    want_thr = int(1.0 * n_added)
    if ans == [(b"a", 4294967295)] and int(hh.threshold_sort) == want_thr % 2**32 and want_thr >= 2**32:
        ctx.known_finding(f"F6: default threshold np.uint32(phi*n_added) wraps modulo 2^32: HeavyHitters(1,1,4,phi=1.0) with "
                          f"n_added={n_added} uses threshold {int(hh.threshold_sort)} instead of {want_thr} and reports "
                          f"{ans} (count below floor(phi*n_added))")
    elif ans == []:
        ctx.notes.append("F6 no longer reproduces: query() returns nothing when phi*n_added >= 2^32")
    else:
        ctx.violation({"finding": "F6 replay", "n_added": n_added, "answer": [[list(k), int(v)] for k, v in ans],
                       "threshold_sort": int(hh.threshold_sort)},
                      "default-threshold behaviour beyond 2^32 differs from the recorded known finding F6")
