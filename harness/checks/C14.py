"""C14 — rows use different hash functions (provable core) + labelled statistical tests."""
import math

import lib
import pyref

ALLOWED_AXIOMS = frozenset()
MANIFEST = dict(
    category="proof",
    text="proof (partial: deterministic core) + statistical test.  Proved in Coq for every key and every pair of rows: "
         "the column of row r is fasthash64(key, seed=r) mod width, and seed -> fasthash64(key, seed) is injective on "
         "[0,2^64) (every FastHash step is shown to be a bijection of the 64-bit state), so two rows never apply the same "
         "hash function - 'seeding every row identically' is excluded by theorem plus the correspondence that every kernel "
         "(three count-min types, heavy hitters) really uses row r's column = model's hash_bucket.  Uniformity/independence "
         "across rows is an empirical property of a fixed function and is only TESTED (fixed seeds): the documented "
         "exp(-depth) bound on Zipf streams and a chi-square of the joint column distribution of every pair of rows.",
    design_ref="DESIGN.md section 6, C14",
    note="Trusted: Coq kernel + vm_compute; Hashes.v transcription (tied by C11); the statistical clauses are tests, not theorems. "
         "Theorems closed under the global context.",
    technique="Coq proof (seed-injectivity of FastHash, column formula) + correspondence of observed columns + labelled statistical tests")


def chi2_quantile_upper(df, z):
    """Wilson-Hilferty approximation of the upper quantile at normal deviate z."""
    return df * (1 - 2 / (9 * df) + z * math.sqrt(2 / (9 * df))) ** 3


def run(ctx):
    rng = ctx.rng
    ctx.impl()
    import numpy as np
    from sketchnu.countmin import CountMinLinear, CountMinLog16, CountMinLog8
    from sketchnu.heavyhitters import HeavyHitters
    quick = ctx.tier == "quick"

    # ---------- (a) observed column per row == fasthash64(key,row) % width, all kernels
    nkeys = 400 if quick else 2000
    coq_cases = []
    nviol = 0
    for i in range(nkeys):
        width = rng.choice([1, 2, 3, 7, 16, 64, 1000])
        depth = rng.choice([1, 2, 4, 8])
        ln = rng.choice([0, 1, 3, 7, 8, 9, 15, 16, 17, rng.randrange(0, 40)])
        key = bytes(rng.getrandbits(8) for _ in range(ln))
        want = [pyref.fasthash64(key, r) % width for r in range(depth)]
        obs = {}
        for name, mk in (("linear", lambda: CountMinLinear(width, depth)), ("log16", lambda: CountMinLog16(width, depth)),
                         ("log8", lambda: CountMinLog8(width, depth))):
            s = mk()
            s.add(key)
            obs[name] = [int(np.flatnonzero(s.cms[r])[0]) for r in range(depth)]
            s.query(key)
            if [int(x) for x in s.buckets] != obs[name]:
                obs[name + ".buckets"] = [int(x) for x in s.buckets]
        hh = HeavyHitters(width, depth, max_key_len=max(1, min(40, ln)))
        hh.add(key)
        obs["hh"] = [int(np.flatnonzero(hh.lhh_count[r])[0]) for r in range(depth)]
        ctx.case_seen((width, depth, key), depth >= 2 and width >= 2)
        ctx.count(f"depth={depth}")
        for name, cols in obs.items():
            if cols != want and nviol < 3:
                ctx.violation({"key": list(key), "width": width, "depth": depth, "kernel": name, "observed_columns": cols,
                               "fasthash64(key,row)%width": want},
                              "a kernel does not use column fasthash64(key, row) % width")
                nviol += 1
        if i < (120 if quick else 600) and ln <= 24:
            coq_cases.append(f"({width}%nat, {lib.zkey(key)}, [{'; '.join('%d%%nat' % c for c in obs['linear'])}])")
    ctx.tick("columns observed")
    chk = ("fun c : (nat * key * list nat) => let '(w, k, cols) := c in "
           "forallb (fun rc => Nat.eqb (hash_bucket w (fst rc) k) (snd rc)) (combine (seq 0 (List.length cols)) cols)")
    bad, err = ctx.coq_bad_cases("cols", "Machine Harness Hashes HashInj", chk, coq_cases, shard=40)
    if err:
        ctx.broken.append("correspondence row-column could not be evaluated: " + err)
    if bad:
        ctx.broken.append(f"correspondence row-column: model hash_bucket differs from the observed column on {len(bad)} keys, "
                          f"first: {coq_cases[sorted(bad)[0]][:300]}")
    ctx.cov["traces_validated_against_impl"] = len(coq_cases)
    ctx.sample(coq_cases[0])
    ctx.tick("coq columns")

    # ---------- (b) TEST (not a proof): documented exp(-depth) bound on Zipf streams
    tests = {}
    runs = [(32, 8), (64, 8), (128, 8)] if quick else [(32, 8), (48, 8), (64, 8), (96, 8), (128, 8), (32, 8), (64, 8)]
    worst = 0.0
    for (width, depth) in runs:
        nk = 5000
        keys = set()
        while len(keys) < nk:
            keys.add(bytes(rng.getrandbits(8) for _ in range(rng.randint(4, 12))))
        keys = list(keys)
        counts = [max(1, int(20000 / (i + 1) ** 1.1)) for i in range(nk)]
        sk = CountMinLinear(width, depth)
        order = list(range(nk))
        rng.shuffle(order)
        for j in order:
            sk.add(keys[j], counts[j])
        N = int(sk.n_added())
        lim = math.e * N / width
        heavy = sum(1 for c in counts if c > lim)
        exceed = sum(1 for j in range(nk) if int(sk.query(keys[j])) > counts[j] + lim)
        frac = exceed / nk
        worst = max(worst, frac)
        ctx.case_seen(("zipf", width, depth, N), True)
        if frac > math.exp(-depth):
            ctx.violation({"test": "documented bound", "width": width, "depth": depth, "n_added": N, "keys": nk,
                           "keys_over_bound": exceed, "fraction": frac, "allowed": math.exp(-depth),
                           "heavy_keys_above_eN/w": heavy, "stream": "Zipf(1.1) counts 20000/i^1.1 over random keys, VERIF_SEED-derived"},
                          "fraction of keys with est > true + e*N/width exceeds exp(-depth)")
    tests["bound_worst_fraction"] = worst
    ctx.tick("zipf bound test")

    # ---------- (c) TEST: joint column distribution of every pair of rows (chi-square, 1e-9 quantile)
    width = 16
    nk = 20000
    df = width * width - 1
    crit = chi2_quantile_upper(df, 5.998)
    worst_chi = 0.0
    for depth in ([2, 8] if quick else [2, 3, 4, 5, 6, 7, 8]):
        sk = CountMinLinear(width, depth)
        cols = np.zeros((nk, depth), np.int64)
        for i in range(nk):
            k = rng.getrandbits(64).to_bytes(8, "little") + bytes([i & 255, (i >> 8) & 255])
            sk.query(k)
            cols[i] = sk.buckets
        exp = nk / (width * width)
        for a in range(depth):
            for b in range(a + 1, depth):
                joint = np.bincount(cols[:, a] * width + cols[:, b], minlength=width * width)
                chi = float(((joint - exp) ** 2 / exp).sum())
                worst_chi = max(worst_chi, chi)
                ctx.case_seen(("chi", depth, a, b), True)
                if chi > crit:
                    ctx.violation({"test": "row-pair independence", "depth": depth, "rows": [a, b], "chi2": chi, "critical": crit,
                                   "keys": nk, "width": width, "equal_columns": int((cols[:, a] == cols[:, b]).sum())},
                                  "joint column distribution of two rows is not uniform (chi-square beyond the 1e-9 quantile)")
                    break
            else:
                continue
            break
    tests["chi2_worst"] = worst_chi
    tests["chi2_critical"] = crit
    ctx.cov["statistical_tests"] = tests
    ctx.tick("chi-square test")
    ctx.cov["rule"] = ("(a) random (width, depth, key) probes: the counter that moves in each row of a fresh linear/log16/log8/"
                       "heavy-hitter sketch, and the public `buckets` array, vs fasthash64(key,row)%width (pure-Python reference) and, "
                       "for a subset, vs the Coq model's hash_bucket; (b) TEST: Zipf(1.1) streams of 5000 random keys at widths "
                       "32..128, depth 8: fraction of keys with est > true + e*N/width must be <= exp(-8); (c) TEST: chi-square of the "
                       "joint column distribution of every pair of rows over 20000 random keys at width 16; non-trivial = depth>=2 and width>=2")
    ctx.assumptions += ["uniformity / independence of FastHash across seeds is an empirical fact, tested with fixed seeds, not proved"]
