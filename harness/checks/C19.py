"""C19 — a failing callback or dead worker never silently corrupts or hangs parallel_add."""
import itertools
import time

import lib
import par_common as pc

ALLOWED_AXIOMS = frozenset()
MANIFEST = dict(
    category="proof",
    text="Partial by nature: callback faults are proved, process death is observed. Coq theorems over Merging.v (transcription of "
         "the loop and exception handler of helpers._worker, the exit-code monitor and the tail of parallel_add): C19_terminates "
         "(the worker loop consumes exactly the items before its pill and returns, for every pattern of items that raise before "
         "or after touching the sketches), C19_nrecords (n_records, added once at the pill, sums the callback returns of the "
         "successful items only), C19_others_intact / C19_hll_intact (for every schedule the merged count-min estimate of every key "
         "is >= min(its count over the successful items, cap) and <= the row mass of what took effect; the HyperLogLog registers "
         "are those of one sketch fed everything that took effect; C19_hh_others_intact: heavy hitters keep C03's no-over-count and "
         "C04's per-row guarantee w.r.t. what took effect), C19_monitor (Abort iff some exit code is neither None nor 0), "
         "C19_abort_closes (after a bad exit code both queues are closed and the next log put raises before any merge is "
         "started), C19_no_fault_returns. Tied to the code by driving the REAL _worker/_merge_worker/parallel_merging/parallel_add "
         "under a synchronous process context over every fault pattern of 4 items and comparing states with the model inside Coq; "
         "two real spawned runs (callback raising; a worker killed by os._exit) under a hard wall-clock bound.",
    design_ref="DESIGN.md section 6, C19",
    note="Trusted: Coq kernel + vm_compute; the hand transcription Merging.v (validated by the merge-tree correspondence run); "
         "harness/syncctx.py. NOT proved, only observed in real spawned runs: that a dead worker shows a non-zero Process.exitcode, "
         "that kill()/join() return, that Queue.put on a closed queue raises (it is the definition of log_put in the model), "
         "wall-clock termination. A dead worker makes parallel_add raise ValueError('Queue ... is closed') by way of the later "
         "log_queue.put, not by design (DESIGN.md section 5, observations). Theorems closed under the global context (no axioms).",
    technique="Coq proof (worker loop / monitor / abort sequence) + enumerated fault-pattern correspondence against the real worker "
              "code + real spawned fault runs under a wall-clock bound")

BOUND_S = 300   # the property's wall-clock bound for a real parallel_add with a dead worker


def fault_items(rng, base, pattern):
    """the same 4 items with the given pattern of ok / before / after; an `after` item stops after a
    strict prefix of its adds when it has at least two, after its only add otherwise"""
    out = []
    for (idx, adds, ret, _, _), mode in zip(base, pattern):
        cut = 0
        if mode == "after":
            cut = max(1, len(adds) - 1) if adds else 0
        out.append(pc.make_item(idx, adds, ret, mode, cut))
    return out


def run(ctx):
    ctx.level = "proof"
    quick = ctx.tier == "quick"
    rng = ctx.rng
    cfg = pc.DEFAULT_CFG
    universe = list(pc.KEYS)
    if getattr(ctx, "replay_file", None):
        pc.replay(ctx, ctx.replay_file)
        return
    shm0 = pc.shm_listing()

    # ---- layer 2 first: the two real fault runs start now, side by side, in the background
    real_faults = ["ok", "before", "ok", "after", "ok", "ok"]
    real_items = pc.gen_items(rng, 6, faults=real_faults)
    real_items = [pc.make_item(i, adds, ret, mode, max(1, len(adds) - 1) if (mode == "after" and adds) else cut)
                  for (i, adds, ret, mode, cut) in real_items]
    kill_items = pc.gen_items(rng, 6)
    base = {"combo": ["cms", "hh", "hll"], "cfg": cfg, "universe": [list(k) for k in universe], "delay": 1.0}
    RR = pc.RealRuns(ctx, width=2)
    RR.add("raise", dict(base, mode="raise", n_workers=2, items=pc.items_to_json(real_items)), 420)
    # the worker is killed by a SIGNAL on its first item (what the OOM killer does: negative exit code); the thorough
    # tier also uses os._exit(3) (positive exit code)
    RR.add("kill1", dict(base, mode="kill", n_workers=2, die_on_kth=1, die_signal=True, items=pc.items_to_json(kill_items)), BOUND_S + 120)
    if not quick:
        for k, n in ((2, 2), (3, 3), (1, 1), (1, 5)):
            RR.add("kill%d_n%d" % (k, n), dict(base, mode="kill", n_workers=n, die_on_kth=k, die_signal=(k == 2),
                                              items=pc.items_to_json(pc.gen_items(rng, 9))), BOUND_S + 200)

    env = pc.Env(ctx)
    import logging
    logging.getLogger("sketchnu.helpers").addHandler(logging.NullHandler())
    logging.getLogger("sketchnu.helpers").propagate = False
    ctx.tick("imported; real runs started in the background")
    bm = pc.probe_buckets(env, cfg, universe)
    S = pc.Suite(ctx, env, cfg, universe, bm)

    # ---- whole parallel_add in-process: callback faults must be survived, a dead worker must abort
    n_whole = 0
    for j, (pattern, n) in enumerate([(("ok", "before", "after", "ok", "ok"), 2), (("after", "after", "ok", "before", "ok"), 3),
                                      (("before", "before", "before", "before", "before"), 1),
                                      (("die", "ok", "ok", "ok", "ok"), 1), (("ok", "die", "ok", "ok", "ok"), 2),
                                      (("ok", "ok", "before", "die", "ok"), 3), (("ok", "ok", "ok", "ok", "die"), 2),
                                      (("after", "ok", "die", "ok", "die"), 3)] +
                                     ([] if quick else [(tuple(rng.choice(["ok", "ok", "before", "after", "die"]) for _ in range(5)),
                                                         rng.choice([1, 2, 3, 5])) for _ in range(24)])):
        items = pc.gen_items(rng, 5, faults=list(pattern))
        ss = pc.some_schedules(rng, 5, n, 3)
        S.add_whole(items, pc.COMBOS[(j * 3 + 6) % 7], ss[j % len(ss)])
        n_whole += 1
    # ---- every fault pattern of 4 (thorough: 5) items x 1..3 workers x assignments, through the real _worker
    n_it = 4 if quick else 5
    base_items = pc.gen_items(rng, n_it, max_adds=3)
    base_items = [pc.make_item(i, adds if adds else [(b"a", 1)], ret) for (i, adds, ret, _, _) in base_items]
    patterns = list(itertools.product(("ok", "before", "after"), repeat=n_it))
    scheds = {1: pc.some_schedules(rng, n_it, 1, 1),
              2: pc.some_schedules(rng, n_it, 2, 2 if quick else 3),
              3: pc.some_schedules(rng, n_it, 3, 2 if quick else 3)}
    all_scheds = scheds[1] + scheds[2] + scheds[3]
    for pi, pat in enumerate(patterns):
        items = fault_items(rng, base_items, pat)
        for si, sched in enumerate(all_scheds):
            combo = ("cms", "hh", "hll") if (pi + si) % len(all_scheds) == 0 else ("cms",)
            S.add(items, [sched], combo, "F1-fault-patterns")
    S.run_all()

    # ---- model side
    S.run_model()
    ctx.cov["traces_validated_against_impl"] = S.n_sched + n_whole

    # ---- collect the real runs
    real_cases = {"cms": [], "hll": [], "hh": []}
    kill_summary = []
    for tag, h, r in RR.results():
        ctx.tick(f"real run {tag} finished after {r.get('wall')}s")
        spec = h["spec"]
        if tag == "raise":
            out = pc.eval_real(ctx, S, r, spec, real_items, universe, cfg, bm, env)
            if out:
                sched, fin = out
                real_cases["cms"].append((real_items, sched, fin["cms"]))
                real_cases["hll"].append((real_items, sched, fin["hll"]))
                if "hh" in fin:
                    real_cases["hh"].append((real_items, sched, fin["hh"]))
        else:
            rep = {"suite": "real-dead-worker", "n_workers": spec["n_workers"], "die_on_kth": spec["die_on_kth"],
                   "items": spec["items"], "combo": spec["combo"], "cfg": cfg,
                   "outcome": {k: v for k, v in r.items() if k not in ("final", "trace")}}
            if r.get("hung") or (r.get("call_s") or 0) > BOUND_S:
                S.violation(rep, f"parallel_add with a dead worker did not terminate within {BOUND_S} s")
            elif r.get("broken"):
                ctx.broken.append("real dead-worker run could not be evaluated: " + r["broken"])
            elif not r.get("died"):
                ctx.broken.append("real dead-worker run: no worker reached its k-th item, nothing was killed")
            elif not r["raised"]:
                S.violation(rep, "a worker process died (os._exit) and parallel_add returned a result")
            else:
                ctx.count("real_dead_worker_runs_raised")
                kill_summary.append({"n_workers": spec["n_workers"], "die_on_kth": spec["die_on_kth"], "raised": r["raised"],
                                     "message": r.get("message"), "call_s": r.get("call_s"), "wall_s": r["wall"],
                                     "orphans": r["orphans"], "shm_left": r["shm_left"]})
                if r["orphans"] or r["shm_left"]:
                    ctx.notes.append(f"dead-worker run {tag}: left behind orphans={r['orphans']} shm={r['shm_left']} "
                                     "(cleaned by the harness; not part of the property)")
    if real_cases["cms"] or real_cases["hll"]:
        S.run_model_real(real_items, real_cases)
    ctx.cov["real_dead_worker_runs"] = kill_summary

    left = pc.shm_cleanup(list(env.shm_names))
    if left:
        ctx.notes.append(f"{len(left)} shared-memory blocks created by the harness process were still present at the end (removed)")
    ctx.cov["shm_before_after"] = [len(shm0), len(pc.shm_listing())]
    env.close()

    ctx.cov["exhaustive"] = True
    ctx.cov["real_spawned_parallel_add_calls"] = 2 if quick else 6
    ctx.cov["fault_patterns"] = len(patterns)
    ctx.cov["schedules_per_pattern"] = len(all_scheds)
    ctx.cov["rule"] = (
        f"EXHAUSTIVE sub-space (exhaustive only for this): all {len(patterns)} fault patterns of {n_it} items (each item ok / "
        "raises before touching the sketches / raises after a strict non-empty prefix of its adds), each on "
        f"{len(all_scheds)} schedules (1 worker; {len(scheds[2])} assignments to 2 workers; {len(scheds[3])} to 3 workers: round-robin, "
        "everything to the last worker with the others idle, reversed blocks), = "
        f"{len(patterns) * len(all_scheds)} runs of the real helpers._worker per worker followed by the real parallel_merging, under "
        "harness/syncctx on real shared-memory sketches; count-min in every run, count-min + heavy hitters + HyperLogLog in one run "
        f"per pattern. Sampled: {n_whole} whole in-process parallel_add calls with callback faults (must return) and with a worker "
        "standing in for a dead process (an exception class the worker loop does not catch -> non-zero exit code): must raise, with "
        "all workers and the logger killed and both queues closed before any merger is started. Predicate on the implementation: one "
        "ERROR log per faulted item, exit codes 0, the queue consumed up to and including the pill and no further; n_records "
        "(per worker and merged) == sum of the returns of the successful items; n_added == multiplicity of what took effect; every "
        "key's count-min estimate >= min(count over the successful items, cap) and <= row mass of what took effect; HLL registers == "
        "sequential sketch of what took effect; heavy hitters never over-count. Model: the same cases evaluated by Merging.v / "
        "MergingHH.v inside Coq (complete count-min state and heavy-hitter table of every worker and of the result, hh[k], query, "
        "HLL registers, monitor outcome for the observed exit "
        "codes). Real spawned runs: one with a raising callback (must return; schedule observed through the callback, model "
        f"evaluated on it) and dead-worker runs (os._exit(3) on the k-th item of the first worker to get there; must raise within "
        f"{BOUND_S} s): {'k=1, 2 workers' if quick else 'k in 1..3, n_workers in {1,2,3,5}'}. distinct = distinct (suite, combination, "
        "items, schedule); non-trivial = at least 2 workers.")
    ctx.assumptions += [
        "a raising callback raises an Exception subclass (BaseException subclasses such as KeyboardInterrupt are not caught by the "
        "worker loop and kill the worker: that is the dead-worker path)",
        "callback return values of successful items are non-negative integers summing to less than 2^64",
        "process death, Process.exitcode, kill()/join() returning, Queue.put on a closed queue raising: observed in the real runs, "
        "assumed by the model and by harness/syncctx.py",
        "in the in-process layers a worker that dies does so while the other workers still run to completion (no interleaving)",
    ]
