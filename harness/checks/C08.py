"""C08 — parallel_add gives the sequential result for every worker count and schedule."""
import json
import time

import cms_common
import lib
import par_common as pc

ALLOWED_AXIOMS = frozenset()
MANIFEST = dict(
    category="proof",
    text="Coq theorems over Merging.v, a transcription of helpers.parallel_merging's rounds (index arithmetic of l.506-539), "
         "the loop of helpers._worker and the monitor/tail of parallel_add: pm_total (the rounds end), pm_tree (for ANY merge the "
         "result is a binary merge tree whose leaves are the worker sketches, each exactly once, in order), pm_fold, pm_measure; "
         "for every schedule (every assignment of items to n >= 1 workers with every per-worker order): C08_hll (registers of the "
         "merged HyperLogLog = registers of the sequential sketch, via C02's set-only theorem), C08_inherits/C08_sandwich (the linear "
         "count-min result is eval of a merge tree whose adds are exactly the items' adds, so C01's bounds hold w.r.t. the whole "
         "stream), C08_nadded, C08_nrecords. Tied to the code by driving the REAL _worker/_merge_worker/parallel_merging/parallel_add "
         "under a synchronous process context over completely enumerated schedule spaces and comparing states and merge order with "
         "the model inside Coq, plus a real spawned parallel_add run whose schedule is observed through the callback.",
    design_ref="DESIGN.md section 6, C08",
    note="Trusted: Coq kernel + vm_compute; the hand transcription Merging.v (validated by the merge-tree correspondence run); "
         "Hll.v/CmsLinear.v (C02/C01); harness/syncctx.py (a deque-backed stand-in for multiprocessing used only in the harness "
         "process). Not proved, assumed and observed only: multiprocessing.Queue hands every item to exactly one worker and one "
         "pill to each, process spawn, shared-memory attachment across processes, OS scheduling. The heavy-hitter instance of "
         "C08_inherits is not stated in Coq (same statement over HH.v); heavy hitters are checked on the implementation only. "
         "Known finding F2 (generator items cannot be pickled under spawn) is probed on every run. Theorems closed under the "
         "global context (no axioms).",
    technique="Coq proof (merge-tree + schedule theorems) + enumerated-schedule correspondence against the real worker/merge code "
              "+ real spawned run")

THREADS = 32
CLASSNAME = {"cms": "CountMinLinear", "hh": "HeavyHitters", "hll": "HyperLogLog"}


def jsonable_items(items):
    return pc.items_to_json(items)


class Suite:
    def __init__(self, ctx, env, cfg, universe, bm):
        self.ctx, self.env, self.cfg, self.universe, self.bm = ctx, env, cfg, universe, bm
        self.nviol = 0
        self.cms_cases, self.hll_cases, self.shape_cases, self.mon_cases = [], [], {}, []
        self.meta = {"cms": [], "hll": [], "mon": []}
        self.n_sched = 0

    def violation(self, replay, what):
        self.nviol += 1
        if self.nviol <= 4:
            self.ctx.violation(replay, what)

    def check_result(self, items, res, suite):
        """everything that is checked on one in-process schedule run"""
        ctx = self.ctx
        sched, combo = res["sched"], tuple(res["combo"])
        n = len(sched)
        self.n_sched += 1
        rep = {"suite": suite, "items": jsonable_items(items), "schedule": sched, "combo": list(combo), "cfg": self.cfg}
        ctx.case_seen((suite, combo, repr(items), repr(sched)), n >= 2)
        ctx.count("n_workers=%d" % n)
        ctx.count("combo=" + "+".join(combo))
        ctx.count("idle_workers=%d" % sum(1 for w in sched if not w))
        if res["errors"] or any(c != 0 for c in res["exitcodes"]) or res["log_errors"]:
            self.violation(dict(rep, errors=res["errors"], exitcodes=res["exitcodes"], logged=res["log_errors"]),
                           "worker or merge raised on a fault-free stream")
            return
        for w, left in enumerate(res["queue_left"]):
            if left != [("sentinel-after-pill", w)]:
                self.violation(dict(rep, worker=w, queue_left=repr(left)),
                               "_worker did not consume exactly its items and one pill")
                return
        for kind in combo:
            fin = res["final"].get(kind)
            if fin is None:
                self.violation(dict(rep, kind=kind), "parallel_merging returned nothing")
                return
            # merge order: every worker sketch used exactly once, in the model's tree
            if res["n_trees_left"][kind] != 1 or res["tree"][kind] != pc.py_tree(n):
                self.violation(dict(rep, kind=kind, observed_tree=repr(res["tree"][kind]), expected=repr(pc.py_tree(n)),
                                    unmerged=res["n_trees_left"][kind] - 1),
                               "parallel_merging did not merge every worker sketch exactly once in pairwise rounds")
                return
            self.shape_cases[(n, repr(res["tree"][kind]), res["rounds"][kind], tuple(res["per_round"][kind]))] = res["tree"][kind]
            bad = pc.predicate(kind, fin, items, self.universe, bm=self.bm, depth=self.cfg["cms"]["depth"],
                               seq=res["seq"][kind])
            if bad:
                self.violation(dict(rep, kind=kind, failed=bad, result={k: repr(v) for k, v in fin.items()}),
                               "C08 predicate: " + bad["clause"])
                return
            if kind != "hll":
                # n_records is added once per worker, at its pill
                for w, ws in enumerate(res["workers"][kind]):
                    exp = sum(pc.ok_ret(items[i]) for i in sched[w])
                    if ws["n_records"] != exp:
                        self.violation(dict(rep, kind=kind, worker=w, n_records=ws["n_records"], expected=exp),
                                       "worker sketch n_records != sum of its callback returns")
                        return
        if "cms" in combo:
            self.cms_cases.append("(" + pc.coq_cms_case(self.cfg, self.bm, items, sched, res["workers"]["cms"],
                                                        res["final"]["cms"]) + " : cms_case)")
            self.meta["cms"].append(rep)
        if "hll" in combo:
            self.hll_cases.append("(" + pc.coq_hll_case(self.cfg, items, sched, res["final"]["hll"]) + " : hll_case)")
            self.meta["hll"].append(rep)

    def run_schedules(self, items, scheds, combo, suite):
        env, cfg, uni = self.env, self.cfg, self.universe
        t = time.time()
        for res in pc.run_pool(lambda s: pc.run_schedule(env, combo, cfg, items, s, uni), scheds, THREADS):
            self.check_result(items, res, suite)
            if self.nviol > 4:
                break
        self.ctx.tick(f"{suite}: {len(scheds)} schedules x {'+'.join(combo)} in {time.time() - t:.1f}s")

    def check_whole(self, items, res):
        """one whole in-process parallel_add"""
        ctx = self.ctx
        combo, plan = tuple(res["combo"]), res["plan"]
        n = len(plan)
        rep = {"suite": "whole-parallel_add", "items": jsonable_items(items), "schedule": plan, "combo": list(combo),
               "cfg": self.cfg}
        ctx.case_seen(("whole", combo, repr(items), repr(plan)), n >= 2)
        ctx.count("whole_parallel_add n_workers=%d" % n)
        if res["raised"]:
            self.violation(dict(rep, raised=res["raised"]), "parallel_add raised on a fault-free stream")
            return
        if res.get("returned_types") != [CLASSNAME[k] for k in combo]:
            self.violation(dict(rep, returned=res.get("returned_types")),
                           "parallel_add did not return the requested sketches in the order cms, hh, hll")
            return
        served = sorted(p for _, p in res["served"])
        if res["items_put"] != len(items) or res["pills_put"] != n or served != list(range(len(items))):
            self.violation(dict(rep, items_put=res["items_put"], pills_put=res["pills_put"], served=res["served"]),
                           "_fill_queue did not put every item once and one pill per worker")
            return
        if res["n_merge_started"] != (n - 1) * len(combo) or res["kills"] or res["queues_closed"]:
            self.violation(dict(rep, mergers=res["n_merge_started"], kills=res["kills"]),
                           "fault-free parallel_add started the wrong number of mergers or killed/closed something")
            return
        for kind in combo:
            seq = pc.sequential(self.env, kind, self.cfg, items, self.universe)
            bad = pc.predicate(kind, res["final"][kind], items, self.universe, bm=self.bm,
                               depth=self.cfg["cms"]["depth"], seq=seq)
            if bad:
                self.violation(dict(rep, kind=kind, failed=bad), "C08 predicate (whole parallel_add): " + bad["clause"])
                return
        self.mon_cases.append("(" + pc.coq_mon_case(n, combo, [(res["codes"], False)], False, False, len(combo)) + " : mon_case)")
        self.meta["mon"].append(rep)


def eval_real(ctx, suite, r, spec, items, universe, cfg, bm, env):
    """the real spawned run: must return, every item processed exactly once, results as the property says;
    returns the observed schedule (for the model) or None"""
    rep = {"suite": "real-spawned-run", "n_workers": spec["n_workers"], "items": spec["items"], "combo": spec["combo"],
           "cfg": cfg, "outcome": {k: v for k, v in r.items() if k not in ("final", "trace")}}
    if r.get("hung"):
        suite.violation(rep, "real parallel_add did not return within the hard timeout")
        return None
    if r.get("broken"):
        ctx.broken.append("real spawned run could not be evaluated: " + r["broken"])
        return None
    if r["raised"]:
        suite.violation(rep, f"real parallel_add raised {r['raised']}: {r.get('message')}")
        return None
    combo = tuple(spec["combo"])
    if r.get("returned_types") != [CLASSNAME[k] for k in combo]:
        suite.violation(dict(rep, returned=r.get("returned_types")), "real parallel_add returned the wrong sketches")
        return None
    sched, n_active = pc.observed_schedule(r["trace"], spec["n_workers"])
    seen = sorted(i for w in sched for i in w)
    if seen != list(range(len(items))) or len(sched) != spec["n_workers"]:
        suite.violation(dict(rep, observed_schedule=sched), "an item was not processed exactly once (callback side channel)")
        return None
    if r["orphans"] or r["shm_left"]:
        suite.violation(dict(rep, orphans=r["orphans"], shm_left=r["shm_left"]),
                        "parallel_add left processes or shared-memory blocks behind")
        return None
    fin = {}
    for kind in combo:
        s = r["final"][kind]
        if kind == "cms":
            s = dict(s, q=[(bytes(k), v) for k, v in s["q"]])
        elif kind == "hh":
            s = dict(s, get=[(bytes(k), v) for k, v in s["get"]], query=[(bytes(k), v) for k, v in s["query"]])
        fin[kind] = s
        seq = pc.sequential(env, kind, cfg, items, universe)
        bad = pc.predicate(kind, s, items, universe, bm=bm, depth=cfg["cms"]["depth"], seq=seq)
        if bad:
            suite.violation(dict(rep, kind=kind, failed=bad, observed_schedule=sched), "C08 predicate (real run): " + bad["clause"])
            return None
    ctx.count("real_runs_ok")
    ctx.cov.setdefault("real_runs", []).append({"n_workers": spec["n_workers"], "wall_s": r["wall"], "call_s": r.get("call_s"),
                                                "observed_schedule": sched, "workers_that_got_items": n_active})
    return sched, fin


def run(ctx):
    ctx.level = "proof"
    quick = ctx.tier == "quick"
    rng = ctx.rng
    cfg = pc.DEFAULT_CFG
    universe = list(pc.KEYS)
    shm0 = pc.shm_listing()

    # ---- layer 2 first: the real spawned run and the F2 probe start now and run in the background
    real_items = pc.gen_items(rng, 6)
    base = {"combo": ["cms", "hh", "hll"], "cfg": cfg, "universe": [list(k) for k in universe],
            "items": pc.items_to_json(real_items)}
    handles = []
    real_ns = [2] if quick else [1, 2, 3, 5]
    handles.append(("f2", pc.launch_real(ctx, "f2", dict(base, mode="f2", n_workers=2), 420)))
    handles.append(("real2", pc.launch_real(ctx, "n2", dict(base, mode="c08", n_workers=2), 420)))
    pending_real = [n for n in real_ns if n != 2]

    env = pc.Env(ctx)
    import logging
    logging.getLogger("sketchnu.helpers").addHandler(logging.NullHandler())
    logging.getLogger("sketchnu.helpers").propagate = False
    ctx.tick("imported; real runs started in the background")
    bm = pc.probe_buckets(env, cfg, universe)
    S = Suite(ctx, env, cfg, universe, bm)

    # ---- S1: complete enumeration, count-min only (exact model comparison)
    n1 = 4 if quick else 5
    items1 = pc.gen_items(rng, n1)
    scheds1 = [s for n in (1, 2, 3) for s in pc.all_schedules(n1, n)]
    S.run_schedules(items1, scheds1, ("cms",), "S1-complete")
    # ---- S2: complete enumeration of a smaller space with all three sketches at once
    n2 = 3 if quick else 4
    items2 = pc.gen_items(rng, n2)
    scheds2 = [s for n in ((1, 2, 3) if quick else (1, 2, 3, 4)) for s in pc.all_schedules(n2, n)]
    S.run_schedules(items2, scheds2, ("cms", "hh", "hll"), "S2-complete")
    # ---- S3: worker counts for the merge rounds, and the 7 combinations of sketches
    items3 = pc.gen_items(rng, 5 if quick else 6)
    for n in ((4, 5) if quick else (4, 5, 6, 7, 8, 9)):
        S.run_schedules(items3, pc.some_schedules(rng, len(items3), n, 2 if quick else 4), ("cms", "hll"), "S3-rounds")
    combo_scheds = pc.some_schedules(rng, len(items3), 3, 2 if quick else 6)
    for j, combo in enumerate(pc.COMBOS):
        S.run_schedules(items3, [combo_scheds[j % 2]] if quick else combo_scheds, combo, "S3-combos")
    # ---- S4: the whole parallel_add in-process (queue steered by the harness)
    whole = []
    for j, combo in enumerate(pc.COMBOS):
        ns = [[1, 2, 3, 5][j % 4]] if quick else [1, 2, 3, 5]
        if combo == ("cms", "hh", "hll"):
            ns = [1, 2, 3, 5]
        for n in ns:
            whole.append((combo, pc.some_schedules(rng, len(items3), n, 3)[rng.randrange(3) if n > 1 else 0]))
    t = time.time()
    for res in pc.run_pool(lambda c: pc.run_parallel_add(env, c[0], cfg, items3, c[1], universe), whole, THREADS):
        S.check_whole(items3, res)
    ctx.tick(f"S4: {len(whole)} whole in-process parallel_add runs in {time.time() - t:.1f}s")
    # l.301-302: no sketch arguments -> ValueError before anything is started
    with env.syncctx.use(env.syncctx.Context()) as c0:
        try:
            env.helpers.parallel_add([1], env.callback, n_workers=1)
            S.violation({"suite": "no-args"}, "parallel_add without sketch arguments did not raise")
        except ValueError:
            if c0.events:
                S.violation({"suite": "no-args", "events": repr(c0.events)}, "parallel_add started something before rejecting")

    # ---- model side: the same cases inside Coq
    shape_cases = []
    for (n, _, rounds, per_round), tree in S.shape_cases.items():
        shape_cases.append(f"({n}, {pc.coq_tree(tree)}, {rounds}, {lib.zlist(per_round)})")
    for tag, chk, cases, shard in (("shape", "check_shape", shape_cases, 50), ("cms", "check_cms_case", S.cms_cases, 130),
                                   ("hll", "check_hll_case", S.hll_cases, 60), ("mon", "check_mon_case", S.mon_cases, 60)):
        bad, err = ctx.coq_bad_cases(tag, pc.IMPORTS, chk, cases, shard=shard)
        if err:
            ctx.broken.append(f"correspondence merge-tree ({tag}) could not be evaluated: {err}")
        if bad:
            i = sorted(bad)[0]
            rep = S.meta[tag][i] if tag in S.meta else {"case": cases[i]}
            show = ""
            if tag == "shape":
                show = ctx.coq_show("shape", pc.IMPORTS, f"pm_shape {shape_cases[i].split(',')[0][1:]}")[:300]
            ctx.broken.append(f"correspondence merge-tree ({tag}): model and implementation differ on {len(bad)} of "
                              f"{len(cases)} cases, first: {json.dumps(rep, default=repr)[:600]} {show}")
        ctx.cov["model_cases_%s" % tag] = len(cases)
    ctx.tick("model evaluated in Coq")
    ctx.cov["traces_validated_against_impl"] = S.n_sched + len(whole)

    # ---- collect the real runs
    f2 = None
    real_cases = {"cms": [], "hll": []}
    while handles:
        tag, h = handles.pop(0)
        r = pc.collect_real(h)
        ctx.tick(f"real run {tag} finished after {r.get('wall')}s")
        if tag == "f2":
            f2 = r
        else:
            out = eval_real(ctx, S, r, h["spec"], real_items, universe, cfg, bm, env)
            if out:
                sched, fin = out
                if "cms" in fin:
                    real_cases["cms"].append((sched, fin["cms"]))
                if "hll" in fin:
                    real_cases["hll"].append((sched, fin["hll"]))
        if pending_real and len(handles) < 2:
            n = pending_real.pop(0)
            handles.append((f"real{n}", pc.launch_real(ctx, f"n{n}", dict(base, mode="c08", n_workers=n), 600)))
    # the model on the schedules the real runs actually had (final state only)
    if real_cases["cms"] or real_cases["hll"]:
        cc = [f"(({cfg['cms']['width']}%nat, {cfg['cms']['depth']}%nat, {cms_common.coq_bmap(bm)}, "
              f"{pc.coq_outs(real_items, 'cms')}, {pc.coq_sched(s)}, {pc.coq_expect_cms(f)}) : real_cms_case)"
              for s, f in real_cases["cms"]]
        hc = ["(" + pc.coq_hll_case(cfg, real_items, s, f) + " : hll_case)" for s, f in real_cases["hll"]]
        for tag, chk, cases in (("realcms", "check_real_cms_case", cc), ("realhll", "check_hll_case", hc)):
            bad, err = ctx.coq_bad_cases(tag, pc.IMPORTS, chk, cases, shard=10)
            if err:
                ctx.broken.append(f"correspondence merge-tree ({tag}) could not be evaluated: {err}")
            if bad:
                ctx.broken.append(f"correspondence merge-tree ({tag}): the model evaluated on the schedule observed in the real "
                                  f"spawned run differs from the returned sketch ({len(bad)} of {len(cases)})")
        ctx.cov["model_cases_real_runs"] = len(cc) + len(hc)

    # ---- known finding F2
    kf = [f for f in lib.load_known_findings() if f["id"] == "F2"]
    known = bool(kf) and kf[0].get("status") == "known"
    rep = {"suite": "F2-probe", "call": "parallel_add(items=(it for it in items), process_item, n_workers=2, cms_args, hh_args, hll_args)",
           "outcome": {k: v for k, v in (f2 or {}).items() if k not in ("final", "trace")}}
    if f2 is None or f2.get("broken"):
        ctx.broken.append("F2 probe could not be evaluated: " + str((f2 or {}).get("broken")))
    elif f2.get("hung"):
        S.violation(rep, "parallel_add(items=<generator>) hangs")
    elif f2["raised"] == "TypeError" and "cannot pickle 'generator' object" in f2.get("message", ""):
        if f2["shm_left"]:
            S.violation(dict(rep, shm_left=f2["shm_left"]), "the failed call left shared-memory blocks behind")
        if known:
            ctx.known_finding(kf[0]["line"] + f" [reproduced: TypeError at fill_queue_process.start(); "
                              f"{len(f2['orphans'])} orphaned child process(es) killed by the harness]")
        else:
            S.violation(rep, "parallel_add(items=<generator>) raises TypeError: cannot pickle 'generator' object")
    elif f2["raised"]:
        S.violation(rep, f"parallel_add(items=<generator>) fails in a new way: {f2['raised']}: {f2.get('message')}")
    else:
        # generators accepted: then the result must be right
        spec = dict(base, mode="f2", n_workers=2)
        out = eval_real(ctx, S, f2, spec, real_items, universe, cfg, bm, env)
        if out:
            ctx.notes.append("F2 witness no longer fails: parallel_add accepted a generator and returned the right sketches")
    ctx.cov["f2_probe"] = rep["outcome"]

    # ---- leftovers
    left = pc.shm_cleanup(list(env.shm_names))
    if left:
        ctx.notes.append(f"{len(left)} shared-memory blocks created by the harness process were still present at the end (removed)")
    ctx.cov["shm_before_after"] = [len(shm0), len(pc.shm_listing())]
    env.close()

    ctx.cov["exhaustive"] = True
    ctx.cov["schedules_enumerated"] = S.n_sched
    ctx.cov["rule"] = (
        f"EXHAUSTIVE sub-spaces (exhaustive only for these): S1 = all {len(scheds1)} schedules (every assignment of {n1} items to "
        f"1, 2 and 3 labelled workers with every per-worker order, idle workers included) with a linear count-min sketch; S2 = all "
        f"{len(scheds2)} schedules of {n2} items on 1..{3 if quick else 4} workers with count-min + heavy hitters + HyperLogLog at once. "
        "Each schedule: per worker the real helpers._worker is driven with exactly its items and a pill on real shared-memory sketches, "
        "then the real helpers.parallel_merging (which starts the real _merge_worker) under harness/syncctx. Sampled: S3 = worker counts "
        f"{'4,5' if quick else '4..9'} (merge rounds with a carried-over sketch) and each of the 7 combinations of cms/hh/hll; S4 = "
        f"{len(whole)} whole in-process parallel_add calls (real _fill_queue, monitor loop, merging, return tuple; queue steered by the "
        "harness) over the 7 combinations and n_workers in {1,2,3,5}. Items: 0..3 adds each over the alphabet "
        "{'', NUL, a, a+NUL, ab, b, ff80, NULNUL}, multiplicities 1..5, width 3 x depth 2 count-min, 2x2 heavy hitters, p=7 HyperLogLog. "
        "Predicate on the implementation: HLL registers == sequential sketch; n_added == total multiplicity; n_records == sum of callback "
        "returns (also per worker); C01 sandwich w.r.t. the whole stream (bucket map observed on a probe); hh[k] <= true count and "
        "reported counts in (0, true]; merge order == ((01)(23))4-style tree with every worker sketch used once. Model: the same cases "
        "evaluated by Merging.v inside Coq (complete count-min state of every worker and of the result, HLL registers, tree shape, "
        f"rounds, mergers per round, monitor outcome). Real spawned parallel_add runs: n_workers in {real_ns}, schedule observed through "
        "the callback's (pid, item) side channel, model evaluated on the observed schedule; F2 probe. distinct = distinct (suite, "
        "combination, items, schedule); non-trivial = at least 2 workers.")
    ctx.assumptions += [
        "multiprocessing.Queue delivers every item to exactly one consumer and one pill to each worker (quantified over, not modelled)",
        "in the in-process layers processes are run one after the other by harness/syncctx.py: interleavings inside a merge round "
        "are not explored (the pairs of a round touch disjoint blocks)",
        "shared-memory attachment across processes, spawn, OS scheduling: only the real spawned runs exercise them",
        "count-min multiplicities small enough that no add is cut by the 2^32-1 ceiling (C08_nadded's hypothesis)",
        "callback return values are non-negative and sum to less than 2^64",
    ]
