"""C08 — parallel_add gives the sequential result for every worker count and schedule."""
import json
import time

import cms_common
import lib
import par_common as pc

ALLOWED_AXIOMS = frozenset()
MANIFEST = dict(
    category="proof",
    text="Coq theorems over Merging.v, a transcription of helpers.parallel_merging's rounds (index arithmetic of l.506-539), "
         "the loop of helpers._worker and the monitor/tail of parallel_add: pm_total (the rounds end), pm_tree (for ANY merge the "
         "result is a binary merge tree whose leaves are the worker sketches, each exactly once, in order), pm_fold, pm_measure; "
         "for every schedule (every assignment of items to n >= 1 workers with every per-worker order): C08_hll (registers of the "
         "merged HyperLogLog = registers of the sequential sketch, via C02's set-only theorem), C08_hh_* (heavy hitters: C03/C04 hold "
         "w.r.t. the whole stream), C08_inherits/C08_sandwich (the linear "
         "count-min result is eval of a merge tree whose adds are exactly the items' adds, so C01's bounds hold w.r.t. the whole "
         "stream), C08_nadded, C08_nrecords. Tied to the code by driving the REAL _worker/_merge_worker/parallel_merging/parallel_add "
         "under a synchronous process context over completely enumerated schedule spaces and comparing states and merge order with "
         "the model inside Coq, plus a real spawned parallel_add run whose schedule is observed through the callback.",
    design_ref="DESIGN.md section 6, C08",
    note="Trusted: Coq kernel + vm_compute; the hand transcription Merging.v (validated by the merge-tree correspondence run); "
         "Hll.v/CmsLinear.v (C02/C01); harness/syncctx.py (a deque-backed stand-in for multiprocessing used only in the harness "
         "process). Not proved, assumed and observed only: multiprocessing.Queue hands every item to exactly one worker and one "
         "pill to each, process spawn, shared-memory attachment across processes, OS scheduling. Heavy hitters: C08_hh_inherits "
         "(the result is eval of an HH.v merge tree whose leaves are a permutation of the stream's adds), C08_hh_no_overcount "
         "(C03 w.r.t. the stream), C08_hh_majority (C04 w.r.t. the stream), C08_hh_nadded; HH.v is trusted as validated by C03/C04. "
         "Known finding F2 (generator items cannot be pickled under spawn) is probed on every run. Theorems closed under the "
         "global context (no axioms).",
    technique="Coq proof (merge-tree + schedule theorems) + enumerated-schedule correspondence against the real worker/merge code "
              "+ real spawned run")

def run(ctx):
    ctx.level = "proof"
    quick = ctx.tier == "quick"
    rng = ctx.rng
    cfg = pc.DEFAULT_CFG
    universe = list(pc.KEYS)
    if getattr(ctx, "replay_file", None):
        pc.replay(ctx, ctx.replay_file)
        return
    shm0 = pc.shm_listing()

    # ---- layer 2 first: the real spawned run and the F2 probe start now and run in the background
    real_items = pc.gen_items(rng, 6)
    base = {"combo": ["cms", "hh", "hll"], "cfg": cfg, "universe": [list(k) for k in universe], "delay": 1.0,
            "items": pc.items_to_json(real_items)}
    real_ns = [2] if quick else [2, 1, 3, 5]
    RR = pc.RealRuns(ctx, width=3)
    RR.add("f2", dict(base, mode="f2", n_workers=2), 420)
    for n in real_ns:
        RR.add(f"real{n}", dict(base, mode="c08", n_workers=n), 600)
    # a schedule no synchronous context can produce: worker 1 of 3 is still busy (45 s on its first item) long after the
    # last-created worker has exited; it is the SOURCE of the first pairwise merge, so a parallel_add that starts
    # merging before every worker has finished loses its item (count-min only: keeps the merge rounds short)
    RR.add("slow1of3", dict(base, mode="c08", n_workers=3, combo=["cms"], slow_worker0=[1, 40.0]), 600)

    env = pc.Env(ctx)
    import logging
    logging.getLogger("sketchnu.helpers").addHandler(logging.NullHandler())
    logging.getLogger("sketchnu.helpers").propagate = False
    ctx.tick("imported; real runs started in the background")
    bm = pc.probe_buckets(env, cfg, universe)
    S = pc.Suite(ctx, env, cfg, universe, bm)

    # ---- S4: the whole parallel_add in-process (queue steered by the harness)
    items3 = pc.gen_items(rng, 5 if quick else 6)
    n_whole = 0
    for j, combo in enumerate(pc.COMBOS):
        ns = [[1, 2, 3, 5][j % 4]] if quick else [1, 2, 3, 5]
        if combo == ("cms", "hh", "hll"):
            ns = [1, 2, 3, 5]
        for n in ns:
            ss = pc.some_schedules(rng, len(items3), n, 3)
            S.add_whole(items3, combo, ss[rng.randrange(len(ss))])
            n_whole += 1
    S.add_whole([], ("cms", "hll"), [[], []])          # the empty stream
    n_whole += 1
    # ---- S3: worker counts for the merge rounds, and the 7 combinations of sketches
    for n in ((4, 5) if quick else (4, 5, 6, 7, 8, 9)):
        S.add(items3, pc.some_schedules(rng, len(items3), n, 2 if quick else 4), ("cms", "hll"), "S3-rounds")
    combo_scheds = pc.some_schedules(rng, len(items3), 3, 2 if quick else 6)
    for j, combo in enumerate(pc.COMBOS):
        S.add(items3, [combo_scheds[j % 2]] if quick else combo_scheds, combo, "S3-combos")
    # ---- Q: callback returns summing to a negative number: np.uint64(n_records) raises inside the bare
    # try/except of _worker l.214-218 and nothing is added.  Outside C08's hypotheses (record counts are
    # non-negative): only the model's transcription of that guard is compared.
    itemsq = [pc.make_item(i, adds, ret - 4) for (i, adds, ret, _, _) in pc.gen_items(rng, 4)]
    S.add(itemsq, pc.some_schedules(rng, 4, 2, 3), ("cms",), "Q-negative-returns")
    # ---- S5: worker sketches whose heavy-hitter table holds no key although the worker counted records / added keys:
    # an item that adds nothing but returns a record count, and an item whose two adds (two keys owning the same cell in
    # every row, one occurrence each) cancel out.  All schedules on 1-3 workers: such a sketch occurs on either side of a
    # pairwise merge, as the only content of a worker or after other items (added after seeded change
    # C08_hh_merge_early_return_on_empty_other was missed: a merge that skips an all-zero table must still add the counters)
    pair = None
    for a in universe:
        for b in universe:
            if a < b and S.bmh[a] == S.bmh[b]:
                pair = pair or (a, b)
    items5 = [pc.make_item(0, [], 3), pc.make_item(1, [(universe[2], 2)], 1),
              pc.make_item(2, [(pair[0], 1), (pair[1], 1)] if pair else [], 2)]
    scheds5 = [s for n in (1, 2, 3) for s in pc.all_schedules(3, n)]
    S.add(items5, scheds5, ("hh",), "S5-empty-hh-tables")
    S.add(items5, pc.some_schedules(rng, 3, 3, 4) + pc.some_schedules(rng, 3, 2, 3), ("cms", "hh", "hll"), "S5-empty-hh-tables")
    # ---- S6: a key and its NUL-padded aliases (different keys for C03) arrive on different workers, so that the pairwise
    # merges compare them cell against cell: the result must satisfy C03/C04 for the whole stream (the one-change-x-all-checks
    # matrix of DESIGN 9B showed C08 quiet on a merge that ignores the key length)
    items6 = [pc.make_item(0, [(b"a", 3)], 1), pc.make_item(1, [(b"a\x00", 2)], 1), pc.make_item(2, [(b"\x00", 2), (b"", 1)], 1)]
    S.add(items6, [s for n in (2, 3) for s in pc.all_schedules(3, n)], ("hh",), "S6-alias-keys-across-workers")
    # ---- S2: complete enumeration of a smaller space with all three sketches at once
    n2 = 3 if quick else 4
    items2 = pc.gen_items(rng, n2)
    scheds2 = [s for n in (1, 2, 3) for s in pc.all_schedules(n2, n)]
    S.add(items2, scheds2, ("cms", "hh", "hll"), "S2-complete")
    # ---- S1: complete enumeration, count-min only (exact model comparison)
    n1 = 4 if quick else 5
    items1 = pc.gen_items(rng, n1)
    scheds1 = [s for n in (1, 2, 3) for s in pc.all_schedules(n1, n)]
    S.add(items1, scheds1, ("cms",), "S1-complete")
    S.run_all()
    # l.301-302: no sketch arguments -> ValueError before anything is started
    with env.syncctx.use(env.syncctx.Context()) as c0:
        try:
            env.helpers.parallel_add([1], env.callback, n_workers=1)
            S.violation({"suite": "no-args"}, "parallel_add without sketch arguments did not raise")
        except ValueError:
            if c0.events:
                S.violation({"suite": "no-args", "events": repr(c0.events)}, "parallel_add started something before rejecting")

    # ---- model side: the same cases inside Coq
    S.run_model()
    ctx.cov["traces_validated_against_impl"] = S.n_sched + n_whole

    # ---- collect the real runs
    f2 = None
    real_cases = {"cms": [], "hll": [], "hh": []}
    for tag, h, r in RR.results():
        ctx.tick(f"real run {tag} finished after {r.get('wall')}s")
        if tag == "f2":
            f2 = r
        else:
            out = pc.eval_real(ctx, S, r, h["spec"], real_items, universe, cfg, bm, env)
            if out:
                sched, fin = out
                if "cms" in fin:
                    real_cases["cms"].append((real_items, sched, fin["cms"]))
                if "hll" in fin:
                    real_cases["hll"].append((real_items, sched, fin["hll"]))
                if "hh" in fin:
                    real_cases["hh"].append((real_items, sched, fin["hh"]))
    # the model on the schedules the real runs actually had (final state only)
    if real_cases["cms"] or real_cases["hll"] or real_cases["hh"]:
        S.run_model_real(real_items, real_cases)

    # ---- known finding F2
    kf = [f for f in lib.load_known_findings() if f["id"] == "F2"]
    known = bool(kf) and kf[0].get("status") == "known"
    rep = {"suite": "F2-probe", "call": "parallel_add(items=(it for it in items), process_item, n_workers=2, cms_args, hh_args, hll_args)",
           "outcome": {k: v for k, v in (f2 or {}).items() if k not in ("final", "trace")}}
    if f2 is None or f2.get("broken"):
        ctx.broken.append("F2 probe could not be evaluated: " + str((f2 or {}).get("broken")))
    elif f2.get("hung"):
        S.violation(rep, "parallel_add(items=<generator>) hangs")
    elif f2["raised"] == "TypeError" and "cannot pickle 'generator' object" in f2.get("message", ""):
        if f2["shm_left"]:
            S.violation(dict(rep, shm_left=f2["shm_left"]), "the failed call left shared-memory blocks behind")
        if known and not any(k.startswith(kf[0]["line"]) for k in ctx.known):
            ctx.known_finding(kf[0]["line"] + f" [reproduced: TypeError at fill_queue_process.start(); "
                              f"{len(f2['orphans'])} orphaned child process(es) killed by the harness]")
        elif not known:
            S.violation(rep, "parallel_add(items=<generator>) raises TypeError: cannot pickle 'generator' object")
    elif f2["raised"]:
        S.violation(rep, f"parallel_add(items=<generator>) fails in a new way: {f2['raised']}: {f2.get('message')}")
    else:
        # generators accepted: then the result must be right
        spec = dict(base, mode="f2", n_workers=2)
        out = pc.eval_real(ctx, S, f2, spec, real_items, universe, cfg, bm, env)
        if out:
            ctx.notes.append("F2 witness no longer fails: parallel_add accepted a generator and returned the right sketches")
    ctx.cov["f2_probe"] = rep["outcome"]

    # ---- leftovers
    left = pc.shm_cleanup(list(env.shm_names))
    if left:
        ctx.notes.append(f"{len(left)} shared-memory blocks created by the harness process were still present at the end (removed)")
    ctx.cov["shm_before_after"] = [len(shm0), len(pc.shm_listing())]
    env.close()

    ctx.cov["exhaustive"] = True
    ctx.cov["real_spawned_parallel_add_calls"] = 2 + len(real_ns)
    ctx.cov["schedules_enumerated"] = S.n_sched
    ctx.cov["rule"] = (
        f"EXHAUSTIVE sub-spaces (exhaustive only for these): S1 = all {len(scheds1)} schedules (every assignment of {n1} items to "
        f"1, 2 and 3 labelled workers with every per-worker order, idle workers included) with a linear count-min sketch; S2 = all "
        f"{len(scheds2)} schedules of {n2} items on 1..3 workers with count-min + heavy hitters + HyperLogLog at once. "
        "Each schedule: per worker the real helpers._worker is driven with exactly its items and a pill on real shared-memory sketches, "
        "then the real helpers.parallel_merging (which starts the real _merge_worker) under harness/syncctx. Sampled: S3 = worker counts "
        f"{'4,5' if quick else '4..9'} (merge rounds with a carried-over sketch) and each of the 7 combinations of cms/hh/hll; S4 = "
        f"{n_whole} whole in-process parallel_add calls (real _fill_queue, monitor loop, merging, return tuple; queue steered by the "
        "harness) over the 7 combinations and n_workers in {1,2,3,5}; Q = 3 schedules whose callback returns sum to a negative number "
        "(outside the property's hypotheses: np.uint64(n_records) raises inside the worker's bare try/except and nothing is added; "
        "only the model's transcription of that guard is compared). Items: 0..3 adds each over the alphabet "
        "{'', NUL, a, a+NUL, ab, b, ff80, NULNUL}, multiplicities 1..5, width 3 x depth 2 count-min, 2x2 heavy hitters, p=7 HyperLogLog. "
        "Predicate on the implementation: HLL registers == sequential sketch; n_added == total multiplicity; n_records == sum of callback "
        "returns (also per worker); C01 sandwich w.r.t. the whole stream (bucket map observed on a probe); hh[k] <= true count and "
        "reported counts in (0, true]; merge order == ((01)(23))4-style tree with every worker sketch used once. Model: the same cases "
        "evaluated by Merging.v / MergingHH.v inside Coq (complete count-min state and complete heavy-hitter table, n_added, n_records "
        "of every worker and of the result, hh[k] over the alphabet and query(k, 1) of the result, HLL registers, tree shape, "
        f"rounds, mergers per round, monitor outcome). Real spawned parallel_add runs: n_workers in {real_ns}, schedule observed through "
        "the callback's (pid, item) side channel, model evaluated on the observed schedule; F2 probe. distinct = distinct (suite, "
        "combination, items, schedule); non-trivial = at least 2 workers.")
    ctx.assumptions += [
        "multiprocessing.Queue delivers every item to exactly one consumer and one pill to each worker (quantified over, not modelled)",
        "in the in-process layers processes are run one after the other by harness/syncctx.py: interleavings inside a merge round "
        "are not explored (the pairs of a round touch disjoint blocks)",
        "shared-memory attachment across processes, spawn, OS scheduling: only the real spawned runs exercise them",
        "count-min multiplicities small enough that no add is cut by the 2^32-1 ceiling (C08_nadded's hypothesis)",
        "callback return values are non-negative and sum to less than 2^64",
    ]
