"""C01 — linear count-min: min(T,cap) <= estimate <= min(cap, row mass) on every history."""
import itertools
import os

import lib
import cms_common as cc

ALLOWED_AXIOMS = frozenset()
MANIFEST = dict(
    category="proof",
    text="Coq theorems C01_lower/C01_upper/C01_exact (and their API-level forms over add/update/add_ngram/"
         "update_ngram/merge/save-load histories): for EVERY row-hash function below width, every history tree of "
         "unbounded size and every non-negative multiplicity, min(T,2^32-1) <= query <= min(2^32-1, row mass), "
         "with equality for a key that is collision-free in some row.  The model (CmsLinear.v) is a branch-for-branch "
         "transcription of _query_linear/_add_linear/_merge_linear/CountMinLinear.add; every run re-executes random and "
         "exhaustive small histories on the real CountMinLinear (merges, real save/load files) and compares the whole "
         "table, n_added and all queries with the model evaluated inside Coq, the bucket map being observed on a probe sketch.",
    design_ref="DESIGN.md section 6, C01",
    note="Trusted: Coq kernel + vm_compute; the hand transcription CmsLinear.v (validated by the correspondence run); "
         "translator for the ceiling constant; Numba/NumPy semantics; uint64 wrap of n_added out of scope. "
         "All theorems closed under the global context.",
    technique="Coq proof by induction over an inductive type of histories (two cell-wise invariants) + vm_compute correspondence")


def run(ctx):
    rng = ctx.rng
    ctx.impl()
    from sketchnu.countmin import CountMinLinear
    tmp = ctx.dir
    quick = ctx.tier == "quick"
    n_random = 700 if quick else 8000
    max_w = 8 if quick else 64
    suite = cc.LinearSuite(ctx, "count-min sandwich violated on the implementation")
    suite.max_hash_cases = 60 if quick else 400

    def pred(i, op, slot, before, after, bm, universe, extra):
        return cc.sandwich_violation(slot.sk, slot.truth, bm, universe, len(before[0]))

    def one_case(width, depth, alphabet, nslots, prog, tag):
        return suite.run_case(width, depth, alphabet, nslots, prog, pred)

    # ---- corpus: everything collides (width 1); multiplicity 2^40; ceiling neighbourhood
    one_case(1, 2, [b"a", b"b", b""], 1, [("add", 0, b"a", 3), ("add", 0, b"b", 2), ("add", 0, b"", 0)], "corpus")
    one_case(2, 1, [b"a", b"b"], 2, [("add", 0, b"a", 2**40), ("add", 1, b"b", cc.CAP - 1), ("merge", 1, 0),
                                     ("add", 1, b"b", 1)], "corpus")
    one_case(3, 2, [b"k", b"k\x00"], 2, [("add", 0, b"k", cc.CAP - 2), ("add", 0, b"k", 1), ("add", 0, b"k", 5),
                                          ("saveload", 0), ("merge", 0, 1)], "corpus")

    # counters exactly on / next to a storage-width boundary go through save/load and merge (a save() that narrows
    # the table loses exactly these; added after seeded change C01_save_narrowest_dtype)
    for v in (255, 256, 257, 65535, 65536, 65537):
        one_case(3, 2, [b"p", b"q"], 2, [("add", 0, b"p", v), ("saveload", 0), ("add", 1, b"q", v // 2), ("add", 1, b"q", v - v // 2),
                                         ("saveload", 1), ("merge", 0, 1), ("saveload", 0)], "corpus")

    # ---- exhaustive sub-space: all 3^L unit-add histories, L <= Lmax, 3-key alphabet, width 2, depth 2
    Lmax = 4 if quick else 7
    abc = [b"x", b"y", b"z"]
    nex = 0
    for L in range(1, Lmax + 1):
        for seq in itertools.product(abc, repeat=L):
            one_case(2, 2, abc, 1, [("add", 0, k, 1) for k in seq], "exh")
            nex += 1
    ctx.cov["exhaustive_subspace"] = f"all {nex} histories of 1..{Lmax} unit adds over a 3-key alphabet at width 2, depth 2"

    # ---- random structured histories
    for _ in range(n_random):
        width = rng.choice([1, 1, 2, 2, 3, 4, 5, 8]) if rng.random() < 0.85 else rng.randint(1, max_w)
        depth = rng.choice([1, 2, 2, 3, 4]) if quick else rng.randint(1, 8)
        alphabet, nslots, prog = cc.gen_program(rng, max_len=25 if quick else 40)
        one_case(width, depth, alphabet, nslots, prog, "rnd")
    ctx.tick("implementation runs + sandwich predicate done")
    suite.finish()
    ctx.tick("model evaluated in Coq")
    ctx.cov["rule"] = ("case = (width, depth, observed bucket map, API-level program over 1..4 sketches: add with "
                       "multiplicities from {0,1,2,3,5,17,1000,cap-2..cap+1,2^40}, update(list|dict), add_ngram, update_ngram, "
                       "merge (<=3, any shape), save/load through a real file); sandwich predicate evaluated on the "
                       "implementation after every step for all keys of the universe; final state of every slot compared with "
                       "the Coq model; distinct = distinct (shape, program); non-trivial = some row has two universe keys in "
                       "one counter, or the program merges")
    ctx.assumptions += ["the row hash may be any function into [0,width): the bucket map is observed, not recomputed",
                        "n_added_records wrap at 2^64 out of scope"]
