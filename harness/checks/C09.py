"""C09 — merging count-min sketches adds the counts cell by cell, as documented."""
import lib
import cms_common as cc

import log_common as _L
import lib as _lib
ALLOWED_AXIOMS = frozenset(set(_L.PRIMITIVES) | set(_lib.AX_FLOAT) | set(_L.AX_UINT63) | set(_lib.AX_REALS))   # kernel primitives are listed under 'Axioms:'; the general float lemmas use the stdlib's FloatAxioms/Uint63 axioms and (via Flocq) the real-number axioms
MANIFEST = dict(
    category="proof",
    text="Coq theorems for any two count-min states with counters in range: linear: merged cell = min(a+b, 2^32-1), "
         "n_added/n_records are the sums, merge is commutative, merging the empty sketch changes nothing, a merged counter "
         "is never below either input, merged estimate >= min(est_a + est_b, 2^32-1).  Log (C09_log_*): exact sum in the "
         "reserved range, maximum counter once the decoded sum reaches max_count, otherwise the counter nearest to the "
         "decoded sum.  Tied to the code by setting counter tables directly on real sketches (values within 2 of the ceiling, "
         "all counter pairs for log8) and comparing merge results, both operands and counters with the model in Coq; general float "
         "lemmas (every table): commutativity, exact sum in the reserved range, and a linear-size table check that implies "
         "never-below-either-input for all pairs (covers log16).",
    design_ref="DESIGN.md section 6, C09",
    note="Trusted: Coq kernel + vm_compute; transcriptions CmsLinear.v / CmsLog.v; the model's merge is a pure function, so "
         "'b unchanged' (also under later operations: no shared state) is observed on the implementation rather than proved; "
         "uint64 wrap of the counters out of scope.  Linear theorems and the reflected grid theorems are closed under the global "
         "context (kernel float primitives are listed by Print Assumptions); C09_log_comm / C09_log_reserved / "
         "C09_log_tables_sound use the standard library's FloatAxioms and Uint63 axioms and, through Flocq's PrimFloat bridge, the "
         "real-number axioms (sig_forall_dec, sig_not_dec, functional_extensionality_dep, classic).  'Nearest' is proved per "
         "configuration by reflection over all counter pairs (exhaustive for log8 configurations), not for every table.",
    technique="Coq proof (cell-wise saturating sum algebra) + vm_compute correspondence on directly assigned tables")


def rows(a):
    return [[int(x) for x in r] for r in a]


def coq_tstate(tab, na, nr):
    return "([" + "; ".join(lib.zlist(r) for r in tab) + f"], {na}, {nr})"


def run(ctx):
    rng = ctx.rng
    ctx.impl()
    import numpy as np
    from sketchnu.countmin import CountMinLinear
    quick = ctx.tier == "quick"
    CAP = cc.CAP
    n = 400 if quick else 5000
    coq_cases = []
    nviol = 0
    vals = [0, 0, 1, 2, 3, 1000, CAP // 2, CAP // 2 + 1, CAP - 3, CAP - 2, CAP - 1, CAP]
    keys = [b"", b"a", b"b", b"\x00", b"key", b"zz"]
    for it in range(n):
        w = rng.choice([1, 2, 3, 5, 8]) if quick else rng.randint(1, 16)
        d = rng.choice([1, 2, 3, 4])
        a, b = CountMinLinear(w, d), CountMinLinear(w, d)
        for s in (a, b):
            mode = rng.random()
            for r in range(d):
                for c in range(w):
                    s.cms[r, c] = rng.choice(vals) if mode < 0.7 else rng.getrandbits(32)
            s.n_added_records[0] = rng.choice([0, 1, 12345, 2**40, 2**62])
            s.n_added_records[1] = rng.choice([0, 3, 2**33])
        if it % 7 == 0:
            b.cms[:] = 0
            b.n_added_records[:] = 0
        ta, tb = rows(a.cms), rows(b.cms)
        na, nb = [int(x) for x in a.n_added_records], [int(x) for x in b.n_added_records]
        qa = {k: int(a.query(k)) for k in keys}
        qb = {k: int(b.query(k)) for k in keys}
        # commutativity on copies
        a2, b2 = CountMinLinear(w, d), CountMinLinear(w, d)
        a2.cms[:] = a.cms; a2.n_added_records[:] = a.n_added_records
        b2.cms[:] = b.cms; b2.n_added_records[:] = b.n_added_records
        a.merge(b)
        b2.merge(a2)
        tm = rows(a.cms)
        nm = [int(x) for x in a.n_added_records]
        bad = None
        if rows(b.cms) != tb or [int(x) for x in b.n_added_records] != nb:
            bad = {"clause": "b unchanged", "b_before": tb, "b_after": rows(b.cms)}
        elif nm != [na[0] + nb[0], na[1] + nb[1]]:
            bad = {"clause": "n_added/n_records are the sums", "a": na, "b": nb, "merged": nm}
        elif rows(b2.cms) != tm:
            bad = {"clause": "commutative", "a.merge(b)": tm, "b.merge(a)": rows(b2.cms)}
        else:
            for r in range(d):
                for c in range(w):
                    if tm[r][c] != min(ta[r][c] + tb[r][c], CAP):
                        bad = {"clause": "cell = min(a+b, 2^32-1)", "row": r, "col": c, "a": ta[r][c], "b": tb[r][c], "merged": tm[r][c]}
            if not bad:
                for k in keys:
                    if int(a.query(k)) < min(qa[k] + qb[k], CAP):
                        bad = {"clause": "merged estimate >= min(est_a+est_b, cap)", "key": list(k), "est_a": qa[k], "est_b": qb[k],
                               "merged": int(a.query(k))}
        if bad and nviol < 3:
            bad.update({"width": w, "depth": d, "a_table": ta, "b_table": tb, "a_counters": na, "b_counters": nb})
            ctx.violation(bad, "linear merge broke a clause of C09")
            nviol += 1
        near = any(x >= CAP - 3 for row in ta + tb for x in row)
        ctx.case_seen((w, d, str(ta), str(tb)), near or it % 7 == 0)
        ctx.count("near-ceiling" if near else "plain")
        coq_cases.append(f"({w}%nat, {d}%nat, {coq_tstate(ta, *na)}, {coq_tstate(tb, *nb)}, {coq_tstate(tm, *nm)})")
    ctx.tick("linear merges on the implementation")
    bad, err = ctx.coq_bad_cases("merge", "Machine Harness CmsLinear CmsLinearHarness", "check_merge_case", coq_cases, shard=100)
    if err:
        ctx.broken.append("correspondence cms-linear-merge could not be evaluated: " + err)
    if bad:
        ctx.broken.append(f"correspondence cms-linear-merge: model differs from the implementation on {len(bad)} merges; first: "
                          f"{coq_cases[sorted(bad)[0]][:800]}")
    ctx.cov["traces_validated_against_impl"] = len(coq_cases)
    ctx.sample(coq_cases[0][:500])
    ctx.tick("linear merges in Coq")
    ctx.cov["rule"] = ("linear: pairs of sketches whose tables and counters are assigned directly: cell values from "
                       "{0,1,2,3,1000,cap/2,cap/2+1,cap-3..cap} or random 32-bit, every 7th pair merges an empty sketch; clauses "
                       "checked on the implementation (b unchanged byte for byte, sums, commutativity on copies, cell rule, estimate "
                       "bound) and the merged state compared with the Coq model; non-trivial = some cell within 3 of the ceiling or "
                       "an empty operand")
    run_log(ctx)


def alias_suite(ctx):
    """b unchanged — also LATER: after a.merge(b) the two sketches must not share state.  Persistent sketches of all
    three count-min classes (receiver or argument possibly empty at merge time); after the merge one of them is
    modified (add / merge with a third) and the other must still equal its snapshot, byte for byte."""
    import numpy as np
    from sketchnu.countmin import CountMinLinear, CountMinLog16, CountMinLog8
    rng = ctx.rng
    nviol = 0
    mks = {"linear": lambda w, d: CountMinLinear(w, d), "log16": lambda w, d: CountMinLog16(w, d, 100000, 3),
           "log8": lambda w, d: CountMinLog8(w, d, 1000, 3)}
    keys = [b"", b"a", b"b", b"\x00", b"key", b"zz", b"q"]

    def snap(s):
        return (np.asarray(s.cms).copy(), s.n_added_records.copy())

    def same(s, sn):
        return np.array_equal(np.asarray(s.cms), sn[0]) and np.array_equal(s.n_added_records, sn[1])
    for it in range(150 if ctx.tier == "quick" else 1500):
        kind = rng.choice(list(mks))
        w, d = rng.choice([1, 2, 4]), rng.choice([1, 2])
        a, b, c = (mks[kind](w, d) for _ in range(3))
        trace = []
        for s, nm in ((a, "a"), (b, "b"), (c, "c")):
            if rng.random() < 0.6:                      # 40%: left empty on purpose
                for _ in range(rng.randint(1, 4)):
                    k, v = rng.choice(keys), rng.choice([1, 2, 3])
                    s.add(k, v)
                    trace.append(["add", nm, list(k), v])
        a.merge(b)
        trace.append(["merge", "a", "b"])
        bad = None
        for step in range(rng.randint(1, 4)):
            tgt, other, tn, on = (a, b, "a", "b") if rng.random() < 0.5 else (b, a, "b", "a")
            sn = snap(other)
            if rng.random() < 0.6:
                k, v = rng.choice(keys), rng.choice([1, 2, 5])
                tgt.add(k, v)
                trace.append(["add", tn, list(k), v])
            else:
                tgt.merge(c)
                trace.append(["merge", tn, "c"])
            if not same(other, sn):
                bad = {"clause": "sketches share state after merge: modifying one changed the other", "modified": tn, "changed": on}
                break
        ctx.case_seen(("alias", kind, w, d, repr(trace)), True)
        ctx.count("alias:" + kind)
        if bad and nviol < 2:
            bad.update({"class": kind, "width": w, "depth": d, "trace": trace})
            ctx.violation(bad, "merge left the two sketches sharing state (b is not left unchanged by later operations on a)")
            nviol += 1
    ctx.tick("aliasing suite (all three count-min classes)")


def run_log(ctx):
    alias_suite(ctx)
    try:
        import log_checks
    except ImportError:
        ctx.notes.append("log-counter part of C09 not wired in yet")
        return
    log_checks.c09(ctx)
