"""C06 — log counters: exact in the reserved range, unbiased beyond it, fresh draws."""
import lib
import log_common as L

ALLOWED_AXIOMS = frozenset(set(L.PRIMITIVES) | set(lib.AX_REALS) | set(lib.AX_FLOAT) | set(L.AX_UINT63))
MANIFEST = dict(
    category="proof",
    text="Coq theorems over the branch-for-branch model CmsLog.v of _rand/_log_counter/_add_log*/_merge_log*: "
         "C06_reserved (c+v <= num_reserved+1: exactly v steps, no draw below num_reserved, for all draws in [0,1)), "
         "C06_reserved_estimate (a key with a row to itself is counted exactly up to num_reserved+1), "
         "C06_unit_increment / C06_cond_expect / C06_expect (real-number law: P(step)*size(step) = 1 for every counter, "
         "hence E[estimate after N adds] = start + N - time spent at the ceiling, exact while N <= umax - c0), "
         "C06_lower (min(truth, num_reserved+1) <= min counter on every history of adds, ngram adds, merges, save/load, "
         "for every draw stream; C06_lower_float removes the condition on the merge rule by one evaluation on the decode table), "
         "C06_rand_stream (n calls of _rand return the next n unconsumed values in order; nothing "
         "skipped or reread; pointer in 1..2048; stated over the batch constants re-read from the source). Tied to the "
         "code by driving the real CountMinLog8/CountMinLog16: every counter value x configuration grid x draws placed "
         "one ulp around base**-(c-nr) written into rand_nums, refills across the batch boundary with Numba's generator "
         "seeded, and random histories with controlled draws, all compared state-for-state with the model inside Coq.",
    design_ref="DESIGN.md section 6, C06 (and 3.4 for the float tables)",
    note="Trusted: Coq kernel + vm_compute incl. primitive floats/ints (listed by Print Assumptions as primitives, not "
         "axioms of this development); the real-number theorems use the standard library's real axioms "
         "(sig_forall_dec, functional_extensionality_dep); libm pow enters only as the two tables read from the "
         "implementation, whose conditions (powneg 0 = 1, monotone, decode c = c on 0..nr+1, recurrences to 2^-45 "
         "in exact arithmetic) are checked by computation on every tested configuration; np.random uniformity is "
         "not shown; C06_lower's merge clause is conditional on merge_lower_ok, discharged (i) per log8 configuration by "
         "evaluating all 65536 counter pairs and (ii) for any configuration, log16 included, by C06_lower_float from the "
         "boolean float_tables_ok_b evaluated on the table of every tested configuration; that theorem reasons about "
         "binary64 results and uses the standard library's FloatAxioms (add/sub/div/leb/ltb/eqb/of_uint63 specifications, "
         "Prim2SF_valid, SF2Prim_Prim2SF, Prim2SF_SF2Prim), the Uint63 specification axioms and Flocq 4.1 (real axioms, "
         "Classical_Prop.classic).",
    technique="Coq proof over a hand transcription + vm_compute correspondence against the Numba kernels with controlled draws")


def windows(key, n):
    if len(key) <= n:
        return [key]
    return [key[i:i + n] for i in range(len(key) - n + 1)]


def op_keys(op):
    """(key, multiplicity) pairs an op adds, in order"""
    k = op.kind
    if k == "add":
        return [(op.key, op.v)]
    if k == "add1":
        return [(op.key, 1)]
    if k == "ngram":
        return [(w, 1) for w in windows(op.key, op.n)]
    if k == "upd_list":
        return [(x, 1) for x in op.keys]
    if k == "upd_dict":
        return list(op.items)
    if k == "upd_ngram":
        return [(w, 1) for x in op.keys for w in windows(x, op.n)]
    return []


# ------------------------------------------------------------------------------------------------
def exact_pow_intervals(cfg, S=256):
    """lo[i] <= base**i * 2^S <= hi[i] for i = 0..umax-nr, exact integer arithmetic (outward rounding)."""
    from fractions import Fraction
    b = Fraction(cfg.base)
    num, den = b.numerator, b.denominator
    k = den.bit_length() - 1
    assert den == 1 << k
    n = cfg.umax - cfg.nr + 1
    lo = [0] * n
    hi = [0] * n
    lo[0] = hi[0] = 1 << S
    for i in range(1, n):
        lo[i] = (lo[i - 1] * num) >> k
        hi[i] = -((-hi[i - 1] * num) >> k)
    return lo, hi


def step_grid(ctx, cfg, counters, rows_out, S=256, TOL=45):
    """one add(key,1) on a 1x1 sketch holding c, for five draws around t = base**-(c-nr)."""
    from fractions import Fraction
    sk = cfg.new(1, 1)
    key = b"k"
    nr, umax = cfg.nr, cfg.umax
    lo, hi = exact_pow_intervals(cfg, S)
    L.set_rand(sk, [])
    n_added = int(sk.n_added())
    amb = 0
    nviol = 0
    for c in counters:
        drawing = nr <= c < umax
        t = cfg.powneg[c - nr] if drawing else 0.5
        tm, _, tp = L.ulp_neighbours(t)
        draws = [0.0] + [d if d < 1.0 else 0.5 for d in (tm, t, tp)] + [L.ONE_MINUS]
        dmask = pmask = 0
        if drawing:
            i = c - nr
            ft = Fraction(t)
            # the table entry is base**-c' to 2^-TOL relative (exact arithmetic)
            if not (ft.numerator * hi[i] * (1 << TOL) <= ((1 << TOL) + 1) * ft.denominator << S and
                    ft.numerator * lo[i] * (1 << TOL) >= ((1 << TOL) - 1) * ft.denominator << S):
                ctx.violation({"config": cfg.key(), "base": cfg.base.hex(), "counter": c, "powneg": t.hex()},
                              "base**(-c') computed by the implementation is not within 2^-45 of the exact power")
                nviol += 1
        for j, d in enumerate(draws):
            sk.cms[0, 0] = c
            sk.rand_nums[0] = d
            sk.rand_ptr = 0
            sk.add(key, 1)
            new = int(sk.cms[0, 0])
            ptr = int(sk.rand_ptr)
            n_added += 1
            ctx.case_seen((cfg.key(), c, j), drawing)
            ok = True
            what = None
            if new - c not in (0, 1) or ptr not in (0, 1):
                ok, what = False, "counter moved by more than one step or pointer left 0..1"
            elif c >= umax:
                if new != c or ptr != 0:
                    ok, what = False, "counter at the ceiling changed or consumed a draw"
            elif c < nr:
                if new != c + 1 or ptr != 0:
                    ok, what = False, "reserved range: counter did not advance by exactly 1 without a draw"
            else:
                if ptr != 1:
                    ok, what = False, "log range: exactly one draw must be consumed"
                elif c == nr and new != c + 1:
                    ok, what = False, "at num_reserved the test rand < base**0 must succeed for every draw in [0,1)"
                else:
                    i = c - nr
                    fd = Fraction(d)
                    dn, dd = fd.numerator, fd.denominator
                    must_inc = dn * hi[i] * ((1 << TOL) + 1) < (dd << (S + TOL))
                    must_not = dn * lo[i] * ((1 << TOL) - 1) >= (dd << (S + TOL))
                    if must_inc and new != c + 1:
                        ok, what = False, "draw below base**-(c-nr) (exact arithmetic) did not advance the counter"
                    elif must_not and new != c:
                        ok, what = False, "draw above base**-(c-nr) (exact arithmetic) advanced the counter"
                    elif not must_inc and not must_not:
                        amb += 1
                    # against the implementation's own table entry the decision is exact
                    if ok and (new == c + 1) != (d < t):
                        ok, what = False, "decision differs from rand < pow(base, -c') evaluated with the same libm"
            if int(sk.n_added()) != n_added:
                ok, what = False, "n_added did not grow by exactly 1"
                n_added = int(sk.n_added())
            if not ok and nviol < 3:
                ctx.violation({"config": cfg.key(), "base": cfg.base.hex(), "counter": c, "draw": d.hex(),
                               "new_counter": new, "rand_ptr": ptr, "powneg": t.hex()}, what)
                nviol += 1
            dmask |= (new - c) << j if new - c in (0, 1) else 0
            pmask |= (ptr & 1) << j
        rows_out.append(f"({nr}, {umax}, ({c}, {L.fhex(t)}, {dmask}, {pmask}))")
    ctx.count("step-ambiguous-within-2^-45", amb)
    return nviol


# ------------------------------------------------------------------------------------------------
def refill_run(ctx, cfg, seed, p0, k):
    """2048 - p0 + k single adds across the batch boundary; returns (coq case, ok)."""
    rng = ctx.rng
    np = L.kernels().np
    nr, umax = cfg.nr, cfg.umax
    c = min(nr + max(1, (umax - nr) // 3), umax - 1)
    t = cfg.powneg[c - nr]
    # spread the old batch around t so that both outcomes occur
    old = [min(max(t * rng.uniform(0.2, 1.8), 0.0), L.ONE_MINUS) if rng.random() < 0.8 else rng.random()
           for _ in range(L.BATCH)]
    L.seed_numba(seed)
    pred = L.numba_rand(L.BATCH)
    L.seed_numba(seed)
    sk = cfg.new(1, 1)
    key = b"r"
    ops = [L.Op("set_rand", vals=old, pre=0, ptr=p0)]
    n = L.BATCH - p0 + k
    for _ in range(n):
        ops.append(L.Op("set_table", rows=[[c]]))
        ops.append(L.Op("add", key=key, v=1))
    arr = sk.rand_nums
    snaps = L.run_ops(sk, ops)
    new = [float(x) for x in sk.rand_nums]
    ok = True

    def bad(what, **kw):
        nonlocal ok
        if ok:
            ctx.violation(dict(config=cfg.key(), seed=seed, ptr0=p0, extra=k, counter=c, **kw), what)
        ok = False
    if sk.rand_nums is not arr:
        bad("rand_nums was rebound instead of refilled in place")
    stream = old[p0:] + new[:k]
    for i in range(n):
        rows, na, _, ptr = snaps[2 + 2 * i]
        exp_ptr = p0 + i + 1 if i < L.BATCH - p0 else i - (L.BATCH - p0) + 1
        if ptr != exp_ptr:
            bad("rand_ptr sequence broken", step=i, rand_ptr=ptr, expected=exp_ptr)
            break
        if (rows[0][0] == c + 1) != (stream[i] < t):
            bad("value consumed at this call is not the next unconsumed draw of the stream", step=i,
                draw=stream[i].hex(), powneg=t.hex(), new_counter=rows[0][0])
            break
        ctx.case_seen(("refill", cfg.key(), seed, p0, i), True)
    if k > 0:
        if new == old:
            bad("batch was recycled: rand_nums unchanged after exhaustion")
        if new != pred:
            bad("refilled batch is not the next 2048 values of Numba's seeded generator")
        if not all(0.0 <= x < 1.0 for x in new):
            bad("refilled batch leaves [0,1)")
        if len(ops[0].fut) != 1:
            bad("number of refills differs from one", refills=len(ops[0].fut))
    case = L.hist_case(1, 1, {key: [0]}, ops, snaps)
    return case, ok, dict(config=cfg.key(), seed=seed, ptr0=p0, extra=k)


# ------------------------------------------------------------------------------------------------
def run_history(ctx, cfg, width, depth, keys, ops, merge_free, truth0=None):
    """Run ops on a fresh sketch; evaluate the C06 predicates after every op.
    Returns (sketch, coq case, truth, json replay, ok)."""
    from collections import Counter
    nr, umax = cfg.nr, cfg.umax
    allkeys = list(dict.fromkeys(list(keys) + [k for o in ops for k, _ in op_keys(o)]))
    bmap = L.probe_buckets(cfg, width, depth, allkeys)
    sk = cfg.new(width, depth)
    truth = Counter()
    total = 0
    mf = True
    tainted = False          # set_table breaks the bookkeeping of true counts
    ok = True
    runner = L.Runner(sk)
    snaps = runner.snaps
    # which keys own some (row, column) alone
    owners = {}
    for k in allkeys:
        for r in range(depth):
            owners.setdefault((r, bmap[k][r]), set()).add(k)
    alone = {k for k in allkeys if any(len(owners[(r, bmap[k][r])]) == 1 for r in range(depth))}
    for idx, op in enumerate(ops):
        if op.kind == "merge":
            other_before = L.snapshot(op.other)
        before = L.snapshot(sk)
        runner.step(op)
        # fresh draws, never recycled: a single unit step consumes exactly one draw iff the key's smallest counter is
        # in the probabilistic range [num_reserved, umax) - whatever entry point performs it
        single = (op.kind == "add1" or (op.kind == "add" and op.v == 1)
                  or (op.kind == "ngram" and len(op.key) <= op.n))
        if single and not tainted:
            cb = min(before[0][r][bmap[op.key][r]] for r in range(depth))
            want = 1 if nr <= cb < umax else 0
            got = 0 if snaps[-1][3] == before[3] else 1
            if got != want and ok:
                ok = False
                ctx.violation({"config": cfg.key(), "width": width, "depth": depth, "ops": [o.json() for o in ops[:idx + 1]],
                               "counter_before": cb, "rand_ptr_before": before[3], "rand_ptr_after": snaps[-1][3]},
                              "a unit step in the probabilistic range did not consume exactly one fresh draw "
                              "(rand_ptr not advanced: the draw will be reused)" if want else
                              "a unit step in the deterministic range consumed a draw")
        for k, v in op_keys(op):
            truth[k] += v
            total += v
        if op.kind == "merge":
            mf = False
            truth.update(op.other_truth)
            total += op.other_total
            if L.snapshot(op.other)[:3] != other_before[:3]:
                ok = False
                ctx.violation({"config": cfg.key(), "ops": [o.json() for o in ops[:idx + 1]]},
                              "merge modified its argument")
        if op.kind == "set_table":
            tainted = True
        rows, na, nrec, ptr = snaps[-1]
        if not 0 <= ptr <= L.BATCH:
            if ok:
                ctx.violation({"config": cfg.key(), "ops": [o.json() for o in ops[:idx + 1]], "rand_ptr": ptr},
                              "rand_ptr left 0..2048")
            ok = False
        if not tainted and na != total % 2 ** 64 and ok:
            ok = False
            ctx.violation({"config": cfg.key(), "width": width, "depth": depth,
                           "ops": [o.json() for o in ops[:idx + 1]], "n_added": na, "expected": total},
                          "n_added is not the sum of the multiplicities")
        ctx.count("op:" + op.kind)
        if tainted:
            continue
        for k in allkeys:
            cnt = min(rows[r][bmap[k][r]] for r in range(depth))
            est = float(sk.query(k))
            if est != cfg.decode[cnt] or float(sk[k]) != est:
                if ok:
                    ctx.violation({"config": cfg.key(), "ops": [o.json() for o in ops[:idx + 1]], "key": list(k),
                                   "counter": cnt, "query": est}, "query() is not the decoded minimum counter")
                ok = False
            if cnt < min(truth[k], nr + 1):
                if ok:
                    ctx.violation({"config": cfg.key(), "width": width, "depth": depth, "key": list(k),
                                   "ops": [o.json() for o in ops[:idx + 1]], "counter": cnt, "true_count": truth[k]},
                                  "estimate below min(true count, num_reserved + 1)")
                ok = False
            if mf and k in alone and truth[k] <= nr + 1 and (cnt != truth[k] or est != float(truth[k])):
                if ok:
                    ctx.violation({"config": cfg.key(), "width": width, "depth": depth, "key": list(k),
                                   "ops": [o.json() for o in ops[:idx + 1]], "counter": cnt, "true_count": truth[k],
                                   "query": est},
                                  "collision-free key not counted exactly inside the reserved range")
                ok = False
        ctx.case_seen(("hist", cfg.key(), width, depth, idx, repr(op.json())), op.kind != "set_rand")
    case = L.hist_case(width, depth, bmap, ops, snaps)
    return sk, case, truth, total, ok


def table_cases(cfg, grid):
    """Coq boolean conditions on the tables of one configuration (DESIGN 3.4), as `inl i` cases"""
    return [f"(inl {i})" for i in range(9 if grid else 8)]


def table_check_fn(cfg, sample=False):
    """sample: evaluate the exact-arithmetic recurrences inside Coq on every 16th counter plus the first
    300 only (log16, quick tier; python checks all of them with fractions.Fraction in both tiers)"""
    nr, umax, mc = cfg.nr, cfg.umax, cfg.max_count
    w = L.KINDS[cfg.kind]["wrap"]
    b = L.fhex(cfg.base)
    n = umax - nr
    if sample:
        pcs = f"(zrange 0 (Z.min 300 {n}) ++ map (fun i => i * 16) (zrange 0 ({n} / 16)))%list"
        dcs = f"(zrange {nr} (Z.min 300 {n}) ++ map (fun i => {nr} + i * 16) (zrange 0 ({n} / 16)))%list"
    else:
        pcs, dcs = f"(zrange 0 {n})", f"(zrange {nr} {n})"
    return ("(fun i : Z => match i with "
            f"| 0 => f_eqb (pn 0) f_one | 1 => decode_reserved_b {nr} dc | 2 => decode_increasing_b {umax} dc "
            f"| 3 => powneg_ok_b {nr} {umax} pn "
            f"| 4 => powneg_recurrence_b 45 {b} pn {pcs} "
            f"| 5 => decode_recurrence_b 45 {nr} {b} dc {dcs} "
            f"| 6 => let cs := (zrange 0 (Z.min 300 ({umax} - {nr})) ++ map (fun i => i * 61) (zrange 0 (({umax} - {nr}) / 61)))%list in "
            f"f2me_agree_b pn cs && f2me_agree_b dc cs && dy_eqb (f2me {b}) (f2me_spec {b}) "
            f"| 7 => float_tables_ok_b {nr} {umax} {mc} dc && float_tables_empty_ok_b {nr} {umax} {mc} dc "
            f"| _ => merge_grid_b {nr} {umax} {mc} dc {w} end)")


def run(ctx):
    quick = ctx.tier == "quick"
    ctx.level = "proof"
    ctx.impl()
    K = L.kernels()
    rng = ctx.rng
    ctx.tick("imported, helpers jitted")

    # the batch size of the harness is the one in the source
    consts = getattr(ctx, "consts", {}) or {}
    for name in ("rand_batch_cmp", "rand_batch_gen", "log8_rand_batch_init", "log16_rand_batch_init"):
        if name in consts and consts[name] != L.BATCH:
            ctx.broken.append(f"batch constant {name} = {consts[name]} differs from the harness batch size {L.BATCH}")

    cfgs = {}
    for kind in ("log8", "log16"):
        ok, rejected = L.configs(kind, ctx.tier)
        cfgs[kind] = ok
        for mc, nr, msg in rejected:
            ctx.count("config-rejected-by-constructor")
    ctx.tick("configurations constructed")
    hist_cfgs = cfgs["log8"][:6 if quick else None] + cfgs["log16"][:2 if quick else None]
    # the log16 table modules compile (7 s each) while python works
    from concurrent.futures import ThreadPoolExecutor
    tab_pool = ThreadPoolExecutor(max_workers=1)
    tab_future = tab_pool.submit(L.compile_tables, ctx, [c for c in hist_cfgs if c.kind == "log16"])

    # ---------------------------------------------------------------- tables in exact arithmetic (python)
    for kind in ("log8", "log16"):
        for cfg in cfgs[kind]:
            cs = None
            if quick and kind == "log16":
                cs = sorted(set(range(0, 65536, 5)) | set(range(cfg.nr, min(cfg.nr + 400, 65535))) | set(range(65200, 65536)))
            bad = L.check_tables_exact(cfg, 45, counters=cs)
            if bad:
                ctx.violation({"config": cfg.key(), "base": cfg.base.hex(), "failed": bad[:6]},
                              "pow/decode table of the implementation violates a condition of the model: " + bad[0])
    ctx.tick("tables checked in exact rational arithmetic")

    # ---------------------------------------------------------------- A. single-step grid
    rows = {"log8": [], "log16": []}
    for cfg in cfgs["log8"]:
        step_grid(ctx, cfg, range(0, 256), rows["log8"])
    for cfg in cfgs["log16"]:
        nr, umax = cfg.nr, cfg.umax
        if quick:
            cs = set(range(0, umax + 1, 33)) | {0, 1, 2, umax - 2, umax - 1, umax}
            cs |= {c for c in range(nr - 3, nr + 6) if 0 <= c <= umax}
            cs |= {rng.randrange(0, umax + 1) for _ in range(200)}
            cs = sorted(cs)
        else:
            cs = range(0, umax + 1)
        step_grid(ctx, cfg, cs, rows["log16"])
    ctx.tick(f"step grid on the implementation: {len(rows['log8'])} + {len(rows['log16'])} counter rows x 5 draws")

    # ---------------------------------------------------------------- B. refills
    refill_cases = []
    plan = [("log8", 0, 11, 2040, 9), ("log16", 0, 12, 2046, 5), ("log8", 1, 13, 2047, 3), ("log8", 2, 14, 2048, 4)]
    plan.append(("log8", 0, 21, 0, 6))              # a complete batch and across
    if not quick:
        plan += [("log16", 1, 15, 0, 40), ("log16", 0, 16, 1000, 2048 + 7 - 1048), ("log8", 3, 17, 1, 1)]
    for kind, ci, seed, p0, k in plan:
        cfg = cfgs[kind][ci % len(cfgs[kind])]
        case, ok, info = refill_run(ctx, cfg, seed, p0, k)
        refill_cases.append((cfg, case, info))
        ctx.count("refill-run")
    ctx.tick("refill runs on the implementation")

    # ---------------------------------------------------------------- C. random histories
    hist = {}          # cfg.key() -> list of (case, replay info)
    nh = (24 if quick else 80)
    for cfg in hist_cfgs:
        lst = hist.setdefault(cfg.key(), [])
        for i in range(nh if cfg.kind == "log8" else max(3, nh // 2)):
            width = rng.choice([1, 2, 2, 3, 4, 8] if quick else [1, 2, 3, 4, 8, 16])
            depth = rng.choice([1, 2, 3])
            keys = L.gen_keys(rng, rng.randrange(3, 7))
            others = []
            for _ in range(rng.choice([0, 1, 2])):
                oops = L.gen_history(rng, cfg, keys, width, depth, rng.randrange(2, 8))
                osk, ocase, otruth, ototal, _ = run_history(ctx, cfg, width, depth, keys, oops, True)
                osk.other_truth, osk.other_total = otruth, ototal
                lst.append((ocase, {"ops": [o.json() for o in oops], "width": width, "depth": depth}))
                others.append(osk)
            ops = L.gen_history(rng, cfg, keys, width, depth, rng.randrange(6, 22), others=others,
                                allow_set_table=(i % 4 == 3))
            for o in ops:
                if o.kind == "merge":
                    o.other_truth, o.other_total = o.other.other_truth, o.other.other_total
            _, case, _, _, _ = run_history(ctx, cfg, width, depth, keys, ops, True)
            lst.append((case, {"ops": [o.json() for o in ops], "width": width, "depth": depth}))
    ctx.cov["traces_validated_against_impl"] = sum(len(v) for v in hist.values()) + len(refill_cases)
    ctx.tick("random histories on the implementation")
    tabmods = tab_future.result()
    tab_pool.shutdown()
    if ctx.violations:
        return                                     # a predicate failed on the real code: report that

    # ---------------------------------------------------------------- the same in Coq
    imports = "Machine Consts Harness Ngram CmsLog"
    jobs = []          # (tag, check_fn, cases, shard, prelude, describe)
    for kind in ("log8", "log16"):
        w = L.KINDS[kind]["wrap"]
        fn = f"fun x : Z * Z * (Z * float * Z * Z) => let '(nr, umax, row) := x in step_row_ok nr umax {w} row"
        jobs.append((f"step_{kind}", fn, rows[kind], 3000 if quick else 8192, "", None))
    # self-test of the comparison: rows whose recorded outcome is deliberately falsified must all be flagged
    import re as _re
    falsified = []
    for r in rows["log8"][16:400:64]:
        m = _re.match(r"^(.*), (\d+), (\d+)\)\)$", r)
        falsified.append(f"{m.group(1)}, {int(m.group(2)) ^ 4}, {m.group(3)}))")
        falsified.append(f"{m.group(1)}, {m.group(2)}, {int(m.group(3)) ^ 1}))")
    jobs.append(("selftest", "fun x : Z * Z * (Z * float * Z * Z) => let '(nr, umax, row) := x in "
                 "step_row_ok nr umax wrap8 row", falsified, 100, "", "selftest"))
    # tables: log8 inline, log16 compiled once per configuration
    for ci, cfg in enumerate(hist_cfgs):
        prelude = L.coq_table_prelude(cfg, tabmods.get(cfg.key()))
        grid = cfg.kind == "log8" and (ci < 3 or not quick)
        w = L.KINDS[cfg.kind]["wrap"]
        fn = ("fun x : Z + (Z * Z * list (key * list Z) * list lop * list (list (list Z) * Z * Z * Z)) => "
              f"match x with inl i => {table_check_fn(cfg, sample=(quick and cfg.kind == 'log16'))} i "
              f"| inr c => hist_case_ok {cfg.nr} {cfg.umax} {cfg.max_count} pn dc {w} c end")
        cases = table_cases(cfg, grid) + ["(@inr Z _ " + c + ")" for c, _ in hist[cfg.key()]]
        extra = [rc for rc in refill_cases if rc[0] is cfg]
        cases += ["(@inr Z _ " + c + ")" for _, c, _ in extra]
        jobs.append((f"hist_{cfg.kind}_{ci}", fn, cases, 40, prelude, (cfg, len(table_cases(cfg, grid)), extra)))
    # refill cases of configurations outside hist_cfgs
    for cfg, case, info in refill_cases:
        if cfg not in hist_cfgs:
            ctx.broken.append("refill case for a configuration without tables")      # cannot happen by construction

    ncoq = 0
    results = L.coq_jobs(ctx, imports, [(tag, fn, cases, shard, prelude) for tag, fn, cases, shard, prelude, _ in jobs])
    for tag, fn, cases, shard, prelude, desc in jobs:
        bad, err = results[tag]
        ncoq += len(cases)
        if desc == "selftest":
            if err or len(bad) != len(cases):
                ctx.broken.append(f"self-test: {len(cases) - len(bad)} of {len(cases)} falsified step rows were not "
                                  f"flagged by the Coq comparison ({err})")
            ctx.cov["selftest_falsified_rows_flagged"] = len(bad)
            continue
        if err:
            ctx.broken.append(f"correspondence {tag} could not be evaluated: {err[:500]}")
        for b in sorted(bad)[:3]:
            if desc is None:
                ctx.broken.append(f"correspondence cms-log step ({tag}): model and implementation differ on "
                                  f"(nr, umax, (counter, powneg, moved-mask, ptr-mask)) = {cases[b][:200]}")
            else:
                cfg, ntab, extra = desc
                if b < ntab:
                    names = ["powneg 0 = 1.0", "decode c = c on 0..nr+1", "decode strictly increasing",
                             "powneg strictly decreasing and positive", "powneg recurrence within 2^-45",
                             "decode recurrence within 2^-45 of value + b^c'/(b-1)",
                             "fast exact decoding of floats agrees with the standard library's Prim2SF",
                             "float_tables_ok_b / float_tables_empty_ok_b (premise of C06_lower_float, C09_log_*_float)",
                             "merge grid (ge/range/lower/comm/reserved/empty)"]
                    ctx.broken.append(f"table condition '{names[b]}' fails inside Coq for configuration {cfg.key()}")
                else:
                    ctx.broken.append(f"correspondence cms-log history ({tag}): model and implementation differ on case "
                                      f"{b - ntab} of configuration {cfg.key()}: {cases[b][:600]}")
    ctx.cov["model_cases_evaluated_in_coq"] = ncoq
    ctx.tick("model evaluated in Coq")

    ctx.sample({"step_row": rows["log8"][300] if len(rows["log8"]) > 300 else None})
    ctx.cov["rule"] = (
        "step grid: for every configuration of the (max_count, num_reserved) grid accepted by the constructor, every counter "
        "value 0..255 (log8) / a stride-33 sample plus the boundaries 0,1,2,nr-3..nr+5,umax-2..umax plus 200 random (log16 "
        "quick; all 65536 in thorough), five draws {0, t-ulp, t, t+ulp, 1-2^-53} around t = base**-(c-nr) [exhaustive over "
        "counter values for log8]; refills: runs of single adds across the 2048 boundary with Numba's generator seeded; "
        "histories: random op lists (add with multiplicities incl. 0 and 2^40, add_ngram, update list/dict, update_ngram, "
        "merge with independently built sketches, set_table near the ceiling) on widths 1..8(16), depths 1..3, 3-6 colliding "
        "keys, draws written into rand_nums from the decision boundaries; distinct = distinct (config, counter, draw slot) or "
        "(config, shape, op index, op); non-trivial = the step consumes a draw / the op is not a harness set_rand")
    ctx.cov["exhaustive"] = False
    ctx.assumptions += [
        "Numba compiles _rand/_log_counter/_add_log*/_merge_log* as written; base ** x in the jitted helper is the same "
        "libm/LLVM pow as in the kernels (checked: draws one ulp either side of the table entry flip the decision)",
        "np.random.rand inside Numba is uniform on [0,1) and independent (only range, freshness and seed-reproducibility "
        "are observed)",
        "the bucket map is observed per key on a probe sketch (C06 holds for every bucket function)",
        "n_added is compared modulo 2^64 (the kernel's uint64); the model keeps it unbounded",
    ]
