"""C17 — query() is the documented HyperLogLog++ estimator of the registers."""
import math

import lib
import hllq_common as hq

ALLOWED_AXIOMS = frozenset(set(hq.PRIMITIVES) | {"FloatAxioms.ltb_spec", "FloatAxioms.leb_spec"})
MANIFEST = dict(
    category="proof",
    text="Coq theorems over a PrimFloat model of _query/_linear_counting/_estimation_function/np.interp whose constants "
         "and tables are re-read from the source on every run: C17_regime_spec (the branch taken, with the strictness of "
         "`>`/`<=` and the literals 0 and 5 pinned), C17_query_by_regime, C17_alpha (0.7213, 1.079 are the nearest binary64 "
         "numbers, formula and operation order), C17_tables_shape / C17_raw_increasing / C17_begin_at_threshold (by computation "
         "over the ten shipped rows: strictly increasing, threshold <= raw[0]-bias[0] <= threshold+2^-36, 5m <= raw[199] <= "
         "5m+m/256+1), C17_interp_spec (clamping and the two-point form for strictly increasing knots).  Tied to the code by "
         "assigning registers[:] on real HyperLogLog objects (p 7..16; arrays reached from real key sets at loads 0.01..100, "
         "uniform / all-maximum / single-zero / order-sensitive arrays, arrays tuned to sit on each side of threshold[p] and "
         "of 5m) and comparing query() with the model evaluated inside Coq (1e-9 relative, same regime; bit-exact for alpha, "
         "the table rows and np.interp), and with an independent Python oracle of the documented estimator.",
    design_ref="DESIGN.md section 6, C17",
    note="Trusted: Coq kernel + vm_compute incl. the kernel's PrimFloat/Uint63 primitives (Print Assumptions lists the "
         "primitives used; they are not logical axioms); translator for constants/tables (cross-checked bit for bit against "
         "the arrays the live objects hold); the hand transcription HllQuery.v. np.log is replaced in the model by a PrimFloat "
         "logarithm (agreement with np.log checked to 1e-13 relative on every m/n_zero used); np.interp's search strategy is "
         "abstracted to `first segment containing x` (equal for sorted knots, which C17_raw_increasing proves). "
         "C17_interp_spec uses the stdlib axioms FloatAxioms.ltb_spec and FloatAxioms.leb_spec (specification of the binary64 "
         "comparisons); every other theorem only computes. Not shown: that the bias numbers are the right ones.",
    technique="Coq proof (branch structure, alpha, interpolation, table facts by computation) + vm_compute correspondence "
              "against the Numba code + independent oracle")

LOADS = [0.01, 0.03, 0.1, 0.3, 0.6, 1.0, 1.5, 2.0, 3.0, 5.0, 8.0, 20.0, 100.0]


# ------------------------------------------------------------------------------------------------ generators
def real_registers(ctx, np, HyperLogLog, p, n, seed):
    """registers reached by adding n random keys of varied length through the public API"""
    h = HyperLogLog(p, seed)
    rng = ctx.rng
    if n <= 40000:
        keys = [rng.randbytes(rng.randrange(1, 24)) for _ in range(n)]
        h.update(keys)
    else:
        L = rng.randrange(8, 17)
        g = np.random.default_rng(rng.getrandbits(64))
        buf = g.integers(0, 256, n + L - 1, dtype=np.uint8).tobytes()
        h.add_ngram(buf, L)          # the n windows of a random byte string
    return h.registers.copy(), float(h.query())


def synth_registers(np, g, p, load):
    """register file with the distribution n = load*m random keys would give (max of geometric ranks)"""
    m = 1 << p
    c = g.poisson(load, m)
    u = g.random(m)
    with np.errstate(divide="ignore", invalid="ignore"):
        r = np.ceil(-np.log2(-np.expm1(np.log(u) / np.maximum(c, 1))))
    r = np.where(c == 0, 0, np.clip(r, 1, 64 - p + 1))
    return r.astype(np.uint8)


def tune_lc(T, p):
    """V* = least number of zero registers for which linear counting does not exceed threshold[p]"""
    m = 1 << p
    thr = T.threshold[p - 7]
    lo, hi = 1, m                    # lc(lo) > thr >= lc(hi) = 0
    while hi - lo > 1:
        mid = (lo + hi) // 2
        if m * math.log(m / mid) <= thr:
            hi = mid
        else:
            lo = mid
    return hi


def raw_of_counts(p, counts):
    m = 1 << p
    total = 0.0
    for r in sorted(counts):
        for _ in range(counts[r]):
            total += hq.POW2NEG[r]
    return (0.7213 / (1.0 + 1.079 / m)) * float(m * m) / total


def tune_5m(p):
    """two register files without zero registers whose raw estimates sit just above / just below 5m
    (difference 2^-36 in the sum): ranks 2 and 3 plus single registers of rank 4..36"""
    m = 1 << p
    lo, hi = 0, m                    # k registers of rank 3, m-k of rank 2; raw grows with k
    while hi - lo > 1:
        mid = (lo + hi) // 2
        if raw_of_counts(p, {2: m - mid, 3: mid}) > 5 * m:
            hi = mid
        else:
            lo = mid
    counts = {2: m - hi, 3: hi}
    below = None
    for j in range(4, 37):
        if counts[3] < 2:
            break
        trial = dict(counts)
        trial[3] -= 2
        trial[2] += 1
        trial[j] = trial.get(j, 0) + 1          # net effect on the sum: + 2^-j
        if raw_of_counts(p, trial) > 5 * m:
            counts = trial
        else:
            below = trial
    return counts, below


def counts_to_array(np, counts):
    return np.concatenate([np.full(c, r, np.uint8) for r, c in sorted(counts.items()) if c > 0])


def gen_arrays(ctx, np, HyperLogLog, T, ps, per_p, unsorted_max_p, real_seeds):
    """list of (p, kind, uint8 array, live_estimate or None)"""
    out = []
    g = np.random.default_rng(ctx.rng.getrandbits(64))
    for p in ps:
        m = 1 << p
        mine = []
        maxr = 64 - p + 1
        for s in range(real_seeds):
            for load in LOADS:
                n = max(1, int(round(load * m)))
                seed = 0 if s == 0 else ctx.rng.getrandbits(64)
                arr, live = real_registers(ctx, np, HyperLogLog, p, n, seed)
                if p <= unsorted_max_p:
                    mine.append(("real-unsorted load=%g" % load, arr, live))
                mine.append(("real-sorted load=%g" % load, np.sort(arr), None))
        for c in [0, 1, 2, 3, 4, 5, 6, maxr, 255]:
            mine.append(("uniform %d" % c, np.full(m, c, np.uint8), None))
        for c in [1, 3, maxr]:
            a = np.full(m, c, np.uint8)
            a[0] = 0
            mine.append(("single-zero rest=%d" % c, a, None))
        a = np.sort(g.integers(1, 5, m).astype(np.uint8))
        a[0] = 0
        mine.append(("single-zero rest=random", a, None))
        a = np.full(m, 40, np.uint8)
        a[m - 1] = 0
        mine.append(("single-zero-last rest=40", a, None))
        # linear counting just below / just above threshold[p]
        vstar = tune_lc(T, p)
        for V in (vstar, vstar - 1):
            for fill in ("ones", "random"):
                a = np.ones(m, np.uint8) if fill == "ones" else np.sort(g.integers(1, 5, m).astype(np.uint8))
                a[:V] = 0
                mine.append(("lc-boundary V=%d %s" % (V, fill), a, None))
        # raw estimate on each side of 5m
        above, below = tune_5m(p)
        for nm, cnt in (("above", above), ("below", below)):
            if cnt is not None:
                a = counts_to_array(np, cnt)
                mine.append(("5m-boundary " + nm, a, None))
                mine.append(("5m-boundary " + nm + " reversed", a[::-1].copy(), None))
        # summation-order sensitive arrays (the float sum of 2^-r is inexact for these)
        h = m // 2
        mine.append(("order big-first", np.concatenate([np.full(h, 1, np.uint8), np.full(m - h, 55, np.uint8)]), None))
        mine.append(("order small-first", np.concatenate([np.full(m - h, 55, np.uint8), np.full(h, 1, np.uint8)]), None))
        if p <= 8:
            a = np.tile(np.array([1, 54, 2, 57], np.uint8), m // 4)
        else:                                     # same pattern in 16 blocks (keeps the run-length encoding short)
            a = np.repeat(np.tile(np.array([1, 54, 2, 57], np.uint8), 4), m // 16)
        mine.append(("order interleaved", a, None))
        a = np.concatenate([np.zeros(3, np.uint8), np.full(m - 3, 1, np.uint8)])
        if p <= 8:
            a[5::7] = 56
        else:
            a[m // 2: m // 2 + m // 8] = 56
            a[m - 5:] = 53
        mine.append(("order zeros+mixed", a, None))
        # synthetic loads (sorted), log-uniform in 0.005..120
        while len(mine) < per_p:
            load = math.exp(ctx.rng.uniform(math.log(0.005), math.log(120.0)))
            a = synth_registers(np, g, p, load)
            if ctx.rng.random() < 0.15:
                a = np.maximum(a, 1)              # force n_zero = 0
            mine.append(("synthetic load=%.3g" % load, np.sort(a), None))
        out += [(p, k, a, live) for (k, a, live) in mine[:max(per_p, 0)] if True]
    return out


# ------------------------------------------------------------------------------------------------ run
def run(ctx):
    ctx.level = "proof"
    quick = ctx.tier == "quick"
    ctx.impl()
    import numpy as np
    import numba
    from sketchnu.hyperloglog import HyperLogLog
    T = hq.Tables(lib.REPO)
    ctx.tick("imported")

    objs = {p: HyperLogLog(p) for p in range(7, 17)}

    # ---- suite 1: the per-instance constants (threshold, alpha, table rows), bit for bit
    const_cases = []
    for p, h in objs.items():
        const_cases.append(f"({p}, {int(h.threshold)}, {hq.coq_float(h.alpha)}, "
                           f"[{'; '.join(hq.coq_float(x) for x in h.raw_estimate)}], "
                           f"[{'; '.join(hq.coq_float(x) for x in h.bias_data)}])")
        if int(h.m) != 1 << p or len(h.registers) != 1 << p:
            ctx.violation({"p": p, "m": int(h.m)}, "HyperLogLog(p).m is not 2**p")
        # predicate on the implementation: documented alpha and the row of *this* precision
        if float(h.alpha) != 0.7213 / (1.0 + 1.079 / (1 << p)) or int(h.threshold) != T.threshold[p - 7] \
                or [float(x) for x in h.raw_estimate] != T.raw[p - 7] or [float(x) for x in h.bias_data] != T.bias[p - 7]:
            ctx.violation({"p": p, "alpha": float(h.alpha), "threshold": int(h.threshold)},
                          "alpha / threshold / table rows of the instance are not the documented ones for its precision")
        ctx.case_seen(("consts", p), True)
    bad, err = ctx.coq_bad_cases("consts", "Machine Harness HllQuery", "check_consts", const_cases, shard=10)
    if err:
        ctx.broken.append("correspondence hll-query(consts) could not be evaluated: " + err)
    if bad:
        ctx.broken.append("correspondence hll-query(consts): threshold/alpha/table row differ from the model for p in "
                          + str(sorted(7 + b for b in bad)))

    # ---- suite 2: np.interp as Numba compiles it inside _query, bit for bit against the model
    @numba.njit
    def jit_interp(x, xp, fp):
        return np.interp(x, xp, fp)

    interp_cases = []
    interp_in = []
    n_interp_viol = 0
    for p, h in objs.items():
        xp, fp = h.raw_estimate, h.bias_data
        js = [0, 1, 2, 57, 100, 197, 198, 199] if quick else list(range(200))
        xs = [float(xp[0]) - 1.0, float(xp[0]) / 2, float(xp[199]) + 1.0, float(xp[199]) * 4, 1e300, 0.0]
        for j in js:
            xs += [float(xp[j]), float(np.nextafter(xp[j], np.inf)), float(np.nextafter(xp[j], -np.inf))]
            if j < 199:
                xs += [float(xp[j] + ctx.rng.random() * (xp[j + 1] - xp[j])), float((xp[j] + xp[j + 1]) / 2)]
        for x in xs:
            v = float(jit_interp(x, xp, fp))
            v2 = float(np.interp(x, xp, fp))
            if v != v2:
                ctx.notes.append(f"numba np.interp and numpy np.interp differ at p={p} x={x!r}: {v!r} vs {v2!r}")
            o = hq.textbook_interp(x, T.raw[p - 7], T.bias[p - 7])
            if hq.relerr(v, o) > 1e-9:
                n_interp_viol += 1
                if n_interp_viol <= 3:
                    ctx.violation({"p": p, "x": x, "impl_interp": v, "textbook": o},
                                  "np.interp over the shipped row is not the linear interpolation of the table")
            interp_cases.append(f"({p}, {hq.coq_float(x)}, {hq.coq_float(v)})")
            interp_in.append((p, x, v))
            ctx.case_seen(("interp", p, x), True)
            ctx.count("interp-cases")
    bad, err = ctx.coq_bad_cases(
        "interp", "Machine Harness HllQuery",
        "fun c => let '(p, x, v) := c in (interp x (hll_raw p) (hll_bias p) =? v)%float", interp_cases, shard=1500)
    if err:
        ctx.broken.append("correspondence hll-query(interp) could not be evaluated: " + err)
    if bad:
        p, x, v = interp_in[sorted(bad)[0]]
        out = ctx.coq_show("interp", "Machine HllQuery", f"interp {hq.coq_float(x)} (hll_raw {p}) (hll_bias {p})")
        ctx.broken.append(f"correspondence hll-query(interp): {len(bad)} values differ, first p={p} x={x!r} impl={v!r} model={out[:200]}")
    ctx.tick("consts + interp suites")

    # ---- suite 3: the logarithm stand-in against np.log on the arguments linear counting uses
    ln_cases = []
    ln_in = []
    for p in range(7, 17):
        m = 1 << p
        nzs = range(1, m + 1) if p <= (9 if quick else 12) else sorted(set(
            [1, 2, 3, m - 1, m] + [ctx.rng.randrange(1, m + 1) for _ in range(300 if quick else 3000)]))
        for nz in nzs:
            v = float(np.float64(m) * np.log(np.float64(m) / np.float64(nz)))
            ln_cases.append(f"({m}, {nz}, {hq.coq_float(v)})")
            ln_in.append((m, nz, v))
    bad, err = ctx.coq_bad_cases("ln", "Machine Harness HllQuery", "check_ln 1e-13", ln_cases, shard=2500)
    if err:
        ctx.broken.append("correspondence hll-query(ln) could not be evaluated: " + err)
    if bad:
        m, nz, v = ln_in[sorted(bad)[0]]
        out = ctx.coq_show("ln", "Machine HllQuery", f"linear_counting {m} {nz}")
        ctx.broken.append(f"correspondence hll-query(ln): model logarithm differs from np.log beyond 1e-13 on {len(bad)} "
                          f"arguments, first m={m} n_zero={nz} numpy={v!r} model={out[:200]}")
    ctx.cov["ln_arguments_compared"] = len(ln_cases)
    ctx.tick("ln suite")

    # ---- suite 4: query() on assigned register files
    if ctx.replay_file:
        import json
        rp = json.load(open(ctx.replay_file))
        arrays = [(int(rp["p"]), "replay", np.array(hq.unrle([tuple(x) for x in rp["registers_rle"]]), np.uint8), None)]
    elif quick:
        arrays = gen_arrays(ctx, np, HyperLogLog, T, [7, 8, 9, 10, 11, 12], 60, 8, 1)
        arrays += gen_arrays(ctx, np, HyperLogLog, T, [16], 40, 0, 1)
    else:
        arrays = gen_arrays(ctx, np, HyperLogLog, T, list(range(7, 17)), 400, 9, 4)
    ctx.tick(f"{len(arrays)} register files generated")

    coq_cases = []
    meta = []
    nviol = 0
    for (p, kind, arr, live) in arrays:
        h = objs[p]
        h.registers[:] = arr
        try:
            est = float(h.query())
            est2 = float(h.query())
        except Exception as e:  # noqa
            ctx.violation({"p": p, "kind": kind, "registers_rle": hq.rle_np(arr), "error": repr(e)}, "query() raised " + repr(e))
            continue
        pairs = hq.rle_np(arr)
        regime, want, det = hq.oracle(T, p, arr.tolist())
        ctx.case_seen((p, tuple(pairs)), len(pairs) > 1)
        ctx.count("regime=" + regime)
        ctx.count("p=%d" % p)
        ctx.count("kind=" + kind.split(" ")[0])
        why = None
        if not (est == est):
            why = "query() returned NaN"
        elif est2 != est:
            why = "query() is not a function of the registers (two calls differ)"
        elif live is not None and live != est:
            why = "query() after assigning the same registers differs from query() of the sketch that produced them"
        elif hq.relerr(est, want) > 1e-9:
            why = f"query() = {est!r} but the documented estimator ({regime}) gives {want!r}"
        if why:
            if nviol < 3:
                ctx.violation({"p": p, "kind": kind, "registers_rle": pairs, "impl_query": est,
                               "documented_estimator": {"regime": regime, "value": want, "detail": det}}, why)
            nviol += 1
            continue
        coq_cases.append(f"({p}, {hq.coq_rle(pairs)}, {hq.coq_float(est)}, {hq.REGIME_CODE[regime]})")
        meta.append((p, kind, pairs, est, regime))
        h.registers[:] = 0
    ctx.cov["traces_validated_against_impl"] = len(meta)
    for i in (0, len(meta) // 3, 2 * len(meta) // 3):
        if i < len(meta):
            p, kind, pairs, est, regime = meta[i]
            ctx.sample({"p": p, "kind": kind, "registers_rle": pairs[:12] + (["..."] if len(pairs) > 12 else []),
                        "impl_query": est, "regime": regime})
    ctx.tick("implementation + oracle evaluated")

    # one call, balanced files: at most ~6000 run-length pairs and 100 register files per Coq file
    n = len(coq_cases)
    bad_all = set()
    if n:
        order = sorted(range(n), key=lambda i: -len(meta[i][2]))
        total_pairs = sum(len(mt[2]) for mt in meta)
        nfiles = max(1, -(-total_pairs // 6000), -(-n // 100))
        flat = [i for f in range(nfiles) for i in order[f::nfiles]]
        bad, err = ctx.coq_bad_cases("q", "Machine Harness HllQuery", "check_query 1e-9", [coq_cases[i] for i in flat],
                                     shard=-(-n // nfiles))
        if err:
            ctx.broken.append("correspondence hll-query could not be evaluated: " + err)
        bad_all = {flat[b] for b in bad}
    # harness self-test: deliberately wrong expectations (value off by 1e-6 relative / wrong regime) must all be reported;
    # informational: how many of the non-LC cases agree bit for bit (no libm call is involved there)
    if n:
        pick = [i for i in range(n) if len(meta[i][2]) <= 64][:: max(1, n // 12)][:12]
        wrong = []
        for k, i in enumerate(pick):
            p, kind, pairs, est, regime = meta[i]
            if k % 2 == 0 and est != 0.0:
                wrong.append(f"({p}, {hq.coq_rle(pairs)}, {hq.coq_float(est * (1 + 1e-6))}, {hq.REGIME_CODE[regime]})")
            else:
                wrong.append(f"({p}, {hq.coq_rle(pairs)}, {hq.coq_float(est)}, {(hq.REGIME_CODE[regime] + 1) % 3})")
        bad, err = ctx.coq_bad_cases("selftest", "Machine Harness HllQuery", "check_query 1e-9", wrong, shard=len(wrong))
        if err or len(bad) != len(wrong):
            ctx.broken.append(f"harness self-test: {len(wrong) - len(bad)} of {len(wrong)} deliberately wrong expectations "
                              f"were not reported by the Coq comparison {err or ''}")
        ctx.cov["selftest_wrong_expectations_reported"] = f"{len(bad)}/{len(wrong)}"
        nonlc = [i for i in range(n) if meta[i][4] != "LC" and len(meta[i][2]) <= 64][:150]
        bad, err = ctx.coq_bad_cases("exact", "Machine Harness HllQuery", "check_query 0", [coq_cases[i] for i in nonlc],
                                     shard=max(1, len(nonlc)))
        if not err:
            ctx.cov["non_LC_cases_bit_exact"] = f"{len(nonlc) - len(bad)}/{len(nonlc)}"
    ctx.cov["model_cases_evaluated_in_coq"] = len(coq_cases) + len(const_cases) + len(interp_cases) + len(ln_cases)
    if bad_all:
        i = sorted(bad_all)[0]
        p, kind, pairs, est, regime = meta[i]
        out = ctx.coq_show("mismatch", "Machine HllQuery", f"query_full {p} (expand_rle {hq.coq_rle(pairs)})")
        ctx.broken.append(f"correspondence hll-query: model and implementation differ (value beyond 1e-9 or regime) on "
                          f"{len(bad_all)} register files, first p={p} kind={kind} impl={est!r} regime={regime} model={out[-200:]}")
    ctx.tick("coq evaluated")

    ctx.cov["rule"] = ("cases = register files assigned with registers[:] on real HyperLogLog objects: arrays reached by adding "
                       "n = load*m random keys of varied length (13 loads 0.01..100; as produced for small p, sorted otherwise "
                       "— the float sum of 2^-r is exact for ranks <= 36, so order matters only for the order-sensitive "
                       "synthetic arrays, which are passed in their exact order), uniform 0..6 / all-maximum / 255, single zero "
                       "register, linear counting just below/above threshold[p] (adjacent numbers of zero registers), raw estimate "
                       "2^-36 above/below the 5m switch in the sum, order-sensitive mixtures of ranks 1 and 54..57, synthetic "
                       "loads log-uniform 0.005..120; plus 3 side suites (instance constants and table rows, np.interp at and "
                       "around knots, logarithm arguments m/n_zero). Each register file is evaluated on the implementation, on an "
                       "independent Python oracle written from the property text (1e-9 relative) and inside Coq on the model "
                       "(registers passed run-length encoded in their exact order; 1e-9 relative and equal regime, the regime "
                       "being computed by the oracle). distinct = distinct (p, run-length encoding); non-trivial = more than one run")
    ctx.assumptions += ["Numba compiles + - * / and comparisons to IEEE-754 binary64 without reassociation (no fast-math); "
                        "2.0 ** (-r) is exact", "np.log agrees with the model's PrimFloat logarithm to 1e-13 relative (checked "
                        "on the arguments used)", "the documented estimator in hllq_common.oracle is my reading of the property "
                        "text and of the HyperLogLog++ paper"]
