"""C15 — merging incompatible sketches is refused and changes nothing."""
import lib
import persist_common as pc

ALLOWED_AXIOMS = frozenset()
MANIFEST = dict(
    category="proof",
    text="Coq theorems over the attribute lists read from the five merge() methods on every run (Consts.guard_*): "
         "C15_guard_complete (each list contains the parameters the property names: width, depth, uint_maxval[, max_count, "
         "num_reserved] | p, seed | width, depth, max_key_len — deleting a comparison from the source breaks it), "
         "C15_guard_names_known, C15_iff (the guard passes exactly when class and all listed parameters agree), C15_refuse "
         "(otherwise TypeError and both operands returned as they were), C15_accept, C15_cms_never_attribute_error / "
         "C15_mixed_cms (count-min sketches of different classes: always TypeError, by the short-circuit `or`, whichever "
         "operand's method runs), C15_cross_family; tied to the code by running merge() on every ordered pair of a "
         "completely enumerated configuration grid with non-empty operands, comparing exception class and the byte-exact "
         "public state of both operands before/after, and evaluating the model's outcome for every pair inside Coq.",
    design_ref="DESIGN.md section 6, C15",
    note="Trusted: Coq kernel + vm_compute; translator (guard attribute lists from the AST; it fails closed if a guard is "
         "not an `or` of `self.x != other.x` raising TypeError); Guard.v's reading of attribute names (validated on the "
         "grid); the merge kernels are abstract here (C09/C02/C03). Theorems closed under the global context.",
    technique="Coq proof over source-extracted guard lists + exhaustive grid of ordered pairs against the real merge()")

U32MAX = 4294967295


def grid():
    """(family, class, constructor kwargs, tag)"""
    g = []
    g += [("cms", "CountMinLinear", dict(width=4, depth=2), "base"),
          ("cms", "CountMinLinear", dict(width=5, depth=2), "width"),
          ("cms", "CountMinLinear", dict(width=4, depth=3), "depth")]
    for cls in ("CountMinLog16", "CountMinLog8"):
        b = dict(width=4, depth=2, max_count=U32MAX, num_reserved=15)
        g += [("cms", cls, dict(b), "base"),
              ("cms", cls, dict(b, width=5), "width"),
              ("cms", cls, dict(b, depth=3), "depth"),
              ("cms", cls, dict(b, max_count=10**6), "max_count"),
              ("cms", cls, dict(b, num_reserved=7), "num_reserved"),
              # large max_count values that differ by 1 (identical after any float rounding / derived quantity)
              ("cms", cls, dict(b, max_count=2**52), "max_count 2^52"),
              ("cms", cls, dict(b, max_count=2**52 + 1), "max_count 2^52+1"),
              ("cms", cls, dict(b, max_count=2**63 + 1024), "max_count 2^63+1024")]
    # default-configured log sketches too (their num_reserved defaults differ: 1023 / 15)
    g += [("cms", "CountMinLog16", dict(width=4, depth=2), "defaults"),
          ("cms", "CountMinLog8", dict(width=4, depth=2), "defaults")]
    g += [("hll", "HyperLogLog", dict(p=7, seed=0), "base"),
          ("hll", "HyperLogLog", dict(p=8, seed=0), "p"),
          ("hll", "HyperLogLog", dict(p=7, seed=1), "seed"),
          ("hll", "HyperLogLog", dict(p=7, seed=2**63), "seed63"),
          ("hll", "HyperLogLog", dict(p=7, seed=2**63 + 1), "seed63+1")]
    g += [("hh", "HeavyHitters", dict(width=4, depth=2, max_key_len=4), "base"),
          ("hh", "HeavyHitters", dict(width=5, depth=2, max_key_len=4), "width"),
          ("hh", "HeavyHitters", dict(width=4, depth=3, max_key_len=4), "depth"),
          ("hh", "HeavyHitters", dict(width=4, depth=2, max_key_len=5), "max_key_len"),
          ("hh", "HeavyHitters", dict(width=4, depth=2, max_key_len=4, phi=0.5), "phi (not compared)")]
    return g


def key_params(o):
    """the parameters the property lists, read from the object"""
    n = type(o).__name__
    if n == "CountMinLinear":
        return (n, int(o.width), int(o.depth))
    if n in ("CountMinLog16", "CountMinLog8"):
        return (n, int(o.width), int(o.depth), int(o.max_count), int(o.num_reserved))
    if n == "HyperLogLog":
        return (n, int(o.p), int(o.seed))
    return (n, int(o.width), int(o.depth), int(o.max_key_len))


def coq_params(o):
    n = type(o).__name__
    if n == "CountMinLinear":
        ps = [o.width, o.depth]
    elif n in ("CountMinLog16", "CountMinLog8"):
        ps = [o.width, o.depth, o.max_count, o.num_reserved]
    elif n == "HyperLogLog":
        ps = [o.p, o.seed]
    else:
        ps = [o.width, o.depth, o.max_key_len, pc.f64bits(o.phi)]
    return "(mk_sketch %s %s)" % (pc.KLASS[n], pc.zl(ps))


def run(ctx):
    import warnings
    warnings.simplefilter("ignore")
    ctx.level = "proof"
    sk = ctx.impl()
    rng = ctx.rng
    g = grid()
    fam = {"cms": 0, "hll": 1, "hh": 2}
    cases = []
    meta = []
    nviol = 0
    ctx.tick("imported")

    def fresh(cls, params):
        o = pc.construct(sk, cls, params)
        # non-empty operand
        pc.apply_ops(o, [["add", list(rng.choice(pc.ALPHABET[3:])), rng.choice([1, 2, 5])] for _ in range(rng.randrange(1, 6))])
        return o

    for (fa, ca, pa, ta) in g:
        for (fb, cb, pb, tb) in g:
            a, b = fresh(ca, pa), fresh(cb, pb)
            sa0, sb0 = pc.state(a), pc.state(b)
            qa0 = pc.queries(a, pc.ALPHABET[:6])
            qb0 = pc.queries(b, pc.ALPHABET[:6])
            try:
                a.merge(b)
                res, msg = "ok", ""
            except Exception as e:  # noqa
                res, msg = type(e).__name__, str(e)[:100]
            sa1, sb1 = pc.state(a), pc.state(b)
            replay = {"self": [ca, pa], "other": [cb, pb], "outcome": res, "message": msg}
            same_family = fa == fb
            ka, kb = key_params(a), key_params(b)
            ctx.case_seen((ca, sorted(pa.items()), cb, sorted(pb.items())), True)
            ctx.count(("same family: " if same_family else "cross family: ") + res)
            # ---- the property, evaluated with independent bookkeeping
            if same_family:
                want = "ok" if ka == kb else "TypeError"
                if res != want:
                    nviol += 1
                    if nviol <= 3:
                        ctx.violation(dict(replay, expected=want, key_params=[ka, kb]),
                                      f"{ca}.merge({cb}) with parameters {ka} / {kb}: expected {want}, got {res}")
            else:
                ctx.count(f"cross family {ca}.merge({cb}) -> {res}")
                if res == "ok":
                    nviol += 1
                    if nviol <= 3:
                        ctx.violation(replay, f"{ca}.merge({cb}) across sketch families did not raise")
            if res != "ok":
                df = pc.state_diff(sa0, sa1) + pc.state_diff(sb0, sb1)
                if df or pc.queries(a, pc.ALPHABET[:6]) != qa0 or pc.queries(b, pc.ALPHABET[:6]) != qb0:
                    nviol += 1
                    if nviol <= 3:
                        ctx.violation(dict(replay, changed=df, self_before=pc.state_json(sa0), self_after=pc.state_json(sa1),
                                           other_before=pc.state_json(sb0), other_after=pc.state_json(sb1)),
                                      f"refused merge ({res}) changed an operand: {df}")
            else:
                df = pc.state_diff(sb0, sb1)
                if df or pc.queries(b, pc.ALPHABET[:6]) != qb0:
                    nviol += 1
                    if nviol <= 3:
                        ctx.violation(dict(replay, changed=df), "accepted merge changed the `other` operand")
                # parameters of self are untouched by an accepted merge
                if key_params(a) != ka:
                    ctx.violation(replay, "accepted merge changed the parameters of self")
            code = {"ok": 0, "TypeError": 1, "AttributeError": 2}.get(res, 3)
            cases.append(f"({coq_params(a)}, {coq_params(b)}, {code})")
            meta.append(replay)
            del a, b
    ctx.cov["traces_validated_against_impl"] = len(cases)
    ctx.tick(f"implementation side done ({len(cases)} ordered pairs)")

    chk = ("fun c : sketch * sketch * Z => let '(a, b, code) := c in (merge_code a b =? code) && "
           "Bool.eqb (compatible a b && same_family a b) (code =? 0)")
    bad, err = ctx.coq_bad_cases("guard", "Machine Harness Persist Guard", chk, cases, shard=400)
    if err:
        ctx.broken.append("correspondence merge-guard could not be evaluated: " + err)
    if bad:
        i = sorted(bad)[0]
        out = ctx.coq_show("mismatch", "Machine Persist Guard",
                           "let '(a, b, code) := %s in (merge_code a b, compatible a b, guard_eval (guard_of (class_of a)) a b)" % cases[i])
        ctx.broken.append(f"correspondence merge-guard: model and implementation disagree on {len(bad)} pairs, first "
                          f"{meta[i]}: model says {out[-200:]}")
    ctx.cov["model_cases_evaluated_in_coq"] = len(cases)
    ctx.tick("coq evaluated")
    ctx.cov["exhaustive"] = True
    ctx.cov["rule"] = (f"exhaustive over the grid: all {len(g)}x{len(g)} ordered pairs (self, other) of {len(g)} "
                       "configurations = per family a base configuration and one variant per compared parameter "
                       "(count-min: width, depth, max_count, num_reserved for each of the three counter types, so every "
                       "counter-type pair occurs at equal shape in both orders, plus the default-configured log sketches; "
                       "HyperLogLog: p, seed 1, seed 2^63; heavy hitters: width, depth, max_key_len, and phi which is not "
                       "compared), including every cross-family pair; both operands fresh and non-empty for every pair; "
                       "recorded: exception class, complete public state and queries of both operands before/after; "
                       "`exhaustive` refers to this finite grid only; every case is non-trivial")
    ctx.assumptions += [
        "the translator's guard lists are the comparisons the methods perform (it rejects any other guard shape)",
        "np.uintN != np.uintM comparisons of the parameter scalars are exact value comparisons",
    ]
