"""C10 — save/load reproduces the sketch exactly, for every sketch type."""
import os
import shutil
import time

import lib
import persist_common as pc

ALLOWED_AXIOMS = frozenset()
MANIFEST = dict(
    category="proof",
    text="Coq theorems C10_roundtrip (for every well-formed state of each of the five classes, i.e. whatever a "
         "constructor accepted, load(class, save(s)) = Ok s: same class, every parameter, every array, both bookkeeping "
         "counters), C10_hh_args (heavy-hitter integer arguments survive the float64 args array below 2^53, phi bit for "
         "bit), C10_dispatch (module-level load = loader of the writing class), C10_reject (a count-min loader raises "
         "TypeError on another count-min class's file), C10_continue / C10_chain (the loaded state evolves identically, "
         "save->load->continue chains), over a branch-for-branch model of the save/load/constructor-validation code "
         "(Persist.v); tied to the code by saving real sketches of all five classes after random histories, loading them "
         "with every loader (shared_memory False/True), comparing the complete public state, continuing original and copy "
         "in lock step through chains of three save/load links, merging them, and evaluating the Coq model on the bytes "
         "of the same .npz members (plus hand-made malformed files for the error paths).",
    design_ref="DESIGN.md section 6, C10 (finding F5 fixed: b57aeec)",
    note="Trusted: Coq kernel + vm_compute; the hand transcription Persist.v (validated by the correspondence run on "
         "every generated file and on the malformed files); NumPy's .npz container and np.copyto (modelled: casting rule, "
         "broadcasting, wrap); _find_base taken as a deterministic function of (max_count, num_reserved, uint_maxval) "
         "(checked: base of the loaded sketch is bit-identical); MemoryError for unallocatable shapes not modelled "
         "(heavy-hitter width/depth >= 2^53 would need >= 8 PiB). Theorems closed under the global context (no axioms); "
         "binary64 conversions are modelled in integer arithmetic and cross-checked against Coq's kernel floats and NumPy.",
    technique="Coq proof over a transcription of save/load + vm_compute correspondence on real .npz files")

CMS = ("CountMinLinear", "CountMinLog16", "CountMinLog8")
U64 = 2**64 - 1


def corpus():
    """(class, constructor kwargs, history) — edge cases first"""
    a = [list(b"a")]
    return [
        ("CountMinLinear", dict(width=1, depth=1), [["add", list(b"a"), 2**32 - 1], ["set_n", U64, U64]]),
        ("CountMinLinear", dict(width=1, depth=8), [["update", a]]),
        ("CountMinLinear", dict(width=7, depth=1), [["add", list(b""), 5], ["add", list(b"\x00"), 2**40]]),
        ("CountMinLog16", dict(width=1, depth=1), [["add", list(b"a"), 2000]]),
        ("CountMinLog16", dict(width=3, depth=2, max_count=U64, num_reserved=0), [["add", list(b"a"), 7], ["set_n", 2**63, 1]]),
        ("CountMinLog16", dict(width=2, depth=2, max_count=2**40, num_reserved=65534), [["add", list(b"ab"), 40]]),
        ("CountMinLog16", dict(width=2, depth=1, max_count=70000, num_reserved=1), [["add", list(b"ab"), 40]]),
        ("CountMinLog8", dict(width=1, depth=1), [["add", list(b"a"), 40]]),
        ("CountMinLog8", dict(width=2, depth=3, max_count=1000, num_reserved=7), [["add", list(b"a"), 40], ["update", a]]),
        ("CountMinLog8", dict(width=2, depth=3, max_count=1000, num_reserved=250), [["add", list(b"a"), 400]]),
        ("CountMinLog8", dict(width=4, depth=2, max_count=U64, num_reserved=254), [["add", list(b"a"), 300]]),
        ("CountMinLog8", dict(width=4, depth=2, max_count=300, num_reserved=0), [["add", list(b"a"), 3]]),
        ("HyperLogLog", dict(p=7, seed=2**63), [["update", a]]),
        ("HyperLogLog", dict(p=7, seed=U64), [["add", list(b""), 1], ["add", list(b"\x00"), 1]]),
        ("HyperLogLog", dict(p=8, seed=2**63 + 5), []),
        ("HyperLogLog", dict(p=16, seed=1), [["update", a]]),
        ("HeavyHitters", dict(width=1, depth=2, max_key_len=4), [["add", list(b"x"), 1]]),          # F5 witness
        ("HeavyHitters", dict(width=1, depth=1, max_key_len=1), [["add", list(b"xyz"), 3], ["set_n", U64, 2**63]]),
        ("HeavyHitters", dict(width=1, depth=1, max_key_len=1, phi=1.0), []),
        ("HeavyHitters", dict(width=3, depth=2, max_key_len=255, phi=0.5), [["add", list(b"q" * 300), 2**32]]),
        ("HeavyHitters", dict(width=2, depth=1, max_key_len=2, phi=5e-324), [["add", list(b"a\x00"), 2], ["add", list(b"a"), 1]]),
        ("HeavyHitters", dict(width=2, depth=1, max_key_len=2, phi=float("nan")), [["add", list(b"a"), 1]]),
        ("HeavyHitters", dict(width=5, depth=4), [["update", a]]),
    ] + [
        # the largest counter of the table sits exactly on / next to a storage-width boundary (a save() that picks the
        # narrowest dtype, or a loader that narrows, loses exactly these; added after seeded change C01_save_narrowest_dtype)
        (cls, kw, [["add", list(b"a"), v]])
        for cls, kw in (("CountMinLinear", dict(width=2, depth=2)), ("HeavyHitters", dict(width=2, depth=2, max_key_len=3)),
                        ("CountMinLog16", dict(width=2, depth=2, num_reserved=1023)))
        for v in ((255, 256, 257, 65535, 65536, 65537) if cls != "CountMinLog16" else (255, 256, 257, 1023))
    ]


def gen_config(rng):
    cls = rng.choice(["CountMinLinear", "CountMinLog16", "CountMinLog8", "HyperLogLog", "HeavyHitters"])
    w = rng.choice([1, 1, 2, 3, 4, 5, 8])
    d = rng.choice([1, 1, 2, 3, 4, 8])
    if cls == "CountMinLinear":
        p = dict(width=w, depth=d)
    elif cls in ("CountMinLog16", "CountMinLog8"):
        lim = 65535 if cls == "CountMinLog16" else 255
        p = dict(width=w, depth=d)
        if rng.random() < 0.7:
            p["max_count"] = rng.choice([300, 1000, 70000, 10**6, 2**32 - 1, 2**32, 2**40, 2**63, U64,
                                         rng.randrange(300, 2**40)])
        if rng.random() < 0.7:
            p["num_reserved"] = rng.choice([0, 1, 7, 15, 100, lim - 1, rng.randrange(0, lim), rng.randrange(0, 40)])
    elif cls == "HyperLogLog":
        p = dict(p=rng.choice([7, 7, 7, 8, 8, 9, 10]),
                 seed=rng.choice([0, 1, 2**63, 2**63 + rng.randrange(2**62), U64, rng.getrandbits(64)]))
    else:
        p = dict(width=w, depth=rng.choice([1, 2, 3, 4]), max_key_len=rng.choice([1, 2, 3, 4, 4, 8, 16]))
        r = rng.random()
        if r < 0.6:
            p["phi"] = rng.choice([1.0, 0.5, 0.25, 0.01, 1e-9, 1e-300, rng.random() or 0.5, 1.0 - 2**-53])
    return cls, p


def outcome(fn):
    """('ok', object) | ('exc', class name, message)"""
    try:
        return ("ok", fn())
    except Exception as e:  # noqa
        return ("exc", type(e).__name__, str(e)[:120])


def run(ctx):
    import warnings
    warnings.simplefilter("ignore")
    nfiles = 150 if ctx.tier == "quick" else 2000
    ctx.level = "proof"
    sk = ctx.impl()
    import numpy as np
    import numba

    @numba.njit
    def nb_seed(s):
        np.random.seed(s)

    rng = ctx.rng
    fdir = os.path.join(ctx.dir, "files")
    os.makedirs(fdir, exist_ok=True)
    loaders = pc.loaders()
    ldict = dict(loaders)
    oks = set()              # (max_count, num_reserved, umax) triples observed to construct
    bad_base = set()
    coq_cases = []           # Coq terms
    coq_meta = []            # replay info per Coq case
    nviol = [0]
    shm_used = 0
    nskip_model = 0

    def viol(replay, what):
        nviol[0] += 1
        if nviol[0] <= 3:
            ctx.violation(replay, what)

    def sync_rand(a, b):
        if hasattr(a, "rand_nums"):
            b.rand_nums[:] = a.rand_nums
            b.rand_ptr = a.rand_ptr

    def same(a, b, keys, replay, what):
        sa, sb = pc.state(a), pc.state(b)
        df = pc.state_diff(sa, sb)
        if df:
            viol(dict(replay, differing=df, original=pc.state_json(sa), copy=pc.state_json(sb)), what + ": state differs in " + ",".join(df))
            return False
        qa, qb = pc.queries(a, keys), pc.queries(b, keys)
        if qa != qb:
            viol(dict(replay, queries_original=repr(qa)[:600], queries_copy=repr(qb)[:600]), what + ": query answers differ")
            return False
        return True

    configs = corpus()
    while len(configs) < nfiles:
        cls, p = gen_config(rng)
        hist = pc.gen_ops(rng, cls, rng.choice([0, 1, 3, 8, 20, 40]))
        if cls != "HyperLogLog" and rng.random() < 0.2:
            # heavy hitters: keep n_added below 2^63 so that the continuation cannot wrap it (the query cache rule
            # `n_added_sort < n_added()` is about a growing counter; the 2^64 wrap is out of scope, DESIGN 3.1)
            big = [2**62, 2**32, rng.getrandbits(62), 12345] if cls == "HeavyHitters" else \
                [U64, 2**63, 2**32, rng.getrandbits(64), 12345]
            hist.append(["set_n", rng.choice(big), rng.choice([0, 1, U64, 99])])
        configs.append((cls, p, hist))
    configs = configs[:nfiles]
    ctx.tick("imported, configurations generated")

    exc_hist = {}
    for i, (cls, params, hist) in enumerate(configs):
        replay = {"class": cls, "params": {k: (repr(v) if isinstance(v, float) else v) for k, v in params.items()},
                  "history": hist}
        r = outcome(lambda: pc.construct(sk, cls, params))
        if r[0] == "exc":
            # only _find_base may refuse a generated configuration; it must refuse it again
            r2 = outcome(lambda: pc.construct(sk, cls, params))
            if not (cls in ("CountMinLog16", "CountMinLog8") and r[1] == "ValueError" and r2[0] == "exc" and r2[1] == "ValueError"):
                viol(dict(replay, first=r[1:], second=r2[1:] if r2[0] == "exc" else "constructed"),
                     "constructor outcome is not a function of the parameters / unexpected exception")
            um = 65535 if cls == "CountMinLog16" else 255
            bad_base.add((params.get("max_count", 4294967295), params.get("num_reserved", 1023 if um == 65535 else 15), um))
            ctx.count("constructor refused (base)")
            continue
        orig = r[1]
        if cls in ("CountMinLog16", "CountMinLog8"):
            oks.add((int(orig.max_count), int(orig.num_reserved), int(orig.uint_maxval)))
        pc.apply_ops(orig, hist)
        keys = pc.ALPHABET
        path = os.path.join(fdir, f"f{i}_0.npz")
        orig.save(path)
        members = pc.read_members(path)
        use_shm = (i % 12 == 5) and shm_used < (14 if ctx.tier == "quick" else 60)
        shm_used += use_shm
        own = ldict[cls]
        r = outcome(lambda: own(path, shared_memory=use_shm))
        if r[0] == "exc":
            viol(dict(replay, error=r[1:], shared_memory=use_shm), f"{cls}.load of its own file raised {r[1]}: {r[2]}")
            del orig
            continue
        cur = r[1]
        ok = same(orig, cur, keys, dict(replay, shared_memory=use_shm), "after save/load")
        st0 = pc.state(orig)
        nontrivial = any(any(v[2]) for k, v in st0.items() if isinstance(v, tuple) and len(v) == 3)
        ctx.case_seen((cls, sorted(replay["params"].items()), [(k, v) for k, v in sorted(st0.items())]), nontrivial)
        ctx.count("class " + cls)
        ctx.count("shared_memory load" if use_shm else "in-memory load")
        ctx.count("width 1" if params.get("width") == 1 else "width >1 / n.a.")
        if len(ctx.cov["samples"]) < 4 and i % 7 == 0:
            ctx.sample({"class": cls, "params": replay["params"], "ops": len(hist), "n_added": st0.get("n_added()")})

        # ---- every loader on this file
        exps = []
        for lname, L in loaders:
            rr = outcome(lambda: L(path))
            who = "(@None klass)" if lname == "module" else "(Some %s)" % pc.KLASS[lname]
            if rr[0] == "ok":
                obj = rr[1]
                if obj is None:
                    exps.append(f"({who}, false, RetNone)")
                    res = "None"
                else:
                    exps.append(f"({who}, false, Ok {pc.coq_sketch(obj)})")
                    res = type(obj).__name__
                    if lname == "module" or lname == cls:
                        if pc.state_diff(pc.state(obj), st0):
                            viol(dict(replay, loader=lname), f"{lname} load: state differs from the original")
                    del obj
            else:
                res = rr[1]
                if rr[1] in pc.EXN:
                    if lname == "HyperLogLog" and cls == "HeavyHitters":
                        nskip_model += 1          # float args into HyperLogLog(): outside the model
                    else:
                        exps.append(f"({who}, false, Err {pc.EXN[rr[1]]})")
                else:
                    nskip_model += 1
            exc_hist[(lname, cls, res)] = exc_hist.get((lname, cls, res), 0) + 1
            # the property: dispatch and rejection among the count-min classes
            if cls in CMS:
                if lname == "module" and res != cls:
                    viol(dict(replay, got=res), f"module-level load() returned {res} for a {cls} file")
                if lname in CMS and lname != cls and res != "TypeError":
                    viol(dict(replay, loader=lname, got=res), f"{lname}.load accepted / mis-reported a {cls} file: {res}")
            if lname == cls and res != cls:
                viol(dict(replay, got=res), f"{cls}.load did not return a {cls}")
            del rr
        if use_shm:
            exps.append(f"(Some {pc.KLASS[cls]}, true, Ok {pc.coq_sketch(cur)})")
        small = cls != "HyperLogLog" or int(orig.p) <= 10
        if small:
            coq_cases.append(f"({pc.coq_file_of_members(members)}, OKS, [{'; '.join(exps)}], Some {pc.coq_sketch(orig)})")
            coq_meta.append(dict(replay, file=path, step=0))

        # ---- chains: continue original and copy in lock step, save/load the copy, three links
        no_chain = cls == "HeavyHitters" and int(orig.n_added()) >= 2**63
        if no_chain:
            ctx.count("chain skipped (heavy-hitter n_added would wrap 2^64: out of scope)")
        for step in range(1, 4):
            if not ok or no_chain:
                break
            ops = pc.gen_ops(rng, cls, rng.choice([1, 4, 12, 30]), max_value=60 if cls in CMS[1:] else None)
            sync_rand(orig, cur)
            seed = rng.getrandbits(31)
            nb_seed(seed)
            r1 = outcome(lambda: pc.apply_ops(orig, ops))
            nb_seed(seed)
            r2 = outcome(lambda: pc.apply_ops(cur, ops))
            if r1[0] != r2[0] or (r1[0] == "exc" and r1[1] != r2[1]):
                viol(dict(replay, continuation=ops, step=step, original=r1[1:], copy=r2[1:]),
                     "continuation behaves differently on original and loaded copy")
                ok = False
                break
            ok = same(orig, cur, keys, dict(replay, continuation=ops, step=step), f"after continuation {step}")
            ctx.count("continuations")
            if step < 3 and ok:
                p2 = os.path.join(fdir, f"f{i}_{step}.npz")
                cur.save(p2)
                rr = outcome(lambda: own(p2))
                if rr[0] == "exc":
                    viol(dict(replay, step=step, error=rr[1:]), f"re-load in chain raised {rr[1]}")
                    ok = False
                    break
                nxt = rr[1]
                ok = same(cur, nxt, keys, dict(replay, step=step), f"chain link {step + 1}")
                if small and i % 3 == 0:
                    coq_cases.append(f"({pc.coq_file_of_members(pc.read_members(p2))}, OKS, "
                                     f"[(Some {pc.KLASS[cls]}, false, Ok {pc.coq_sketch(nxt)})], Some {pc.coq_sketch(cur)})")
                    coq_meta.append(dict(replay, file=p2, step=step))
                prev = cur
                cur = nxt
                del prev, nxt, rr
        if ok:
            rm = outcome(lambda: orig.merge(cur))
            if rm[0] == "exc":
                viol(dict(replay, error=rm[1:]), f"merge of original with its loaded copy raised {rm[1]}: {rm[2]}")
            ctx.count("merged original with copy")
        del orig, cur, r
        if nviol[0] > 6:
            break
    ctx.cov["traces_validated_against_impl"] = len(coq_cases)
    ctx.cov["loader_outcomes"] = {f"{l} on {c} file -> {r}": n for (l, c, r), n in sorted(exc_hist.items())}
    ctx.tick(f"implementation side done ({len(configs)} configurations, {shm_used} shared-memory loads)")

    # ---- malformed / hand-made files: the error paths of the model
    u64, u32, u16, u8, f64, i64 = np.uint64, np.uint32, np.uint16, np.uint8, np.float64, np.int64
    na = np.array([5, 6], u64)
    A = np.array
    hh_ok = dict(lhh=np.zeros((1, 2, 4), u8), lhh_count=A([[3, 4]], u32), key_lens=np.zeros((1, 2), u8), n_added_records=na)
    lin = lambda **kw: dict(dict(args=A([3, 2], u64), n_added_records=na, cms=A([[1, 2, 3], [4, 5, 6]], u32), dtype=u32(0)), **kw)  # noqa
    l8 = lambda **kw: dict(dict(args=A([3, 2, 1000, 7], u64), n_added_records=na, cms=A([[1, 2, 3], [4, 5, 6]], u8), dtype=u8(0)), **kw)  # noqa
    hostile = [
        ("CountMinLinear", lin()),
        ("CountMinLinear", lin(cms=A([[1, 2, 3]], u32))),
        ("CountMinLinear", lin(cms=A([1, 2, 3], u32))),
        ("CountMinLinear", lin(cms=A([[1], [2]], u32))),
        ("CountMinLinear", lin(cms=u32(7))),
        ("CountMinLinear", lin(cms=A([[[1, 2, 3], [4, 5, 6]]], u32))),
        ("CountMinLinear", lin(cms=A([[[1, 2, 3]], [[4, 5, 6]]], u32))),
        ("CountMinLinear", lin(cms=A([[1, 2], [4, 5]], u32))),
        ("CountMinLinear", lin(cms=A([[1, 2, 2**40 + 3], [4, 5, 6]], u64))),
        ("CountMinLinear", lin(cms=A([[1, 2, 3], [4, 5, 6]], f64))),
        ("CountMinLinear", lin(cms=A([[1, 2], [4, 5]], f64))),
        ("CountMinLinear", lin(cms=A([[1, 2, 3], [4, 5, 6]], i64))),
        ("CountMinLinear", lin(args=A([3], u64), cms=A([[1, 2, 3]], u32))),
        ("CountMinLinear", lin(args=A([3, 2, 1], u64))),
        ("CountMinLinear", lin(args=A([], u64))),
        ("CountMinLinear", lin(args=A([0, 2], u64))),
        ("CountMinLinear", lin(args=A([3, 0], u64))),
        ("CountMinLinear", lin(args=A([3, 2], u8), n_added_records=A([5], u64))),
        ("CountMinLinear", lin(n_added_records=A([5, 6, 7], u64))),
        ("CountMinLinear", lin(n_added_records=A([5, 6], f64))),
        ("CountMinLinear", lin(dtype=u16(0))),
        ("CountMinLinear", lin(dtype=f64(0))),
        ("CountMinLinear", {k: v for k, v in lin().items() if k != "cms"}),
        ("CountMinLinear", {k: v for k, v in lin().items() if k != "n_added_records"}),
        ("CountMinLinear", {k: v for k, v in lin().items() if k != "args"}),
        ("module", lin(dtype=u64(0))),
        ("module", lin(dtype=f64(0))),
        ("module", lin(dtype=i64(0))),
        ("module", {k: v for k, v in lin().items() if k != "dtype"}),
        ("module", l8()),
        ("CountMinLog8", l8()),
        ("CountMinLog8", l8(args=A([3, 2, 1000, 255], u64))),
        ("CountMinLog8", l8(args=A([3, 2, 1000, 254], u64))),
        ("CountMinLog8", l8(args=A([3, 2, 1000], u64), cms=A([[1, 2, 300]], u16))),
        ("CountMinLog8", l8(args=A([3, 2], u64))),
        ("CountMinLog8", l8(args=A([3], u64), cms=u8(9))),
        ("CountMinLog8", l8(args=A([3, 2, 1, 7], u64))),
        ("CountMinLog8", l8(args=A([3, 2, 1000, 7, 1], u64))),
        ("CountMinLog16", l8(dtype=u16(0), args=A([3, 2, 1000, 300], u64), cms=A([[1, 2, 70000]], u32))),
        ("CountMinLog16", l8(dtype=u16(0), args=A([3, 2, 10**6, 65535], u64))),
        ("CountMinLog16", l8(dtype=u16(0), args=A([0, 2, 10**6, 65535], u64))),
        ("HyperLogLog", dict(args=A([7, 3], u64), hll=A([9], u8))),
        ("HyperLogLog", dict(args=A([17, 3], u64), hll=A([9], u8))),
        ("HyperLogLog", dict(args=A([6, 3], u64), hll=A([9], u8))),
        ("HyperLogLog", dict(args=A([7], u64), hll=(np.arange(128) + 250).astype(u16))),
        ("HyperLogLog", dict(args=A([7, 2**64 - 1], u64), hll=np.arange(127).astype(u8))),
        ("HyperLogLog", dict(args=A([7, 1, 2], u64), hll=A([9], u8))),
        ("HyperLogLog", dict(args=A([7, 1], u64))),
        ("HeavyHitters", dict(args=A([2.9, 1.5, 4.2, 0.5, 77.0]), **hh_ok)),
        ("HeavyHitters", dict(args=A([2, 1, 4, 0.0]), **hh_ok)),
        ("HeavyHitters", dict(args=A([2, 1, 4, -0.0]), **hh_ok)),
        ("HeavyHitters", dict(args=A([2, 1, 4, -0.5]), **hh_ok)),
        ("HeavyHitters", dict(args=A([2, 1, 4, 5e-324]), **hh_ok)),
        ("HeavyHitters", dict(args=A([2, 1, 4, 1.0]), **hh_ok)),
        ("HeavyHitters", dict(args=A([2, 1, 4, 1.0000000000000002]), **hh_ok)),
        ("HeavyHitters", dict(args=A([2, 1, 4, float("inf")]), **hh_ok)),
        ("HeavyHitters", dict(args=A([2, 1, 4, float("nan")]), **hh_ok)),
        ("HeavyHitters", dict(args=A([2, 1, 256, 0.5]), **hh_ok)),
        ("HeavyHitters", dict(args=A([2, 1, 0.5, 0.5]), **hh_ok)),
        ("HeavyHitters", dict(args=A([0.99, 1, 4, 0.5]), **hh_ok)),
        ("HeavyHitters", dict(args=A([2, 1, 4]), **hh_ok)),
        ("HeavyHitters", dict(args=A([2, 1, 4, 1], u64), **hh_ok)),
        ("HeavyHitters", dict(args=A([2, 1, 4, 2], u64), **hh_ok)),
        ("HeavyHitters", dict(args=A([2, 1, 4, 0.5]), **dict(hh_ok, lhh=np.zeros((1, 2, 3), u8)))),
        ("HeavyHitters", dict(args=A([2, 1, 4, 0.5]), **dict(hh_ok, key_lens=A([[1.0, 2.0]])))),
    ]
    hpath = os.path.join(fdir, "hostile.npz")
    n_host = 0
    for lname, mem in hostile:
        np.savez(hpath, **mem)
        members = pc.read_members(hpath)
        rr = outcome(lambda: ldict[lname](hpath))
        who = "(@None klass)" if lname == "module" else "(Some %s)" % pc.KLASS[lname]
        if rr[0] == "ok":
            obj = rr[1]
            if obj is None:
                exp = "RetNone"
            else:
                exp = "Ok " + pc.coq_sketch(obj)
                if hasattr(obj, "max_count"):
                    oks.add((int(obj.max_count), int(obj.num_reserved), int(obj.uint_maxval)))
            del obj
        elif rr[1] in pc.EXN:
            exp = "Err " + pc.EXN[rr[1]]
        else:
            ctx.broken.append(f"malformed-file stream: {lname} raised unexpected {rr[1]}: {rr[2]}")
            continue
        del rr
        coq_cases.append(f"({pc.coq_file_of_members(members)}, OKS, [({who}, false, {exp})], (@None sketch))")
        coq_meta.append({"hostile_loader": lname, "members": {k: [str(np.asarray(v).dtype), list(np.asarray(v).shape)] for k, v in mem.items()},
                         "impl_outcome": exp[:80]})
        n_host += 1
        ctx.count("malformed files")
    ctx.cov["malformed_files"] = n_host

    # ---- the model on the same bytes, inside Coq
    prelude = f"Definition OKS : list (Z * Z * Z) := {pc.coq_oks(oks)}.\nOpen Scope string_scope.\nOpen Scope Z_scope.\n"
    chk = ("fun c : (file * list (Z * Z * Z) * list (option klass * bool * result sketch) * option sketch) => "
           "let '(f, oks, exps, src) := c in forallb (fun e : option klass * bool * result sketch => let '(who, shm, exp) := e in "
           "result_eqb (match who with Some k => load (base_ok_of oks) k shm f | None => module_load (base_ok_of oks) shm f end) exp) exps "
           "&& match src with Some s => file_eqb (save s) f && wfb (base_ok_of oks) s | None => true end")
    bad, err = ctx.coq_bad_cases("persist", "Machine Harness Persist", chk, coq_cases, shard=40, prelude=prelude)
    if err:
        ctx.broken.append("correspondence persist could not be evaluated: " + err)
    if bad:
        i = sorted(bad)[0]
        ctx.broken.append(f"correspondence persist: model and implementation disagree on {len(bad)} files, first: "
                          + repr(coq_meta[i])[:500])
        with open(os.path.join(ctx.dir, "model_mismatch.v.txt"), "w") as f:
            f.write(coq_cases[i])
    ctx.cov["model_cases_evaluated_in_coq"] = len(coq_cases)
    ctx.cov["model_skipped_outside_domain"] = nskip_model
    ctx.tick("coq evaluated")

    # ---- the integer <-> binary64 conversions of the model against NumPy (heavy-hitter args path)
    xs = [0, 1, 2, 3, 255, 256, 2**32 - 1, 2**32, 2**53 - 1, 2**53, 2**53 + 1, 2**53 + 2, 2**53 + 3, 2**54 - 1, 2**54 + 1,
          2**54 + 2, 2**54 + 3, 2**63 - 1, 2**63, 2**63 + 1, 2**64 - 2**10, 2**64 - 2**10 - 1, 2**64 - 1025]
    for _ in range(300 if ctx.tier == "quick" else 3000):
        nb = rng.randrange(1, 65)
        x = rng.getrandbits(nb)
        xs.append(x)
        if nb > 54:      # ties and near-ties of the rounding
            sh = nb - 53
            xs.append(((x >> sh) << sh) + (1 << (sh - 1)))
            xs.append(((x >> sh) << sh) + (1 << (sh - 1)) + rng.choice([-1, 1]))
    fcases = []
    for x in xs:
        fl = np.array([u64(x)], f64)
        bits = int(fl.view(u64)[0])
        back = int(u64(fl[0])) if float(fl[0]) < 2.0**64 else -1        # the cast is undefined at 2^64 and above
        fcases.append(f"({x}, {bits}, {'Some %d' % back if back >= 0 else 'None'})")
    for v in [0.5, 0.99, 1.5, 2.9, 4.2, 1e-300, 5e-324, 255.999, 2.0**52 + 0.5, 2.0**63, 2.0**64 - 2048, -0.0, -0.25]:
        bits = pc.f64bits(v)
        fcases.append(f"(-1, {bits}, Some {int(u64(f64(v)))})")
    fchk = ("fun c : Z * Z * option Z => let '(x, bits, back) := c in ((x <? 0) || (f64bits_of_Z x =? bits)) && "
            "match f64_trunc bits, back with Some a, Some b => a =? b | None, None => true | _, _ => false end")
    bad, err = ctx.coq_bad_cases("f64", "Machine Harness Persist", fchk, fcases, shard=2000)
    if err:
        ctx.broken.append("correspondence f64 could not be evaluated: " + err)
    if bad:
        ctx.broken.append(f"correspondence f64: Persist.f64bits_of_Z / f64_trunc differ from NumPy on {len(bad)} values, "
                          f"first: {fcases[sorted(bad)[0]]}")
    ctx.cov["f64_conversion_cases"] = len(fcases)
    ctx.tick("f64 conversions evaluated")

    # F5 is recorded as fixed: the witness is corpus entry 17 (HeavyHitters(1,2,4), default phi) and must load;
    # a failure is reported by the generic path above as a violation.
    shutil.rmtree(fdir, ignore_errors=True)
    ctx.cov["base_refused_configurations"] = len(bad_base)
    ctx.cov["rule"] = ("a case = one sketch configuration + random history (corpus of 39 edge cases first: width=depth=1, "
                       "counter ceilings, n_added = 2^64-1, num_reserved = limit-1, max_count = 2^64-1, seeds >= 2^63, "
                       "HeavyHitters width 1 default phi (F5), phi in {1.0, NaN, 5e-324}, max_key_len 255), saved to a real "
                       ".npz, loaded by all five class loaders and countmin.load (own loader also with shared_memory=True "
                       "on every 12th), complete public state and all queries compared, three continue/save/load links "
                       "with original and copy driven in lock step (rand_nums/rand_ptr copied, Numba RNG reseeded), final "
                       "merge; the Coq model is evaluated on the members of each first file (and of every third chain "
                       "file) plus hand-made malformed files; distinct = distinct (class, parameters, state); "
                       "non-trivial = some array byte non-zero")
    ctx.assumptions += [
        "NumPy writes and reads .npz members faithfully (container not modelled; see C20)",
        "_find_base is a deterministic function of (max_count, num_reserved, uint_maxval) (observed: equal base bits after load)",
        "HeavyHitters width/depth < 2^53 (larger tables cannot be allocated: observed MemoryError at 2^53+1, 8 PiB)",
        "states are compared through public attributes; the heavy-hitter query cache and the log sketches' private "
        "random state are rebuilt on load by design and are not part of the saved state",
    ]
