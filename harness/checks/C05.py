"""C05 — an add raises the key's estimate by its multiplicity and nothing else past it."""
import lib
import cms_common as cc

import log_common as _L
ALLOWED_AXIOMS = frozenset(_L.PRIMITIVES)   # Print Assumptions lists the kernel's primitive float/int operations under 'Axioms:'
MANIFEST = dict(
    category="proof",
    text="Coq theorems for one add on ANY state with counters in range (so in particular every reachable state, incl. "
         "those produced by merges), every row-hash function, key and multiplicity: linear sketches: new estimate = "
         "min(old + min(v,2^32-1), 2^32-1); no other estimate decreases or ends above max(its old value, the key's new "
         "estimate); only the key's own counter per row can change; n_added grows by min(v, ceiling - old).  Log sketches "
         "(C05_log_*): the smallest counter advances by 0..v steps, exactly v in the reserved range, same side clauses, for "
         "arbitrary draw streams.  Tied to the code by running adds on states reached by random histories (with merges) on "
         "the real classes, checking all five clauses on before/after snapshots and comparing complete states with the model.",
    design_ref="DESIGN.md section 6, C05",
    note="Trusted: Coq kernel + vm_compute; hand transcriptions CmsLinear.v / CmsLog.v (validated by correspondence); for log "
         "sketches the pow/decode tables are inputs read from the implementation (DESIGN 3.4) and draws are an explicit stream. "
         "Theorems closed under the global context. Log theorems mention binary64 tables, so Print Assumptions lists the kernel's primitive float operations (not logical axioms).",
    technique="Coq proof (one-step characterisation lemma of conservative update, any state) + vm_compute correspondence")


def lin_pred(i, op, slot, before, after, bm, universe, extra):
    """the five clauses of C05 on before/after snapshots of a single add"""
    if op[0] != "add":
        return None
    _, _, key, v = op
    CAP = cc.CAP
    tb, nab, _, qb = before
    ta, naa, _, qa = after
    qb = dict(qb)
    qa = dict(qa)
    exp = min(qb[key] + min(v, CAP), CAP)
    if qa[key] != exp:
        return {"clause": "estimate = min(old+v, cap)", "key": list(key), "v": v, "old": qb[key], "new": qa[key], "expected": exp}
    for j in universe:
        if qa[j] < qb[j]:
            return {"clause": "no estimate decreases", "other_key": list(j), "old": qb[j], "new": qa[j]}
        if qa[j] > max(qb[j], qa[key]):
            return {"clause": "no other estimate ends above max(old, key's new)", "other_key": list(j), "old": qb[j],
                    "new": qa[j], "key_new": qa[key]}
    for r, (rowb, rowa) in enumerate(zip(tb, ta)):
        changed = [c for c, (x, y) in enumerate(zip(rowb, rowa)) if x != y]
        if len(changed) > 1 or (changed and changed[0] != bm[key][r]):
            return {"clause": "at most one counter per row changes (the key's own)", "row": r, "changed_columns": changed,
                    "key_column": bm[key][r]}
    want = min(v, CAP - qb[key])
    if naa - nab != want:
        return {"clause": "n_added grows by exactly v unless cut by the ceiling", "v": v, "old_estimate": qb[key],
                "n_added_before": nab, "n_added_after": naa, "expected_growth": want}
    return None


def run(ctx):
    rng = ctx.rng
    ctx.impl()
    quick = ctx.tier == "quick"
    suite = cc.LinearSuite(ctx, "an add on a linear sketch broke a clause of C05")
    # corpus: ceiling neighbourhood after a merge; zero multiplicity; everything collides
    suite.run_case(1, 2, [b"a", b"b"], 2, [("add", 0, b"a", cc.CAP - 4), ("add", 1, b"b", 3), ("merge", 0, 1),
                                           ("add", 0, b"b", 0), ("add", 0, b"b", 5), ("add", 0, b"a", 1)], lin_pred)
    suite.run_case(2, 3, [b"", b"\x00", b"x"], 1, [("add", 0, b"", 2**40), ("add", 0, b"\x00", 1), ("add", 0, b"x", cc.CAP)], lin_pred)
    n = 500 if quick else 6000
    for _ in range(n):
        width = rng.choice([1, 2, 2, 3, 4, 8]) if quick else rng.choice([1, 2, 3, 4, 8, 16])
        depth = rng.choice([1, 2, 3, 4])
        alphabet, nslots, prog = cc.gen_program(rng, max_len=20)
        # make sure there are adds after the merges: append a few adds on every slot
        for s in range(nslots):
            for _ in range(rng.randint(1, 3)):
                prog.append(("add", s, rng.choice(alphabet), rng.choice(cc.MULTS)))
        suite.run_case(width, depth, alphabet, nslots, prog, lin_pred)
    ctx.tick("linear: implementation + predicate")
    suite.finish()
    ctx.tick("linear: model evaluated in Coq")
    ctx.cov["rule"] = ("linear: random API-level programs (as in C01) followed by extra adds on every slot; the five C05 clauses are "
                       "evaluated on before/after snapshots (all universe queries, whole table, n_added) of every single add, "
                       "multiplicities from {0,1,2,3,5,17,1000,cap-2..cap+1,2^40}, widths 1..8(16); final states compared with the "
                       "Coq model; distinct = distinct (shape, program); non-trivial = colliding universe keys or a merge before the add")
    run_log(ctx)


def run_log(ctx):
    """log8/log16 part — filled in from CmsLog (see log_common)."""
    try:
        import log_checks
    except ImportError:
        ctx.notes.append("log-counter part of C05 not wired in yet")
        return
    log_checks.c05(ctx)
