"""C02 — HyperLogLog state depends only on the set of distinct keys (union semantics)."""
import itertools
import json
import struct

import lib
import pyref

ALLOWED_AXIOMS = frozenset()
MANIFEST = dict(
    category="proof",
    text="Coq theorems C02_nlz64_spec (the six-branch leading-zero search of hyperloglog.py equals 63 - log2 on every 64-bit "
         "word), C02_rank_range / C02_rank_spec / C02_idx_spec (index = low p bits of the 64-bit FastHash, rank = 1 + leading "
         "zeros of the other 64-p bits, 1 <= rank <= 64-p+1 <= 58, none of Numba's uint8/uint64/int64 conversions ever "
         "truncates), C02_registers (after ANY history of add / update(list) / update(dict) / add_ngram / update_ngram / merge "
         "trees every register is the max rank over the keys with that index, 0 when none), C02_set_only (two histories with "
         "the same SET of keys have equal registers: order, duplicates, the multiplicity argument, batching, partition over "
         "sketches and merge-tree shape disappear), C02_fresh_once / C02_fresh_nodup (= a fresh sketch fed each distinct key once), "
         "C02_merge_comm/assoc/idem and C02_hist_merge (merge never raises inside a history and is commutative, associative, "
         "idempotent), C02_desugar (update/add_ngram/update_ngram are loops of add; the count is ignored), C02_query / "
         "C02_query_list (anything computed from registers 0..m-1, e.g. HllQuery.query_model, is equal too).  The model Hll.v is a branch-for-branch transcription over "
         "the real hash model Hashes.fasthash64; it is tied to the code by running generated histories on the real "
         "HyperLogLog class and evaluating the same histories inside Coq (all registers compared).",
    design_ref="DESIGN.md section 6, C02 (and the HyperLogLog rows of C12)",
    note="Trusted: Coq kernel + vm_compute; the hand transcription Hll.v / Hashes.v / Ngram.v (validated on every run by the "
         "hll-reg correspondence); Numba's integer typing as read from inspect_types() (n: uint64, rank: int64, store "
         "truncates to uint8); pyref.py (published FastHash) used by the predicate search.  Theorems are closed under the "
         "global context (no axioms).  query() itself is modelled in HllQuery.v (C17); here only `a function of the "
         "registers 0..m-1` is used.",
    technique="Coq proof (all histories, all keys, all 64-bit hashes) + vm_compute correspondence against the Numba code + "
              "predicate search with hash-inverted keys reaching every rank 1..58")

M64 = (1 << 64) - 1
FH_M = 0x880355F21E6D1965
FH_C = 0x2127599BF4325C37
FH_MI = pow(FH_M, -1, 1 << 64)
FH_CI = pow(FH_C, -1, 1 << 64)
SEEDS = [0, 1, 2**32 - 1, 2**32, 2**63, 2**64 - 1]
HOSTILE = [b"", b"\x00", b"\x00\x00", b"\x00" * 7, b"\x00" * 8, b"\x00" * 9, b"a", b"a\x00", b"a\x00\x00", b"\xff",
           b"\x80\xff", b"\xff" * 8, b"\x7f\x80", b"ab", b"ba", b"abcdefgh", b"abcdefgh\x00", b"\xff" * 16, b"\x00" * 16,
           b"0123456789abcdef0123456"]
VALUES = [1, 1, 1, 0, 2, 7, 255, 256, 2**32, 2**40, 2**64 - 1]


# ----------------------------------------------------------------- inverting FastHash (harness side only)
def _mix(h):
    h ^= h >> 23
    h = (h * FH_C) & M64
    h ^= h >> 47
    return h


def _unmix(h):
    h ^= h >> 47
    h = (h * FH_CI) & M64
    h ^= (h >> 23) ^ (h >> 46)
    return h


def key_for_hash(target, seed, prefix=b"", tail=b""):
    """prefix (a multiple of 8 bytes) + 8 solved bytes + tail (0..7 bytes) whose fasthash64 under `seed` is `target`.
    The result is verified with the forward reference hash, so a mistake here cannot go unnoticed."""
    assert len(prefix) % 8 == 0 and len(tail) < 8
    n = len(prefix) + 8 + len(tail)
    h = (seed ^ ((n * FH_M) & M64)) & M64
    for i in range(0, len(prefix), 8):
        h = ((h ^ _mix(int.from_bytes(prefix[i:i + 8], "little"))) * FH_M) & M64
    want = _unmix(target)                      # state before the final mix
    if tail:
        want = ((want * FH_MI) & M64) ^ _mix(int.from_bytes(tail, "little"))   # state after the solved block
    v = _unmix(((want * FH_MI) & M64) ^ h)
    key = prefix + v.to_bytes(8, "little") + tail
    assert pyref.fasthash64(key, seed) == target, "hash inversion failed"
    return key


def target_hash(rng, p, rank, idx):
    """a 64-bit hash with register index idx and the given rank (1..64-p+1)"""
    blen = 64 - p - rank + 1               # bit length of hash >> p
    if blen == 0:
        bits = 0
    else:
        lo, hi = 1 << (blen - 1), (1 << blen) - 1
        bits = rng.choice([lo, hi, rng.randint(lo, hi), rng.randint(lo, hi), lo | (1 if blen > 1 else 0)])
    return (bits << p) | idx


# ----------------------------------------------------------------- independent bookkeeping
def windows(s, n):
    return [s] if len(s) <= n else [s[i:i + n] for i in range(len(s) - n + 1)]


def py_rank_idx(p, hv):
    bits = hv >> p
    return (64 - p) - bits.bit_length() + 1, hv & ((1 << p) - 1)


def spec_regs(p, seed, keys):
    """the property text: register i = max over distinct keys with index i of 1 + leading zeros of the other 64-p bits"""
    regs = {}
    for k in set(keys):
        r, i = py_rank_idx(p, pyref.fasthash64(k, seed))
        if r > regs.get(i, 0):
            regs[i] = r
    return regs


def hist_keys(h):
    t = h[0]
    if t == "new":
        return []
    if t == "merge":
        return hist_keys(h[1]) + hist_keys(h[2])
    if t == "selfmerge":
        return hist_keys(h[1])
    ks = hist_keys(h[1])
    if t == "add":
        return ks + [h[2]]
    if t == "upd":
        return ks + list(h[2])
    if t == "updd":
        return ks + [k for k, _ in h[2]]
    if t == "ng":
        return ks + windows(h[2], h[3])
    if t == "updng":
        return ks + [w for s in h[2] for w in windows(s, h[3])]
    raise ValueError(t)


def hist_size(h):
    t = h[0]
    if t == "new":
        return 0
    if t == "merge":
        return 1 + hist_size(h[1]) + hist_size(h[2])
    return 1 + hist_size(h[1])


def n_leaves(h):
    t = h[0]
    if t == "new":
        return 1
    if t == "merge":
        return n_leaves(h[1]) + n_leaves(h[2])
    return n_leaves(h[1])


# ----------------------------------------------------------------- running a history on the implementation
def run_hist(HLL, p, seed, h, trace=None):
    t = h[0]
    if t == "new":
        s = HLL(p, seed)
    elif t == "merge":
        s = run_hist(HLL, p, seed, h[1], trace)
        o = run_hist(HLL, p, seed, h[2])
        s.merge(o)
    elif t == "selfmerge":
        s = run_hist(HLL, p, seed, h[1], trace)
        s.merge(s)
    else:
        s = run_hist(HLL, p, seed, h[1], trace)
        if t == "add":
            s.add(h[2], h[3])
        elif t == "upd":
            s.update(list(h[2]))
        elif t == "updd":
            s.update(dict(h[2]))
        elif t == "ng":
            s.add_ngram(h[2], h[3])
        elif t == "updng":
            s.update_ngram(list(h[2]), h[3])
        else:
            raise ValueError(t)
    if trace is not None:
        trace.append((h, s.registers.copy()))
    return s


def zint(v):
    return str(v) if v >= 0 else f"({v})"


def coq_hist(h):
    t = h[0]
    if t == "new":
        return "HlNew"
    if t == "merge":
        return f"(HlMerge {coq_hist(h[1])} {coq_hist(h[2])})"
    if t == "selfmerge":
        c = coq_hist(h[1])
        return f"(HlMerge {c} {c})"
    c = coq_hist(h[1])
    if t == "add":
        return f"(HlAdd {c} {lib.zkey(h[2])} {zint(h[3])})"
    if t == "upd":
        return f"(HlUpdate {c} [{'; '.join(lib.zkey(k) for k in h[2])}])"
    if t == "updd":
        return f"(HlUpdateDict {c} [{'; '.join('(' + lib.zkey(k) + ', ' + zint(v) + ')' for k, v in h[2])}])"
    if t == "ng":
        return f"(HlNgram {c} {lib.zkey(h[2])} {h[3]})"
    if t == "updng":
        return f"(HlUpdateNgram {c} [{'; '.join(lib.zkey(k) for k in h[2])}] {h[3]})"
    raise ValueError(t)


def hist_json(h):
    t = h[0]
    if t == "new":
        return ["new"]
    if t in ("merge",):
        return ["merge", hist_json(h[1]), hist_json(h[2])]
    if t == "selfmerge":
        return ["selfmerge", hist_json(h[1])]
    if t == "add":
        return ["add", hist_json(h[1]), list(h[2]), h[3]]
    if t == "upd":
        return ["upd", hist_json(h[1]), [list(k) for k in h[2]]]
    if t == "updd":
        return ["updd", hist_json(h[1]), [[list(k), v] for k, v in h[2]]]
    if t == "ng":
        return ["ng", hist_json(h[1]), list(h[2]), h[3]]
    if t == "updng":
        return ["updng", hist_json(h[1]), [list(k) for k in h[2]], h[3]]
    raise ValueError(t)


def hist_unjson(j):
    t = j[0]
    if t == "new":
        return ("new",)
    if t == "merge":
        return ("merge", hist_unjson(j[1]), hist_unjson(j[2]))
    if t == "selfmerge":
        return ("selfmerge", hist_unjson(j[1]))
    if t == "add":
        return ("add", hist_unjson(j[1]), bytes(j[2]), j[3])
    if t == "upd":
        return ("upd", hist_unjson(j[1]), tuple(bytes(k) for k in j[2]))
    if t == "updd":
        return ("updd", hist_unjson(j[1]), tuple((bytes(k), v) for k, v in j[2]))
    if t == "ng":
        return ("ng", hist_unjson(j[1]), bytes(j[2]), j[3])
    if t == "updng":
        return ("updng", hist_unjson(j[1]), tuple(bytes(k) for k in j[2]), j[3])
    raise ValueError(t)


# ----------------------------------------------------------------- generators
def ops_from_units(rng, h, lst, stats=None):
    """append operations that feed the units (('k', key) | ('g', string, n)) in the given order"""
    i = 0
    while i < len(lst):
        u = lst[i]
        if u[0] == "k":
            mode = rng.choice(["add", "add", "add", "upd", "upd", "updd", "ng1", "updng1"])
            if mode == "add":
                h = ("add", h, u[1], rng.choice(VALUES))
                i += 1
            elif mode == "ng1":          # a window size that is not smaller than the key: the key itself
                k = u[1]
                n = rng.choice([max(1, len(k)), len(k) + 1, len(k) + 7, 2**32, 2**63, 2**64 - 1])
                h = ("ng", h, k, n)
                i += 1
            else:
                batch = []
                want = rng.randint(1, 5)
                while i < len(lst) and lst[i][0] == "k" and len(batch) < want:
                    batch.append(lst[i][1])
                    i += 1
                if mode == "upd":
                    h = ("upd", h, tuple(batch))
                elif mode == "updd":
                    d = {}
                    for k in batch:
                        d[k] = rng.choice(VALUES)
                    h = ("updd", h, tuple(d.items()))
                else:
                    n = max([1] + [len(k) for k in batch]) + rng.choice([0, 1, 2**40])
                    h = ("updng", h, tuple(batch), n)
        else:
            _, s, n = u
            mode = rng.choice(["ng", "ng", "expand", "updng"])
            if mode == "ng":
                h = ("ng", h, s, n)
                i += 1
            elif mode == "expand":
                ws = windows(s, n)
                rng.shuffle(ws)
                h = ops_from_units(rng, h, [("k", w) for w in ws], stats)
                i += 1
            else:
                batch = []
                while i < len(lst) and lst[i][0] == "g" and lst[i][2] == n and len(batch) < 3:
                    batch.append(lst[i][1])
                    i += 1
                h = ("updng", h, tuple(batch), n)
        if stats is not None:
            stats(mode)
    return h


def gen_plan(rng, units, stats=None):
    """one way of feeding every unit at least once: duplication, partition over 1..5 sketches, random merge tree"""
    ns = rng.randint(1, 5)
    per = [[] for _ in range(ns)]
    for u in units:
        for _ in range(rng.choice([1, 1, 1, 2, 3])):
            per[rng.randrange(ns)].append(u)
    hs = []
    for lst in per:
        rng.shuffle(lst)
        hs.append(ops_from_units(rng, ("new",), lst, stats))
    while len(hs) > 1:
        i, j = rng.sample(range(len(hs)), 2)
        a, b = hs[i], hs[j]
        new = ("merge", a, b)
        if rng.random() < 0.08:
            new = ("merge", new, b)                       # merged in twice
        if units and rng.random() < 0.2:                  # keep adding after a merge
            late = [rng.choice(units) for _ in range(rng.randint(1, 2))]
            new = ops_from_units(rng, new, late, stats)
        hs = [x for k, x in enumerate(hs) if k not in (i, j)]
        hs.insert(rng.randrange(len(hs) + 1), new)
    h = hs[0]
    if rng.random() < 0.06:
        h = ("selfmerge", h)                              # other is self: registers alias
    return h


class RankSweep:
    """cycles through every rank 1..64-p+1 for each p so that a run reaches all of them"""

    def __init__(self):
        self.nxt = {p: 0 for p in range(7, 17)}

    def take(self, p):
        r = self.nxt[p] % (64 - p + 1) + 1
        self.nxt[p] += 1
        return r


def gen_units(rng, p, seed, sweep, ctx=None):
    units = []
    used_idx = []
    m = 1 << p
    shape = rng.random()
    if shape < 0.04:
        return []                                          # empty history
    if rng.random() < 0.25:
        units.append(("k", b""))
    for _ in range(rng.choice([0, 1, 1, 2, 2, 3, 4])):     # keys with a prescribed hash
        rank = sweep.take(p) if rng.random() < 0.8 else rng.choice([1, 2, 64 - p, 64 - p + 1])
        if used_idx and rng.random() < 0.5:
            idx = rng.choice(used_idx)                     # same register: the max matters
        else:
            idx = rng.choice([0, m - 1, rng.randrange(m), rng.randrange(m)])
        used_idx.append(idx)
        prefix = bytes(rng.getrandbits(8) for _ in range(rng.choice([0, 0, 0, 8])))
        tail = bytes(rng.getrandbits(8) for _ in range(rng.choice([0, 0, 1, 3, 7])))
        units.append(("k", key_for_hash(target_hash(rng, p, rank, idx), seed, prefix, tail)))
        if ctx is not None:
            ctx.count("constructed_rank=%d" % rank)
            ctx.p_rank_pairs.add((p, rank))
    for _ in range(rng.choice([0, 0, 1, 2, 3])):
        units.append(("k", rng.choice(HOSTILE)))
    for _ in range(rng.choice([0, 0, 1, 2, 4])):
        units.append(("k", bytes(rng.getrandbits(8) for _ in range(rng.choice([1, 2, 3, 5, 8, 9, 15, 16, 17, 24])))))
    ng = rng.choice([0, 0, 0, 1, 1, 2])
    n_shared = rng.randint(1, 5)
    for _ in range(ng):
        s = bytes(rng.choice(b"ab\x00") for _ in range(rng.randint(0, 10)))
        n = n_shared if rng.random() < 0.7 else rng.randint(1, len(s) + 2)
        if rng.random() < 0.05:
            n = 0                                          # the code then adds len+1 empty keys
        units.append(("g", s, n))
    # a unit may appear twice in the pool itself
    if units and rng.random() < 0.2:
        units.append(rng.choice(units))
    return units


def nonzero_pairs(np, regs):
    nz = np.nonzero(regs)[0]
    return [(int(i), int(regs[i])) for i in nz]


def fbits(x):
    return struct.pack("<d", float(x))


# ----------------------------------------------------------------- the property predicate on the implementation
def check_pair(np, HLL, p, seed, hA, hB):
    """None if the case satisfies the property, else (what, details)."""
    try:
        a = run_hist(HLL, p, seed, hA)
        b = run_hist(HLL, p, seed, hB)
        keysA, keysB = hist_keys(hA), hist_keys(hB)
        if set(keysA) != set(keysB):
            return ("generator", "the two histories do not have the same key set")
        distinct = sorted(set(keysA))
        f = HLL(p, seed)
        for k in distinct:
            f.add(k)
        qa, qb, qf = a.query(), b.query(), f.query()
    except Exception as e:  # noqa
        return ("exception", repr(e))
    ra, rb, rf = a.registers, b.registers, f.registers
    if not (len(ra) == len(rb) == len(rf) == (1 << p)) or ra.dtype != np.uint8:
        return ("shape", f"register arrays have lengths {len(ra)},{len(rb)},{len(rf)} dtype {ra.dtype}")
    if not np.array_equal(ra, rf):
        i = int(np.nonzero(ra != rf)[0][0])
        return ("registers", f"history A differs from the fresh sketch fed each distinct key once at register {i}: "
                             f"{int(ra[i])} vs {int(rf[i])}")
    if not np.array_equal(rb, rf):
        i = int(np.nonzero(rb != rf)[0][0])
        return ("registers", f"history B differs from the fresh sketch fed each distinct key once at register {i}: "
                             f"{int(rb[i])} vs {int(rf[i])}")
    if fbits(qa) != fbits(qf) or fbits(qb) != fbits(qf):
        return ("query", f"query() differs bitwise: A={qa!r} B={qb!r} fresh={qf!r}")
    spec = spec_regs(p, seed, keysA)
    got = dict(nonzero_pairs(np, ra))
    if got != spec:
        bad = sorted(set(got.items()) ^ set(spec.items()))[:4]
        return ("max-rank", f"registers are not the max rank per index of the published FastHash: {bad}")
    return None


def drop_unit(h, pred):
    """remove every leaf operation whose keys satisfy pred (whole operation for ngram strings)"""
    t = h[0]
    if t == "new":
        return h
    if t == "merge":
        return ("merge", drop_unit(h[1], pred), drop_unit(h[2], pred))
    if t == "selfmerge":
        return ("selfmerge", drop_unit(h[1], pred))
    inner = drop_unit(h[1], pred)
    if t == "add":
        return inner if pred(h[2]) else ("add", inner, h[2], h[3])
    if t == "upd":
        ks = tuple(k for k in h[2] if not pred(k))
        return ("upd", inner, ks) if ks else inner
    if t == "updd":
        ks = tuple((k, v) for k, v in h[2] if not pred(k))
        return ("updd", inner, ks) if ks else inner
    if t == "ng":
        return inner if any(pred(w) for w in windows(h[2], h[3])) else ("ng", inner, h[2], h[3])
    if t == "updng":
        ks = tuple(s for s in h[2] if not any(pred(w) for w in windows(s, h[3])))
        return ("updng", inner, ks, h[3]) if ks else inner
    raise ValueError(t)


def simpler(h):
    """structurally smaller histories: a merge with an empty side, a self-merge or one operation removed"""
    t = h[0]
    if t == "new":
        return
    if t == "merge":
        if not hist_keys(h[2]):
            yield h[1]
        if not hist_keys(h[1]):
            yield h[2]
        for a in simpler(h[1]):
            yield ("merge", a, h[2])
        for b in simpler(h[2]):
            yield ("merge", h[1], b)
        return
    yield h[1]                      # drop this operation (kept only if the key sets stay equal)
    for a in simpler(h[1]):
        yield (t, a) + tuple(h[2:])


def shrink(np, HLL, p, seed, hA, hB, what):
    """drop keys (from both histories at once), then empty merges, while the same kind of failure persists"""
    def still(a2, b2):
        if set(hist_keys(a2)) != set(hist_keys(b2)):
            return False
        r = check_pair(np, HLL, p, seed, a2, b2)
        return r is not None and r[0] == what
    for _ in range(3):
        progress = False
        for k in sorted(set(hist_keys(hA)) | set(hist_keys(hB))):
            a2, b2 = drop_unit(hA, lambda x: x == k), drop_unit(hB, lambda x: x == k)
            if still(a2, b2):
                hA, hB, progress = a2, b2, True
        if not progress:
            break
    for _ in range(200):
        for a2 in simpler(hA):
            if still(a2, hB):
                hA = a2
                break
        else:
            for b2 in simpler(hB):
                if still(hA, b2):
                    hB = b2
                    break
            else:
                break
    return hA, hB


def report(ctx, np, HLL, p, seed, hA, hB, res):
    what, detail = res
    if what not in ("generator",):
        hA, hB = shrink(np, HLL, p, seed, hA, hB, what)
        res2 = check_pair(np, HLL, p, seed, hA, hB)
        if res2 is not None:
            detail = res2[1]
    ctx.violation({"p": p, "hll_seed": seed, "history_A": hist_json(hA), "history_B": hist_json(hB),
                   "distinct_keys": [list(k) for k in sorted(set(hist_keys(hA)))], "kind": what, "detail": detail},
                  f"C02 {what}: {detail}")


# ----------------------------------------------------------------- run
def slot_suite(ctx, np, HLL, n_cases):
    """Persistent sketches (a DAG of operations, not a tree): after every operation EVERY live sketch must
    still equal a fresh sketch fed its own distinct keys - in particular the merged-in operand and sketches
    that were merged earlier must not change when another sketch is modified later (no shared state)."""
    rng = ctx.rng
    nviol = 0
    for it in range(n_cases):
        p = rng.choice([7, 7, 8, 10, 12])
        seed = rng.choice(SEEDS) if rng.random() < 0.5 else rng.getrandbits(64)
        ns = rng.choice([2, 2, 3, 4])
        sk = [HLL(p, seed) for _ in range(ns)]
        keys = [set() for _ in range(ns)]
        trace = []
        # some sketches start empty on purpose (a merge into an empty sketch is a special path)
        for i in range(ns):
            if rng.random() < 0.5:
                for _ in range(rng.randint(1, 4)):
                    k = bytes(rng.getrandbits(8) for _ in range(rng.randint(0, 9)))
                    sk[i].add(k)
                    keys[i].add(k)
                    trace.append(["add", i, list(k)])
        bad = None
        for step in range(rng.randint(2, 8)):
            if rng.random() < 0.5:
                i, j = rng.sample(range(ns), 2)
                sk[i].merge(sk[j])
                keys[i] |= keys[j]
                trace.append(["merge", i, j])
            else:
                i = rng.randrange(ns)
                ks = [bytes(rng.getrandbits(8) for _ in range(rng.randint(0, 9))) for _ in range(rng.randint(1, 3))]
                how = rng.randrange(4)
                if how == 0:
                    sk[i].update(ks)
                    keys[i] |= set(ks)
                    trace.append(["update", i, [list(k) for k in ks]])
                elif how == 1:
                    for k in ks:
                        sk[i].add(k, rng.choice([1, 3]))
                    keys[i] |= set(ks)
                    trace.append(["add", i, [list(k) for k in ks]])
                else:
                    n = rng.randint(1, 4)
                    if how == 2:
                        for k in ks:
                            sk[i].add_ngram(k, n)
                    else:
                        sk[i].update_ngram(ks, n)
                    for k in ks:
                        keys[i] |= set(windows(k, n))
                    trace.append(["add_ngram" if how == 2 else "update_ngram", i, [list(k) for k in ks], n])
            # the statement is about query() as well as the registers, at every point of the history: every live
            # sketch is queried after every operation (so queries are interleaved with adds and merges; added after
            # seeded changes C07_query_cache_not_reset_by_update / C02_query_cache_not_reset_by_merge)
            for q in range(ns):
                got = dict(nonzero_pairs(np, sk[q].registers))
                want = spec_regs(p, seed, keys[q])
                if got != want:
                    bad = {"sketch": q, "after_step": trace[-1], "registers": sorted(got.items())[:20],
                           "fresh_sketch_of_its_own_keys": sorted(want.items())[:20]}
                    break
                f = HLL(p, seed)
                for k in sorted(keys[q]):
                    f.add(k)
                qa, qf = sk[q].query(), f.query()
                if fbits(qa) != fbits(qf):
                    bad = {"sketch": q, "after_step": trace[-1], "clause": "query",
                           "query": repr(qa), "query_of_fresh_sketch_of_its_own_keys": repr(qf)}
                    break
                del f
            if bad:
                break
        ctx.case_seen(("slots", p, seed, repr(trace)), True)
        ctx.count("slot_suite")
        if bad and nviol < 2:
            bad.update({"p": p, "seed": seed, "trace": trace})
            ctx.violation(bad, "query() of a live sketch differs from query() of a fresh sketch fed its own distinct keys once (stale state behind query)"
                          if bad.get("clause") == "query" else
                          "a sketch changed although none of its own keys changed (state shared between sketches after merge)")
            nviol += 1


def run(ctx):
    quick = ctx.tier == "quick"
    n_cases = 600 if quick else 6000          # pair cases that also go through the model
    n_extra = 2400 if quick else 24000        # further pair cases for the predicate search on the implementation only
    n_perop = 60 if quick else 300
    ctx.p_rank_pairs = set()
    ctx.level = "proof"
    ctx.impl()
    import numpy as np
    from sketchnu.hyperloglog import HyperLogLog as HLL
    rng = ctx.rng

    # ---- replay of a recorded failure
    if getattr(ctx, "replay_file", None):
        rp = json.load(open(ctx.replay_file))
        hA, hB = hist_unjson(rp["history_A"]), hist_unjson(rp["history_B"])
        res = check_pair(np, HLL, rp["p"], rp["hll_seed"], hA, hB)
        ctx.case_seen(("replay", ctx.replay_file), True)
        if res is not None:
            report(ctx, np, HLL, rp["p"], rp["hll_seed"], hA, hB, res)
        ctx.cov["rule"] = "replay of one recorded case"
        return

    sweep = RankSweep()
    coq_cases = []       # (coq term, description for messages)
    nviol = 0

    def model_case(p, seed, h, regs, m):
        pairs = nonzero_pairs(np, regs)
        exp = "[" + "; ".join(f"({i}, {v})" for i, v in pairs) + "]"
        coq_cases.append((f"({p}, {seed}, {coq_hist(h)}, {m}, {exp}, {len(pairs)})", (p, seed, h, pairs)))

    # ---- corpus: hand-made edge cases first
    corpus = []
    for p in (7, 12, 16):
        corpus.append((p, 0, ("add", ("new",), b"", 1), ("upd", ("upd", ("new",), (b"",)), (b"", b""))))
    k63 = key_for_hash(1 << 63, 2**64 - 1)                  # top bit set: rank 1
    k0 = key_for_hash(0, 2**64 - 1)                         # hash 0 under another seed: rank 64-p+1
    klow = key_for_hash((1 << 7) - 1, 2**64 - 1)            # only index bits set
    corpus.append((7, 2**64 - 1, ("upd", ("new",), (k63, k0, klow)),
                   ("merge", ("add", ("new",), klow, 0), ("merge", ("add", ("new",), k0, 2**40), ("add", ("new",), k63, 1)))))
    corpus.append((16, 2**64 - 1, ("updd", ("new",), ((k63, 5), (k0, 0), (klow, 1))),
                   ("merge", ("merge", ("new",), ("upd", ("new",), (k0, k63))), ("ng", ("new",), klow, 8))))
    corpus.append((9, 2**32, ("ng", ("new",), b"abcabcab", 3),
                   ("merge", ("upd", ("new",), (b"cab", b"bca", b"abc")), ("updng", ("new",), (b"abcab", b"bcab"), 3))))
    corpus.append((7, 1, ("new",), ("merge", ("new",), ("new",))))
    corpus.append((8, 5, ("selfmerge", ("add", ("new",), b"x", 1)), ("add", ("add", ("new",), b"x", 1), b"x", 3)))

    ctx.tick("imported, corpus built")
    cases = [(c, True) for c in corpus]
    for ci in range(n_cases + n_extra):
        p = 7 + ci % 10
        seed = SEEDS[(ci // 10) % len(SEEDS)] if rng.random() < 0.7 else rng.getrandbits(64)
        units = gen_units(rng, p, seed, sweep, ctx)
        hA = gen_plan(rng, units, lambda m: ctx.count("op=" + m))
        hB = gen_plan(rng, units, lambda m: ctx.count("op=" + m))
        cases.append(((p, seed, hA, hB), False))

    n_model = 0
    for ci, ((p, seed, hA, hB), is_corpus) in enumerate(cases):
        res = check_pair(np, HLL, p, seed, hA, hB)
        keys = set(hist_keys(hA))
        ctx.case_seen((p, seed, repr(hA), repr(hB)), len(keys) >= 2 and hA != hB)
        ctx.count("p=%d" % p)
        ctx.count("sketches=%d" % n_leaves(hA))
        ctx.count("distinct_keys=%s" % (len(keys) if len(keys) < 8 else "8+"))
        for k in keys:
            r, _ = py_rank_idx(p, pyref.fasthash64(k, seed))
            ctx.count("rank_seen=%d" % r)
        if res is not None:
            nviol += 1
            if nviol <= 3:
                report(ctx, np, HLL, p, seed, hA, hB, res)
            continue
        if ci >= len(corpus) + n_cases:
            continue
        # the model gets history A always and history B for every third case
        a = run_hist(HLL, p, seed, hA)
        model_case(p, seed, hA, a.registers, int(a.m))
        n_model += len(hist_keys(hA))
        if ci % 3 == 0 or is_corpus:
            model_case(p, seed, hB, a.registers, int(a.m))
            n_model += len(hist_keys(hB))
        if ci < 3:
            ctx.sample({"p": p, "seed": seed, "history_A": hist_json(hA), "history_B": hist_json(hB),
                        "nonzero_registers": nonzero_pairs(np, a.registers), "query": a.query()})
    slot_suite(ctx, np, HLL, 300 if ctx.tier == "quick" else 3000)
    ctx.tick("pair cases + persistent-slot cases run on the implementation")

    # ---- per-operation suite: one sketch, registers recorded after every operation
    n_prefix = 0
    for ci in range(n_perop):
        p = rng.choice([7, 7, 8, 9, 10, 12, 16])
        seed = rng.choice(SEEDS + [rng.getrandbits(64)])
        units = gen_units(rng, p, seed, sweep, ctx)
        lst = [rng.choice(units) for _ in range(rng.randint(1, 6))] if units else []
        h = ops_from_units(rng, ("new",), lst)
        trace = []
        try:
            s = run_hist(HLL, p, seed, h, trace)
        except Exception as e:  # noqa
            ctx.violation({"p": p, "hll_seed": seed, "history_A": hist_json(h), "history_B": hist_json(h),
                           "error": repr(e)}, "C02 exception: " + repr(e))
            continue
        for (hp, regs) in trace:
            seen = hist_keys(hp)
            spec = spec_regs(p, seed, seen)
            ctx.case_seen(("perop", p, seed, repr(hp)), len(set(seen)) >= 2)
            if dict(nonzero_pairs(np, regs)) != spec:
                nviol += 1
                if nviol <= 3:
                    ctx.violation({"p": p, "hll_seed": seed, "history_A": hist_json(hp), "history_B": hist_json(hp),
                                   "impl_nonzero": nonzero_pairs(np, regs), "expected": sorted(spec.items())},
                                  "C02 max-rank: registers after an operation are not the max rank per index")
                break
            model_case(p, seed, hp, regs, int(s.m))
            n_model += len(hist_keys(hp))
            n_prefix += 1
    ctx.tick("per-operation cases run on the implementation")

    # ---- exhaustive sub-space (thorough tier): all orderings and 2-way partitions of every 4-key subset of an 8-key pool
    n_exh = 0
    if not quick:
        p, seed = 7, 2**63
        pool = [b"", b"\x00", b"a", b"a\x00", key_for_hash(5, seed), key_for_hash((1 << 63) | 5, seed),
                key_for_hash((3 << 20) | 5, seed), key_for_hash((1 << 40) | 6, seed)]
        for sub in itertools.combinations(pool, 4):
            f = HLL(p, seed)
            for k in sub:
                f.add(k)
            qf = fbits(f.query())
            for perm in itertools.permutations(sub):
                for mask in range(16):
                    for direction in (0, 1):
                        parts = (("new",), ("new",))
                        parts = list(parts)
                        for j, k in enumerate(perm):
                            side = (mask >> j) & 1
                            parts[side] = ("add", parts[side], k, 1)
                        h = ("merge", parts[direction], parts[1 - direction])
                        s = run_hist(HLL, p, seed, h)
                        n_exh += 1
                        ctx.case_seen(("exh", repr(h)), True)
                        if not np.array_equal(s.registers, f.registers) or fbits(s.query()) != qf:
                            nviol += 1
                            if nviol <= 3:
                                fh = ("upd", ("new",), tuple(sub))
                                ctx.violation({"p": p, "hll_seed": seed, "history_A": hist_json(h), "history_B": hist_json(fh),
                                               "kind": "registers"},
                                              "C02 registers: an ordering/2-way partition of a 4-key set differs from the fresh sketch")
                        elif direction == mask % 2:
                            model_case(p, seed, h, s.registers, int(s.m))
                            n_model += 4
        ctx.count("exhaustive_4of8_histories", n_exh)
        ctx.cov["exhaustive"] = True
        ctx.tick("exhaustive sub-space run on the implementation")

    ctx.cov["traces_validated_against_impl"] = len(coq_cases)
    ctx.cov["model_keys_hashed_in_coq"] = n_model

    # ---- the model on the same histories, inside Coq
    chk = ("fun c => let '(p, seed, h, m, expect, nnz) := c in hll_check_case p seed h m expect nnz")
    bad, err = ctx.coq_bad_cases("hll", "Machine Harness Hashes Ngram Hll", chk, [c for c, _ in coq_cases],
                                 shard=(90 if quick else 600))
    if err:
        ctx.broken.append("correspondence hll-reg could not be evaluated: " + err)
    if bad:
        i = sorted(bad)[0]
        p, seed, h, pairs = coq_cases[i][1]
        out = ctx.coq_show("mismatch", "Machine Hashes Ngram Hll",
                           f"(hll_m (hll_eval {p} {seed} {coq_hist(h)}), "
                           f"hll_show (hll_registers (hll_eval {p} {seed} {coq_hist(h)})) {1 << p})")
        ctx.broken.append(f"correspondence hll-reg: the model's registers differ from the implementation's on {len(bad)} "
                          f"histories; first: p={p} seed={seed} history={json.dumps(hist_json(h))[:600]} "
                          f"impl non-zero registers={pairs[:20]} model (m, non-zero registers)={' '.join(out.split())[:600]}")
    ctx.cov["model_cases_evaluated_in_coq"] = len(coq_cases)
    ctx.tick("coq evaluated")

    ctx.cov["rule"] = (
        "pair cases = 8 corpus + generated (p, seed, key pool, history A, history B), the first %d of them also evaluated "
        "in the model: p cycles 7..16; seed from " % n_cases +
        "{0,1,2^32-1,2^32,2^63,2^64-1} or random 64-bit; pool = empty key (25%) + 0..4 keys whose hash is CONSTRUCTED by "
        "inverting FastHash (8..23 bytes; rank swept through every value 1..64-p+1 per p, bit patterns 2^j / 2^j-1 / random, "
        "half of them sharing a register) + hostile keys (NULs, k and k+NUL, >=0x80) + random keys <= 24 bytes + 0..2 strings "
        "fed as n-gram windows (size 0 in 5% of them: the code adds len+1 empty keys); A and B are two independent random ways to feed the same pool: duplication 1..3x, partition "
        "over 1..5 sketches, per sketch a random mix of add(key, value in {0,1,..,2^64-1}) / update(list) / update(dict) / "
        "add_ngram / update_ngram (also with n >= len so the window is the key, n up to 2^64-1), random merge tree, adds "
        "after merges, double merges, self-merge.  Predicate on the real HyperLogLog: registers(A) = registers(B) = registers "
        "of a fresh sketch fed each distinct key once, query() bit-identical for the three, and registers = max rank per "
        "index computed from an independent pure-Python FastHash.  Model: history A of every case (B of every third), and "
        "every prefix of the per-operation histories, evaluated inside Coq: all non-zero registers (index,value), their "
        "count over all 2^p registers, and m.  distinct = distinct (p, seed, A, B); non-trivial = at least two distinct keys "
        "and A != B."
        + (" EXHAUSTIVE sub-space (flag `exhaustive` refers to this only): p=7, seed=2^63, every 4-key subset of an 8-key "
           "pool (4 constructed keys sharing registers 5/6), all 24 orderings x all 16 two-way partitions x both merge "
           "directions = %d histories, each compared with the fresh sketch (registers and query bits); half of them also "
           "evaluated in the model." % n_exh if not quick else ""))
    ctx.cov["per_operation_prefixes"] = n_prefix
    ctx.cov["constructed_p_rank_pairs_hit"] = "%d of 535" % len(ctx.p_rank_pairs)
    ctx.assumptions += [
        "Numba types _n_leading_zeros64/_add as read from inspect_types() under numba 0.67 (n: uint64, m-1: int64, rank: "
        "int64, store into the uint8 array truncates); the model writes these conversions out and the proofs show none of "
        "them changes a value for 7 <= p <= 16",
        "histories keep p and seed fixed (merge of sketches with other p/seed raises TypeError: property C15)",
        "add_ngram sizes are 1..2^64-1 in the theorems stated with `windows` (size 0 makes the code add len+1 empty keys; "
        "the raw-key-list variants of the theorems cover that too); keys shorter than 2^64 bytes",
        "registers are only written through the public methods (no direct pokes into .registers)"]
