"""C03 — heavy hitters never over-count and never report a key that was not added."""
import hh_common
import log_common as _L

# the runner theorems mention HH.step / check_case, whose case-file literals are primitive 63-bit integers and whose
# default threshold is the bit-exact binary64 product: Print Assumptions lists those kernel primitives (no logical
# axiom) under 'Axioms:'
ALLOWED_AXIOMS = frozenset(_L.PRIMITIVES)
MANIFEST = dict(
    category="proof",
    text="Coq theorems over a branch-for-branch Gallina model of heavyhitters.py (_add, add, _add_ngram, _merge, _max_count, "
         "__getitem__, generate_candidate_set, query, save/load), for every width, depth, max_key_len <= 255, every bucket "
         "function and every well formed history of adds with multiplicities, ngram adds, merges, save/load and queries: "
         "hh_cell_sound (count of the stored key <= true multiplicity of that key; a stored key with positive count sits in its "
         "own column), C03_getitem (hh[k] <= truth of the first max_key_len bytes of k as a byte string), C03_query (every "
         "reported (key, n) has 0 < n <= truth), pad_len_inj (array+length determine the byte string), C03_refuted_prefix (the "
         "unrepaired bytes-only matching rule violates the property: F1); C03_runner_registers_are_model_states / "
         "C03_runner_observes_model_state (for every program, every register of the correspondence runner is, inside the array "
         "bounds, eval of some history, and table code, hh[k] and query answers are those of that eval — so the correspondence "
         "run speaks of the object the theorems are about); C03_runner_bucket_below_width (the case check the harness evaluates, "
         "check_case_strict, decides bucket < width for the observed bucket map). Model tied to the code by running random and "
         "enumerated programs on the real HeavyHitters and evaluating the model inside Coq on the same programs, comparing the "
         "complete state after every operation.",
    design_ref="DESIGN.md section 6, C03",
    note="Trusted: Coq kernel + vm_compute; the hand transcription HH.v (validated by the correspondence run, bucket map observed "
         "on a probe sketch, never computed); translator for hh_cap; Numba's uint32/uint8 store semantics. n_added_records are "
         "modelled as unbounded integers (2^64 wrap out of scope); keys shorter than 2^64 bytes. Theorems closed under the "
         "global context (no axioms); the runner theorems (C03_runner_registers_are_model_states, C03_runner_bucket_below_width) "
         "mention the runner's primitive 63-bit integer literals and its binary64 default threshold, so Print Assumptions lists "
         "the PrimInt63/PrimFloat kernel primitives for them (no logical axiom).",
    technique="Coq proof (cell invariant by induction over histories) + vm_compute correspondence against the Numba code")


def run(ctx):
    ctx.level = "proof"
    quick = ctx.tier == "quick"
    extra = [(p, True) for p in hh_common.exhaustive_alias(5 if quick else 6)]
    n_ex = len(extra)
    if not quick:   # the longer enumeration goes to Coq only in part
        extra = [(p, i % 4 == 0) for i, (p, _) in enumerate(extra)]
    hh_common.run_suite(ctx, "C03", 1500 if quick else 20000, 500 if quick else 5000, extra_programs=extra)
    ctx.cov["exhaustive"] = True
    ctx.cov["rule"] = (
        "cases = 5 corpus programs (F1/F1b witnesses, saturation, cache) + EXHAUSTIVE sub-space: all %d add sequences of "
        "length <= %d over the alias alphabet {a, a\\0, '', \\0} with weights 3,2,2,1,1,2 by position at width 1, depth 1, "
        "max_key_len 2 (exhaustive only for that sub-space) + random programs of <= 25 operations (add/update list/dict/"
        "add_ngram/update_ngram/merge incl. self-merge/save-load through files/query/generate_candidate_set/hh[k]) on up to "
        "4 sketches, width 1..4, depth 1..4, max_key_len 1..16, alias alphabet (empty, NUL runs, k, k+NUL, k+NULNUL, keys "
        "longer than max_key_len sharing the prefix, bytes >= 0x80), multiplicities {0,1,2,small,2^32-2..2^32+1}. "
        "Predicate on the implementation after every operation: hh[k] <= Counter[k[:max_key_len]] for the whole alphabet and "
        "0 < n <= Counter[key] for every reported pair. distinct = distinct (shape, program); non-trivial = two added keys "
        "share a cell, or a key and its NUL-suffixed alias were both added, or two non-empty sketches were merged, or a cell "
        "mass reached 2^32-2." % (n_ex, 5 if quick else 6))
    ctx.assumptions += ["np.uint64(len(key)) does not wrap (keys shorter than 2^64 bytes)",
                        "n_added_records does not wrap at 2^64",
                        "multiplicities are non-negative integers; thresholds are in [0, 2^32-1] (others raise OverflowError)",
                        "lhh/lhh_count/key_lens are only changed through the public methods"]
