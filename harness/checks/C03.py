"""C03 — heavy hitters never over-count and never report a key that was not added."""
import hh_common

ALLOWED_AXIOMS = frozenset()
MANIFEST = dict(
    category="proof",
    text="placeholder",
    design_ref="DESIGN.md section 6, C03",
    note="placeholder",
    technique="Coq proof + vm_compute correspondence against the Numba code")


def run(ctx):
    ctx.level = "proof"
    quick = ctx.tier == "quick"
    hh_common.run_suite(ctx, "C03", 300 if quick else 20000, 300 if quick else 6000)
