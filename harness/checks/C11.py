"""C11 — fasthash64/fasthash32/murmur3 equal the published algorithms on all inputs."""
import os
import subprocess
import sys

import lib
import pyref

ALLOWED_AXIOMS = frozenset()
MANIFEST = dict(
   category="proof",
   text="Coq theorems C11_fasthash64/32/murmur3: the branch-for-branch transcription of hashes.py (over constants re-read "
        "from the source on every run) equals an independently written reference of FastHash and MurmurHash3_x86_32 for "
        "every byte string and every in-range seed; tied to the code by evaluating transcription and reference inside Coq "
        "on the same inputs as the Numba functions (all lengths 0..257, boundary seeds) plus a pure-Python third reference "
        "and a second interpreter.",
   design_ref="DESIGN.md section 6, C11",
   note="Trusted: Coq kernel + vm_compute; translator for the constants; the hand transcription Hashes.v (validated by the "
        "correspondence run); my reading of the published algorithms (HashSpec.v, cross-checked with the repo's 22 C++ vectors); "
        "Numba's uint wrap semantics. Theorems closed under the global context (no axioms).",
   technique="Coq proof (transcription = reference spec, all inputs) + vm_compute correspondence against the Numba code")
SEEDS = [0, 1, 2**32 - 1, 2**32, 2**63, 2**64 - 1]
BIAS = [0x00, 0x7F, 0x80, 0xFF]


def gen_cases(ctx, n):
    rng = ctx.rng
    cases = []
    big = bytes(rng.getrandbits(8) for _ in range(600))
    for i in range(n):
        ln = i % 258 if i < 258 * 3 else rng.choice([rng.randrange(0, 24), rng.randrange(0, 258), rng.randrange(0, 70)])
        mode = rng.randrange(4)
        if mode == 0:
            k = bytes(rng.choice(BIAS) for _ in range(ln))
        elif mode == 1:
            k = bytes(rng.choice(BIAS) if rng.random() < 0.5 else rng.getrandbits(8) for _ in range(ln))
        elif mode == 2:
            off = rng.randrange(16)
            k = big[off:off + ln]                      # sliced at every alignment offset
            k = bytes(memoryview(big)[off:off + ln])
        else:
            k = bytes(rng.getrandbits(8) for _ in range(ln))
        seed = rng.choice(SEEDS) if rng.random() < 0.6 else rng.getrandbits(64)
        cases.append((k, seed, seed & 0xFFFFFFFF))
    return cases


def run(ctx):
    n = 3000 if ctx.tier == "quick" else 40000
    ctx.level = "proof"
    sk = ctx.impl()
    from sketchnu.hashes import fasthash64, fasthash32, murmur3
    import numpy as np

    # corpus: repository vectors + edge cases first
    cases = [(b"", 0, 0), (b"", 2**64 - 1, 2**32 - 1), (b"\x00", 0, 0), (b"\x00" * 8, 0, 0),
             (b"\xff" * 7, 2**63, 5), (b"0123456789abcdef", 0, 0), (b"0123456789abcdef", 5, 5),
             (b"test", 0, 0), (b"abc", 1, 1), (b"123", 2, 2)]
    cases += gen_cases(ctx, n)

    ctx.tick('imported, cases generated')
    impl_vals = []
    coq_cases = []
    nviol = 0
    for (k, s, s32) in cases:
        try:
            v64 = int(fasthash64(k, np.uint64(s)))
            v32 = int(fasthash32(k, np.uint64(s)))
            m3 = int(murmur3(k, np.uint32(s32)))
            # purity: a second call gives the same value
            again = (int(fasthash64(k, np.uint64(s))), int(fasthash32(k, np.uint64(s))), int(murmur3(k, np.uint32(s32))))
        except Exception as e:  # noqa
            ctx.violation({"key": list(k), "seed": s, "error": repr(e)}, "hash function raised " + repr(e))
            nviol += 1
            if nviol > 3:
                break
            continue
        impl_vals.append((v64, v32, m3))
        ref = (pyref.fasthash64(k, s), pyref.fasthash32(k, s), pyref.murmur3(k, s32))
        ctx.case_seen((k, s), len(k) >= 1)
        ctx.count("len%8=" + str(len(k) % 8))
        ctx.count("len<8" if len(k) < 8 else "len<64" if len(k) < 64 else "len>=64")
        if (v64, v32, m3) != ref or again != (v64, v32, m3):
            if nviol < 3:
                ctx.violation({"key": list(k), "seed": s, "seed32": s32,
                               "impl": {"fasthash64": v64, "fasthash32": v32, "murmur3": m3, "second_call": again},
                               "published": {"fasthash64": ref[0], "fasthash32": ref[1], "murmur3": ref[2]}},
                              "hash value differs from the published algorithm")
            nviol += 1
        coq_cases.append(f"({lib.zkey(k)}, {s}, {s32}, {v64}, {v32}, {m3})")
    ctx.cov["traces_validated_against_impl"] = len(impl_vals)
    ctx.sample({"key": list(cases[5][0]), "seed": cases[5][1], "impl": impl_vals[5]})
    ctx.sample({"key": list(cases[300][0]), "seed": cases[300][1], "impl": impl_vals[300]})

    ctx.tick('impl+pyref evaluated')
    # second interpreter with a different PYTHONHASHSEED recomputes a subset
    sub_cases = cases[:200]
    env = dict(os.environ, PYTHONHASHSEED="12345", PYTHONPATH=lib.REPO)
    code = ("import sys,json\n"
            "from sketchnu.hashes import fasthash64,fasthash32,murmur3\n"
            "cs=json.load(sys.stdin)\n"
            "print(json.dumps([[int(fasthash64(bytes(k),s)),int(fasthash32(bytes(k),s)),int(murmur3(bytes(k),s32))] for k,s,s32 in cs]))\n")
    import json
    p2 = subprocess.Popen([sys.executable, "-c", code], stdin=subprocess.PIPE, stdout=subprocess.PIPE,
                          stderr=subprocess.PIPE, env=env, text=True)
    p2.stdin.write(json.dumps([[list(k), s, s32] for k, s, s32 in sub_cases]))
    p2.stdin.close()

    # model (transcription) and Coq reference on the same inputs
    chk = ("fun c => let '(k, s, s32, v64, v32, m3) := c in "
           "let h := Hashes.fasthash64 k s in let hs := spec_fasthash64 k s in "
           "(h =? v64) && (fh32_fin h =? v32) && (Hashes.murmur3 k s32 =? m3) && "
           "(hs =? v64) && (spec_fh32_fin hs =? v32) && (spec_murmur3 k s32 =? m3)")
    # quick tier: every length 0..257 once plus the corpus and a random remainder go through Coq
    ncoq = 1100 if ctx.tier == "quick" else 12000
    idx = list(range(min(len(coq_cases), 10 + 258))) + sorted(ctx.rng.sample(range(268, len(coq_cases)), ncoq - 268))
    coq_sel = [coq_cases[i] for i in idx]
    terr = [k for k in (getattr(ctx, "translator_errors", None) or {}) if k.startswith("consts:hashes")]
    if terr:
        # the model is written over constants read from the source; when they could not be read it runs on sentinel
        # values (-1 shift amounts and multipliers: meaningless, and vm_compute on them takes minutes per shard).  The
        # translator obligation is already recorded as broken; the failing inputs come from the reference comparison above.
        bad, err = set(), None
        ctx.broken.append("correspondence hash-kat not evaluated in Coq: the hash constants could not be read from the source "
                          "(" + ", ".join(sorted(terr)) + ")")
        coq_sel = []
    else:
        bad, err = ctx.coq_bad_cases("hash", "Machine Harness Hashes HashSpec", chk, coq_sel, shard=70, timeout=300)
    bad = {idx[b] for b in bad}
    if err:
        ctx.broken.append("correspondence hash-kat could not be evaluated: " + err)
    if bad:
        i = sorted(bad)[0]
        k, s, s32 = cases[i]
        out = ctx.coq_show("mismatch", "Machine Hashes HashSpec",
                           f"(Hashes.fasthash64 {lib.zkey(k)} {s}, Hashes.fasthash32 {lib.zkey(k)} {s}, "
                           f"Hashes.murmur3 {lib.zkey(k)} {s32}, spec_fasthash64 {lib.zkey(k)} {s}, spec_murmur3 {lib.zkey(k)} {s32})")
        ctx.broken.append(f"correspondence hash-kat: model/spec differ from the implementation on {len(bad)} cases, "
                          f"first key={list(k)} seed={s}: impl={impl_vals[i]} coq={out[:300]}")
    ctx.cov["model_cases_evaluated_in_coq"] = len(coq_sel)

    ctx.tick('coq evaluated')
    # second interpreter
    try:
        out = p2.stdout.read()
        p2.wait(timeout=600)
        other = json.loads(out.strip().splitlines()[-1])
        ctx.cov["second_interpreter_cases"] = len(other)
        for (k, s, s32), o, mine in zip(sub_cases, other, impl_vals):
            if tuple(o) != tuple(mine):
                ctx.violation({"key": list(k), "seed": s, "this_process": mine, "other_process": o},
                              "hash value depends on the process (PYTHONHASHSEED)")
                break
    except Exception as e:  # noqa
        ctx.broken.append("second interpreter run failed: " + repr(e))

    if ctx.tier == "thorough" and not ctx.second_search:
        lib.run_coqchk(ctx)
        ctx.tick("coqchk -o over all compiled libraries")
    ctx.cov["rule"] = ("cases = 10 corpus vectors + generated (key,seed): lengths 0..257 three times over then random, "
                       "bytes biased to 00/7f/80/ff, seeds from {0,1,2^32-1,2^32,2^63,2^64-1} or random 64-bit; "
                       "each case evaluates all three functions on the implementation, on a pure-Python reference, and "
                       "inside Coq on both the transcription and the reference spec; distinct = distinct (key,seed); "
                       "non-trivial = key length >= 1")
    ctx.assumptions += ["Numba compiles hashes.py as written (uint64/uint32 wrap semantics, little-endian frombuffer)",
                        "the reference algorithms in HashSpec.v / pyref.py are my reading of smhasher's fasthash.cpp "
                        "and MurmurHash3_x86_32; cross-checked against the repository's 22 C++-derived vectors"]
