"""C18 — counters saturate at their ceiling; they never wrap around."""
import decimal
import os

import lib
import cms_common as cc

import log_common as _L
ALLOWED_AXIOMS = frozenset(set(lib.AX_REALS) | set(_L.PRIMITIVES))
MANIFEST = dict(
    category="proof",
    text="Coq theorems: linear count-min: every counter of every reachable sketch stays in [0,2^32-1] (no intermediate uint32 "
         "expression wraps), an estimate at the ceiling stays there under any add or merge (either operand), no add or merge lowers "
         "an estimate - for every state in range, every row-hash function.  Heavy hitters / log counters: C18_hh_* and C18_log_* in "
         "their models.  Base clause: for every log configuration of a grid that the constructor accepts, a per-configuration "
         "Coq-Interval certificate proves |num_reserved + (b^K-1)/(b-1) - max_count| <= 1e-8*max_count for the exact binary64 base b "
         "read from the sketch (translation validation of _find_base's result); rejected configurations must raise ValueError.  "
         "Tied to the code by ceiling-focused histories (adds/merges landing within +-3 of the ceiling, repeated after saturation) on "
         "the real classes, sticky/monotone clauses checked on the implementation, linear states compared with the model in Coq.",
    design_ref="DESIGN.md section 6, C18",
    note="Trusted: Coq kernel + vm_compute; transcriptions; the Interval tactic (Coq-Interval with Flocq/Coquelicot) brings the "
         "standard-library real-number axioms (ClassicalDedekindReals.sig_forall_dec, sig_not_dec, functional_extensionality_dep, "
         "Classical_Prop.classic) into the per-configuration certificates only; the property theorems in props/C18.v are closed "
         "under the global context.  Tolerance 1e-8 relative is the meaning given to 'decodes to max_count'.",
    technique="Coq proof (range/sticky/monotone invariants) + per-configuration Coq-Interval certificates + vm_compute correspondence")


def lin_pred(i, op, slot, before, after, bm, universe, extra):
    CAP = cc.CAP
    qb, qa = dict(before[3]), dict(after[3])
    for k in universe:
        if qa[k] < qb[k]:
            return {"clause": "no add or merge lowers an estimate", "op": op[0], "key": list(k), "before": qb[k], "after": qa[k]}
        if qb[k] == CAP and qa[k] != CAP:
            return {"clause": "ceiling is sticky", "op": op[0], "key": list(k), "after": qa[k]}
        if not (0 <= qa[k] <= CAP):
            return {"clause": "estimate out of [0, 2^32-1]", "key": list(k), "after": qa[k]}
    if op[0] == "merge":
        qo = dict(extra["other_before"][3])
        for k in universe:
            if qo[k] == CAP and qa[k] != CAP:
                return {"clause": "ceiling of the merged-in sketch is sticky", "key": list(k), "after": qa[k]}
    return None


def ceiling_program(rng, alphabet, nslots):
    CAP = cc.CAP
    near = [CAP - 3, CAP - 2, CAP - 1, CAP, CAP + 1, CAP + 3, 2**40]
    prog = []
    for s in range(nslots):
        k = rng.choice(alphabet)
        prog.append(("add", s, k, rng.choice(near)))
    for _ in range(rng.randint(2, 10)):
        s = rng.randrange(nslots)
        x = rng.random()
        if x < 0.55:
            prog.append(("add", s, rng.choice(alphabet), rng.choice([0, 1, 2, 3, 5] + near)))
        elif x < 0.75 and nslots > 1:
            prog.append(("merge", s, rng.choice([t for t in range(nslots) if t != s])))
        elif x < 0.85:
            prog.append(("saveload", s))
        else:
            prog.append(("update_list", s, [rng.choice(alphabet) for _ in range(3)]))
    return prog


def run(ctx):
    rng = ctx.rng
    ctx.impl()
    import numpy as np
    from sketchnu.countmin import CountMinLog16, CountMinLog8
    from sketchnu.heavyhitters import HeavyHitters
    quick = ctx.tier == "quick"
    CAP = cc.CAP

    # ---------------- linear: ceiling-focused histories, predicate + model
    suite = cc.LinearSuite(ctx, "linear count-min estimate fell or left the ceiling")
    for _ in range(250 if quick else 3000):
        w = rng.choice([1, 1, 2, 3, 4])
        d = rng.choice([1, 2, 3])
        alphabet = rng.sample(cc.BASE_KEYS, 3)
        nslots = rng.choice([1, 2, 3])
        suite.run_case(w, d, alphabet, nslots, ceiling_program(rng, alphabet, nslots), lin_pred,
                       nontrivial=lambda prog, bm, u: True)
    ctx.tick("linear ceiling histories")
    suite.finish()
    ctx.tick("linear model in Coq")

    # ---------------- heavy hitters (implementation level): a key alone in its cells
    nviol = 0
    for it in range(150 if quick else 1500):
        w, d, mkl = rng.choice([1, 2, 8]), rng.choice([1, 2, 4]), rng.choice([1, 4, 16])
        key = bytes(rng.getrandbits(8) for _ in range(rng.randint(0, mkl)))
        hs = [HeavyHitters(w, d, mkl) for _ in range(rng.choice([1, 2, 3]))]
        truth = [0] * len(hs)
        last = [0] * len(hs)
        trace = []
        for _ in range(rng.randint(2, 9)):
            i = rng.randrange(len(hs))
            if rng.random() < 0.7 or len(hs) == 1:
                v = rng.choice([0, 1, 2, CAP - 3, CAP - 1, CAP, CAP + 2, 2**40])
                hs[i].add(key, v)
                truth[i] += v
                trace.append(["add", i, v])
            else:
                j = rng.choice([t for t in range(len(hs)) if t != i])
                hs[i].merge(hs[j])
                truth[i] += truth[j]
                trace.append(["merge", i, j])
            got = int(hs[i][key])
            want = min(truth[i], CAP)
            if (got != want or got < last[i]) and nviol < 3:
                ctx.violation({"class": "HeavyHitters", "width": w, "depth": d, "max_key_len": mkl, "key": list(key), "trace": trace,
                               "hh[key]": got, "expected_min(truth,cap)": want, "previous": last[i]},
                              "heavy-hitter count of a key that fills its cells alone is not min(true count, 2^32-1) / decreased")
                nviol += 1
            last[i] = got
        ctx.case_seen(("hh", w, d, mkl, key, repr(trace)), True)
        ctx.count("hh-alone")
    ctx.tick("heavy-hitter saturation")

    # ---------------- log counters (implementation level): reach the ceiling, stay there, never decrease
    cfgs8 = [(300, 0), (300, 15), (1000, 15), (5000, 100), (2**32 - 1, 15)]
    cfgs16 = [(70000, 0), (100000, 1023), (2**32 - 1, 1023)]
    for it in range(40 if quick else 400):
        if rng.random() < 0.7:
            mc, nr = rng.choice(cfgs8)
            mk = lambda: CountMinLog8(rng.choice([1, 2]), 2, mc, nr)
            umax = 255
        else:
            mc, nr = rng.choice(cfgs16)
            mk = lambda: CountMinLog16(1, 1, mc, nr)
            umax = 65535
        a = mk()
        b = type(a)(int(a.width), int(a.depth), mc, nr)
        keys = [b"k", b"j", b""]
        trace = []
        prev = {k: 0.0 for k in keys}
        for step in range(rng.randint(3, 8)):
            x = rng.random()
            if x < 0.6:
                k = rng.choice(keys)
                v = rng.choice([1, 5, nr + 1, 10 * mc if mc < 10**6 else 3, 2 * mc if mc < 10**6 else 1])
                a.add(k, v)
                trace.append(["add", list(k), v])
            elif x < 0.8:
                a.cms[:] = np.maximum(a.cms, rng.choice([umax - 1, umax, nr + 2]))   # jump close to the ceiling
                trace.append(["raise-table"])
                prev = {k: float(a.query(k)) for k in keys}
                continue
            else:
                b.add(rng.choice(keys), rng.choice([1, mc if mc < 10**6 else 7]))
                a.merge(b)
                trace.append(["merge"])
            for k in keys:
                q = float(a.query(k))
                if q < prev[k] - 1e-9 * max(1.0, prev[k]) and nviol < 3:
                    ctx.violation({"class": type(a).__name__, "max_count": mc, "num_reserved": nr, "trace": trace, "key": list(k),
                                   "before": prev[k], "after": q}, "a log count-min estimate decreased under add/merge")
                    nviol += 1
                prev[k] = q
        # saturate completely, then further adds and merges must leave the estimate at max_count
        a.cms[:] = umax
        top = float(a.query(b"k"))
        a.add(b"k", 1000)
        a.merge(b)
        a.add(b"j", 1)
        if (int(a.cms.min()) != umax or float(a.query(b"k")) != top) and nviol < 3:
            ctx.violation({"class": type(a).__name__, "max_count": mc, "num_reserved": nr, "min_counter_after": int(a.cms.min()),
                           "estimate_before": top, "estimate_after": float(a.query(b"k"))},
                          "a saturated log sketch left the ceiling after add/merge")
            nviol += 1
        if abs(top - mc) > 1e-8 * mc and nviol < 3:
            ctx.violation({"class": type(a).__name__, "max_count": mc, "num_reserved": nr, "ceiling_decodes_to": top},
                          "the maximum counter does not decode to max_count")
            nviol += 1
        ctx.case_seen(("log", type(a).__name__, mc, nr, repr(trace)), True)
        ctx.count("log-ceiling")
    ctx.tick("log saturation")
    import log_checks
    log_checks.c18(ctx)

    # ---------------- base clause: grid of configurations, exact-arithmetic oracle + Coq-Interval certificates
    decimal.getcontext().prec = 80
    grid = []
    mcs = [300, 1000, 10**4, 10**6, 2**32 - 1, 2**40, 2**63]
    for mc in mcs:
        for nr in ([0, 1, 15, 100, 200, 250, 253, 254] if quick else list(range(0, 255, 9)) + [250, 252, 253, 254]):
            grid.append(("log8", CountMinLog8, 255, mc, nr))
        for nr in ([0, 1023, 30000, 65000, 65500, 65533, 65534] if quick else [0, 1, 1023, 5000, 30000, 50000, 65000, 65400, 65500, 65530, 65533, 65534]):
            grid.append(("log16", CountMinLog16, 65535, mc, nr))
    certs = []
    accepted = rejected = 0
    for name, cls, umax, mc, nr in grid:
        try:
            s = cls(1, 1, mc, nr)
        except ValueError:
            rejected += 1
            ctx.count("config-rejected")
            ctx.case_seen(("cfg", name, mc, nr), True)
            continue
        accepted += 1
        ctx.count("config-accepted")
        ctx.case_seen(("cfg", name, mc, nr), True)
        s.cms[:] = umax
        dec = float(s.query(b"x"))
        b = float(s.base)
        K = umax - nr
        bd = decimal.Decimal(b)
        exact = decimal.Decimal(nr) + (bd ** K - 1) / (bd - 1)
        rel_exact = abs(exact - mc) / mc
        rel_impl = abs(dec - mc) / mc
        if (rel_exact > decimal.Decimal("1e-8") or rel_impl > 1e-8) and nviol < 4:
            ctx.violation({"class": cls.__name__, "max_count": mc, "num_reserved": nr, "base": b.hex(), "ceiling_decodes_to": dec,
                           "exact_value_of_nr+(b^K-1)/(b-1)": str(exact)[:40], "relative_error": float(rel_exact)},
                          "an accepted log configuration's maximum counter does not decode to max_count")
            nviol += 1
            continue
        num, den = b.as_integer_ratio()
        certs.append((name, mc, nr, f"Goal let b := ({num} * / {den})%R in Rabs ({nr} + (powerRZ b {K} - 1) / (b - 1) - {mc}) <= 1e-8 * {mc}.\n"
                                    f"Proof. intros b; unfold b; interval with (i_prec 150). Qed.\n"))
    ctx.cov["configurations"] = {"accepted": accepted, "rejected_with_ValueError": rejected}
    ctx.tick("configuration grid on the implementation")
    # compile the certificates (sharded); a failing one names its configuration
    shards = [certs[i::4] for i in range(4)]
    from concurrent.futures import ThreadPoolExecutor

    def compile_shard(arg):
        si, sh = arg
        if not sh:
            return si, 0, "", []
        path = os.path.join(ctx.dir, f"cert_{si}.v")
        with open(path, "w") as f:
            f.write("From Coq Require Import Reals.\nFrom Interval Require Import Tactic.\nOpen Scope R_scope.\n")
            for (_, _, _, txt) in sh:
                f.write(txt)
        rc, out, err = lib.run(["coqc", path], 900, cwd=ctx.dir)
        return si, rc, err, sh
    ncert = 0
    with ThreadPoolExecutor(max_workers=4) as ex:
        for si, rc, err, sh in ex.map(compile_shard, list(enumerate(shards))):
            if rc != 0:
                import re
                m = re.search(r"line (\d+)", err)
                which = sh[(int(m.group(1)) - 4) // 2] if m else None
                ctx.broken.append(f"ceiling certificate does not check for configuration {which[:3] if which else '?'}: {err.strip()[:300]}")
            else:
                ncert += len(sh)
    ctx.cov["obligations"] += len(certs)
    ctx.cov["discharged"] += ncert
    ctx.cov["interval_certificates"] = ncert
    ctx.tick("Coq-Interval certificates")
    ctx.cov["rule"] = ("linear: programs that start each slot within +-3 of 2^32-1 (or at 2^40) and continue with adds/merges/save-load; "
                       "sticky + monotone + range clauses after every step for all universe keys; final states compared with the Coq model. "
                       "heavy hitters: one key alone in 1..3 sketches with adds near the ceiling and merges; hh[key] = min(truth,cap), never "
                       "decreasing.  log8/log16: small max_count configurations driven to the ceiling, estimates never decrease, saturated "
                       "sketch stays saturated and decodes to max_count.  base clause: grid of (type, max_count in 300..2^63, num_reserved "
                       "0..umax-1): accepted -> exact-decimal oracle + a Coq-Interval certificate for the exact base; rejected -> ValueError")
    ctx.assumptions += ["'decodes to max_count' is read as within 1e-8 relative (the defaults are off by 4e-12 from pow rounding)"]
