"""C12 — batch, dict, multiplicity and ngram entry points equal loops of single adds."""
import lib
import cms_common as cc

import log_common as _L
ALLOWED_AXIOMS = frozenset(_L.PRIMITIVES)   # Print Assumptions lists the kernel's primitive float/int operations under 'Axioms:'
MANIFEST = dict(
    category="proof",
    text="Coq theorems: the uint64 index loop shared by every _add_ngram* kernel enumerates exactly the length-n windows "
         "(or the key itself when len <= n) for every key and 1 <= n < 2^64; update(list)/update(dict)/update_ngram are folds of "
         "single adds; add(key, v) equals v unit adds pointwise on the whole state incl. n_added (linear: C12_lin_mult, both "
         "saturate identically; HyperLogLog ignores v; log/heavy-hitter rows: C12_log_* / C12_hh_* in their models).  Tied to the "
         "code by running every entry point against its loop of single adds on the real classes (all five, identical draws for log "
         "sketches) and comparing the complete public state, and by evaluating the model on the same programs inside Coq.",
    design_ref="DESIGN.md section 6, C12",
    note="Trusted: Coq kernel + vm_compute; model transcriptions; n = 0 (wraps to 2^64-1 windows of the empty key) is outside the "
         "property's quantifier; theorems closed under the global context. Log theorems mention binary64 tables, so Print Assumptions lists the kernel's primitive float operations (not logical axioms).",
    technique="Coq proof (window enumeration lemma, fold/iter characterisation) + implementation-vs-loop and model correspondence")


def state_of(kind, s):
    import numpy as np
    if kind == "hll":
        return (s.registers.tobytes(),)
    if kind == "hh":
        return (s.lhh.tobytes(), s.lhh_count.tobytes(), s.key_lens.tobytes(), s.n_added_records.tobytes())
    st = (np.asarray(s.cms).tobytes(), s.n_added_records.tobytes())
    if kind in ("log8", "log16"):
        st += (int(s.rand_ptr), s.rand_nums.tobytes())
    return st


def run(ctx):
    rng = ctx.rng
    ctx.impl()
    import numpy as np
    from numba import njit
    from sketchnu.countmin import CountMinLinear, CountMinLog16, CountMinLog8
    from sketchnu.hyperloglog import HyperLogLog
    from sketchnu.heavyhitters import HeavyHitters

    @njit
    def nb_seed(x):
        np.random.seed(x)

    quick = ctx.tier == "quick"
    n_cases = 1000 if quick else 8000
    nviol = 0

    def mk(kind, w, d, cfg):
        if kind == "linear":
            return CountMinLinear(w, d)
        if kind == "log16":
            return CountMinLog16(w, d, cfg["max_count16"], cfg["nr16"])
        if kind == "log8":
            return CountMinLog8(w, d, cfg["max_count"], cfg["nr8"])
        if kind == "hll":
            return HyperLogLog(cfg["p"], cfg["seed"])
        return HeavyHitters(w, d, cfg["mkl"])

    kinds = ["linear", "log16", "log8", "hll", "hh"]
    for it in range(n_cases):
        kind = kinds[it % 5]
        w = rng.choice([1, 2, 2, 3, 3, 4, 8])
        d = rng.choice([1, 2, 3, 3, 4])
        cfg = {"max_count": rng.choice([300, 5000, 2**32 - 1]), "max_count16": rng.choice([100000, 2**32 - 1]), "nr16": rng.choice([0, 3, 1023, 1023]), "nr8": rng.choice([0, 3, 15, 15, 100]),
               "p": rng.choice([7, 8, 10]), "seed": rng.choice([0, 1, 2**63, rng.getrandbits(64)]), "mkl": rng.choice([1, 2, 4, 16])}
        alphabet = [bytes(rng.getrandbits(8) for _ in range(rng.choice([0, 1, 2, 3, 5, 8, 17, 40]))) for _ in range(rng.randint(2, 5))]
        alphabet += [b"", alphabet[0] + b"\x00"]
        A, B = mk(kind, w, d, cfg), mk(kind, w, d, cfg)
        if kind in ("log8", "log16"):
            B.rand_nums[:] = A.rand_nums
            B.rand_ptr = A.rand_ptr
        # common random prefix so that collisions are order dependent
        prefix = [(rng.choice(alphabet), rng.choice([1, 1, 2, 5, 40])) for _ in range(rng.randint(0, 6))]
        form = rng.choice(["update_list", "update_dict", "update_dict", "mult", "mult", "mult", "ngram", "update_ngram", "getitem"])
        detail = {}
        seedval = rng.getrandbits(31)

        def drive(S, single):
            nb_seed(seedval)                       # identical refills for A and B
            for k, v in prefix:
                S.add(k, v)
            if form == "update_list":
                ks = detail.setdefault("keys", [rng.choice(alphabet) for _ in range(rng.randint(0, 8))])
                if single:
                    for k in ks:
                        S.add(k)
                else:
                    S.update(list(ks))
            elif form == "update_dict":
                kv = detail.setdefault("items", {k: rng.choice([1, 2, 3, 10, 1000, 10**4]) for k in
                                                 rng.sample(alphabet, rng.randint(0, len(alphabet)))})
                if single:
                    for k, v in kv.items():
                        S.add(k, v)
                else:
                    S.update(dict(kv))
            elif form == "mult":
                k = detail.setdefault("key", rng.choice(alphabet))
                v = detail.setdefault("v", rng.choice([1, 2, 3, 7, 100, 1000, 10**4]))
                if single:
                    for _ in range(v):
                        S.add(k)
                else:
                    S.add(k, v)
            elif form == "ngram":
                k = detail.setdefault("key", rng.choice(alphabet))
                n = detail.setdefault("n", rng.randint(1, len(k) + 2))
                if single:
                    for wdw in cc.windows(k, n):
                        S.add(wdw)
                else:
                    S.add_ngram(k, n)
            elif form == "update_ngram":
                ks = detail.setdefault("keys", [rng.choice(alphabet) for _ in range(rng.randint(0, 4))])
                n = detail.setdefault("n", rng.randint(1, 6))
                if single:
                    for k in ks:
                        S.add_ngram(k, n)
                else:
                    S.update_ngram(list(ks), n)
        drive(A, False)
        drive(B, True)
        bad = None
        if state_of(kind, A) != state_of(kind, B):
            bad = {"clause": f"{form} != loop of single adds", "class": kind}
        if form == "getitem" and kind != "hll":
            for k in alphabet:
                g, q = A[k], (A.query(k) if kind != "hh" else None)
                if kind != "hh" and (g != q):
                    bad = {"clause": "sketch[key] != query(key)", "class": kind, "key": list(k), "getitem": float(g), "query": float(q)}
        if bad and nviol < 3:
            bad.update({"width": w, "depth": d, "config": cfg, "prefix": [[list(k), v] for k, v in prefix], "form": form,
                        "detail": {kk: ([list(x) for x in vv] if isinstance(vv, list) else
                                        ({str(list(a)): b for a, b in vv.items()} if isinstance(vv, dict) else
                                         (list(vv) if isinstance(vv, bytes) else vv))) for kk, vv in detail.items()},
                        "numba_seed": seedval})
            ctx.violation(bad, "an entry point differs from its loop of single adds on the implementation")
            nviol += 1
        ctx.case_seen((kind, w, d, form, repr(prefix), repr(detail)), w <= 2 or len(prefix) >= 2)
        ctx.count("class:" + kind)
        ctx.count("form:" + form)
        if it < 3:
            ctx.sample({"class": kind, "form": form, "width": w, "depth": d, "detail": repr(detail)[:200]})
        del A, B
    ctx.tick("entry points vs loops on the implementation (five classes)")

    # ---- linear model tie: programs made of the batch / ngram / multiplicity entry points
    suite = cc.LinearSuite(ctx, "n/a")
    for _ in range(150 if quick else 1500):
        w = rng.choice([1, 2, 3, 4])
        d = rng.choice([1, 2, 3])
        alphabet = rng.sample(cc.BASE_KEYS, 4)
        prog = []
        for _ in range(rng.randint(1, 8)):
            x = rng.random()
            if x < 0.25:
                prog.append(("update_list", 0, [rng.choice(alphabet) for _ in range(rng.randint(0, 5))]))
            elif x < 0.5:
                prog.append(("update_dict", 0, [(k, rng.choice([0, 1, 3, 1000, cc.CAP, 2**40])) for k in rng.sample(alphabet, rng.randint(0, 3))]))
            elif x < 0.7:
                k = rng.choice(alphabet)
                prog.append(("ngram", 0, k, rng.randint(1, len(k) + 2)))
            elif x < 0.85:
                prog.append(("update_ngram", 0, [rng.choice(alphabet) for _ in range(rng.randint(0, 3))], rng.randint(1, 5)))
            else:
                prog.append(("add", 0, rng.choice(alphabet), rng.choice([1, 2, 1000, 10**4])))
        suite.run_case(w, d, alphabet, 1, prog)
    suite.finish()
    ctx.tick("linear model evaluated in Coq")
    ctx.cov["rule"] = ("per case: one of the five classes (round robin), small widths, a random common prefix of adds, then one entry "
                       "point (update(list), update(dict), add(key,v) with v up to 10^4, add_ngram with n in 1..len+2, update_ngram, "
                       "__getitem__) applied to sketch A and its loop of single adds applied to twin B (log sketches share rand_nums/"
                       "rand_ptr and Numba's generator is reseeded identically so refills agree); complete public state compared byte "
                       "for byte; plus batch/ngram programs on CountMinLinear compared with the Coq model (HyperLogLog's model tie for "
                       "these entry points is part of C02's run); non-trivial = width <= 2 or a prefix of >= 2 adds")
