"""C16 — shared-memory and attached sketches behave like in-memory ones (partial: layout and view algebra
proved, SharedMemory size / unaligned views / __del__ lifetime observed)."""
import gc
import json
import os
import time

import lib
import shm_common as sc

ALLOWED_AXIOMS = frozenset()
MANIFEST = dict(
    category="proof",
    text="PARTIAL. Coq theorems C16_layout_agree (the offset arithmetic of __init__(shared_memory=True) and of "
         "attach_existing_shm, transcribed from the three modules, give the same views for every configuration and buffer "
         "length), C16_disjoint_cover (on a block of the requested size the views are in order, pairwise disjoint, tile the "
         "block, and the trailing buf[start:] slice is exactly two uint64 whatever the alignment), C16_view_algebra "
         "(read-after-write, non-interference of disjoint views, equal layouts read equal values) and C16_same_semantics "
         "(array-only kernels run through views of one block go through the same array states as on private arrays, for the "
         "owner and any attached view).  Tied to the code by observing the byte offset/count/itemsize of every array of "
         "owner and attached sketches inside the real block and comparing with the model inside Coq, by checking the "
         "model's read/write against np.frombuffer on real block bytes, and by driving owner, 1-2 attached views and an "
         "in-memory twin with the same interleaved operations and comparing every view's complete state after every op.",
    design_ref="DESIGN.md section 6, C16",
    note="Proved: layout arithmetic and view algebra only.  Observed only (not exhibited by the model): SharedMemory returns "
         "a buffer of exactly the requested size on this Linux (checked on every block; the model computes what a rounded-up "
         "buffer would do), np.frombuffer accepts unaligned data, the kernels compiled by Numba are functions of the arrays, "
         "__del__: owner close+unlink / view close only, /dev/shm listing, survival of attached views after the owner is "
         "dropped.  No axioms.",
    technique="Coq proof (layout agreement, tiling, view algebra, simulation) + differential test of shared/attached sketches "
              "against an in-memory twin + vm_compute correspondence of layouts and of read/write on real block bytes")

KEYS = [b"", b"a", b"b", b"ab", b"abc", b"\x00", b"a\x00", b"\xff\xfe\xfd", b"key-one", b"key-two", b"0123456789abcdef",
        b"zzzzzzzzzzzzzzzzzzzzzzzzzzzzzzzzzzzzzzzzzzzzzzzzzzz", b"PK\x05\x06"]
CLASSES = ["CountMinLinear", "CountMinLog16", "CountMinLog8", "HeavyHitters", "HyperLogLog"]


def gen_cfg(rng, cls, odd):
    for _ in range(200):
        if cls == "CountMinLinear":
            cfg = (rng.randrange(1, 24), rng.randrange(1, 8))
            ok = (4 * cfg[0] * cfg[1]) % 8 != 0
        elif cls == "CountMinLog16":
            cfg = (rng.randrange(1, 24), rng.randrange(1, 8), rng.choice([10**6, 2**32 - 1]), rng.choice([0, 3, 15]))
            ok = (2 * cfg[0] * cfg[1]) % 8 != 0
        elif cls == "CountMinLog8":
            cfg = (rng.randrange(1, 24), rng.randrange(1, 8), rng.choice([10**4, 2**32 - 1]), rng.choice([0, 3, 15]))
            ok = (cfg[0] * cfg[1]) % 8 != 0
        elif cls == "HeavyHitters":
            cfg = (rng.randrange(1, 9), rng.randrange(1, 5), rng.choice([1, 2, 3, 5, 7, 13, 16, 31, 255]))
            ok = (cfg[2] * cfg[0] * cfg[1]) % 4 != 0
        else:
            cfg = (rng.choice([7, 7, 8, 9, 10, 12, 16]), rng.choice([0, 5, 2**63 + 1]))
            ok = True
        if ok or not odd:
            return cfg
    return cfg


def gen_ops(rng, cls, n):
    ops = []
    for _ in range(n):
        r = rng.random()
        if r < 0.35:
            v = rng.choice([1, 1, 1, 2, 5, 40, 700]) if cls != "HyperLogLog" else 1
            ops.append(("add", rng.choice(KEYS), v))
        elif r < 0.5:
            ops.append(("update_list", [rng.choice(KEYS) for _ in range(rng.randrange(1, 6))]))
        elif r < 0.65:
            ops.append(("update_dict", {rng.choice(KEYS): rng.choice([1, 2, 3, 90]) for _ in range(rng.randrange(1, 4))}))
        elif r < 0.75:
            ops.append(("add_ngram", rng.choice(KEYS), rng.randrange(1, 5)))
        elif r < 0.85:
            ops.append(("update_ngram", [rng.choice(KEYS) for _ in range(rng.randrange(1, 4))], rng.randrange(1, 5)))
        else:
            ops.append(("merge", [(rng.choice(KEYS), rng.choice([1, 2, 30])) for _ in range(rng.randrange(1, 5))]))
    return ops


def apply_op(obj, op, other):
    if op[0] == "add":
        obj.add(op[1], op[2])
    elif op[0] == "update_list":
        obj.update(list(op[1]))
    elif op[0] == "update_dict":
        obj.update(dict(op[1]))
    elif op[0] == "add_ngram":
        obj.add_ngram(op[1], op[2])
    elif op[0] == "update_ngram":
        obj.update_ngram(list(op[1]), op[2])
    elif op[0] == "merge":
        obj.merge(other)


def answers(obj, kind, keys):
    if kind == "cms":
        return [float(obj.query(k)) for k in keys] + [int(obj.n_added()), int(obj.n_records())]
    if kind == "hll":
        return [float(obj.query())]
    return [[(bytes(k), int(c)) for k, c in obj.query(3)]] + [int(obj[k]) for k in keys] + [int(obj.n_added()), int(obj.n_records())]


def jsonable(x):
    if isinstance(x, bytes):
        return {"bytes": list(x)}
    if isinstance(x, dict):
        return [[jsonable(k), jsonable(v)] for k, v in x.items()]
    if isinstance(x, (list, tuple)):
        return [jsonable(y) for y in x]
    return x


def run(ctx):
    ctx.level = "proof"
    quick = ctx.tier == "quick"
    n_sketches = 40 if quick else 400
    sk = ctx.impl()
    import numpy as np
    helpers = sk.helpers
    numba_seed = sc.make_numba_seed()
    ctx.tick("imported")
    rng = ctx.rng
    created = []            # names of every segment created here
    layout_cases, rw_cases, rw_meta = [], [], []
    nviol = [0]
    size_obs = {"equal": 0, "larger": 0}
    del_s = []

    def viol(replay, what):
        if nviol[0] < 3:
            ctx.violation(replay, what)
        nviol[0] += 1

    for ci in range(n_sketches):
        cls = CLASSES[ci % 5]
        kind = sc.KIND[cls]
        odd = rng.random() < 0.8
        cfg = gen_cfg(rng, cls, odd)
        n_views = rng.choice([1, 2])
        ops = gen_ops(rng, cls, rng.randrange(6, 13))
        order = rng.choice(["views-first", "owner-first", "interleaved"]) if n_views == 2 else rng.choice(["views-first", "owner-first"])
        is_log = cls in ("CountMinLog16", "CountMinLog8")
        replay = {"class": cls, "cfg": list(cfg), "n_views": n_views, "ops": jsonable(ops), "deletion_order": order, "case": ci}
        P = {}              # participants: name -> sketch (the only references)
        twin = other = None
        name = None
        obs = {}
        try:
            P["owner"] = sc.make(sk, cls, cfg, True)
            name = P["owner"].shm.name
            created.append(name)
            req = sc.requested_size(cls, cfg)
            if not sc.shm_entry_exists(name):
                viol(dict(replay, shm=name), "no /dev/shm entry for a sketch created with shared_memory=True")
            for vi in range(n_views):
                P[f"view{vi}"] = helpers.attach_shared_memory(kind, P["owner"].args, name)
            twin = sc.make(sk, cls, cfg, False)
            # ---- layout: observed vs requested size, python predicate, model (later, in Coq)
            obs = {}
            for pn, obj in P.items():
                lay, L, size = sc.observe_layout(np, obj, kind)
                obs[pn] = lay
                if size != req or L != req:
                    size_obs["larger"] += 1
                    ctx.notes.append(f"{cls}{cfg}: SharedMemory size {size}, len(buf) {L}, requested {req}; "
                                     f"n_added_records has {len(getattr(obj, 'n_added_records', []))} elements")
                else:
                    size_obs["equal"] += 1
                end = 0
                for off, cnt, isz in lay:
                    if off != end:
                        viol(dict(replay, participant=pn, layout=lay), f"{pn}: array at byte {off}, previous one ended at {end}")
                    end = off + cnt * isz
                if end != L:
                    viol(dict(replay, participant=pn, layout=lay, buf_len=L), f"{pn}: arrays end at byte {end} of a {L}-byte block")
                if kind != "hll":
                    nar = obj.n_added_records
                    if nar.shape != (2,) or str(nar.dtype) != "uint64":
                        viol(dict(replay, participant=pn, shape=list(nar.shape)), f"{pn}: n_added_records is not two uint64")
                    if nar.__array_interface__["data"][0] % 8:
                        ctx.count("counters-unaligned")
                    del nar
                if kind == "hh" and lay[1][0] % 4:
                    ctx.count("lhh_count-unaligned")
            obj = None
            mp = sc.model_params(cls, cfg)
            attach_obs = [obs[k] for k in P if k != "owner"]
            layout_cases.append(f"({mp[0]}, {mp[1]}, {mp[2]}, {mp[3]}, {req}, {zl2(obs['owner'])}, [{'; '.join(zl2(a) for a in attach_obs)}])")
            ctx.count("class:" + cls)
            ctx.count("odd-sized" if req % 8 else "multiple-of-8")

            # ---- ops interleaved between owner and views, twin driven by the same ops
            qkeys = [rng.choice(KEYS) for _ in range(3)]
            pnames = list(P)
            rw_pick = set(rng.sample(range(len(ops)), 3))
            for oi, op in enumerate(ops):
                who = rng.choice(pnames)
                other = None
                if op[0] == "merge":
                    other = sc.make(sk, cls, cfg, False)
                    for k, v in op[1]:
                        if kind == "hll":
                            other.add(k)
                        else:
                            other.add(k, v)
                small_block = req <= 400 and oi in rw_pick and len(rw_cases) < (80 if quick else 800)
                before = sc.block_bytes(P["owner"]) if small_block else None
                if is_log:
                    twin.rand_nums[:] = P[who].rand_nums
                    twin.rand_ptr = P[who].rand_ptr
                    s = rng.getrandbits(31)
                    numba_seed(s)
                    apply_op(P[who], op, other)
                    numba_seed(s)
                    apply_op(twin, op, other)
                    if int(twin.rand_ptr) != int(P[who].rand_ptr):
                        viol(dict(replay, failing_op=oi, participant=who), "log sketch over shared memory consumed a different number of draws")
                else:
                    apply_op(P[who], op, other)
                    apply_op(twin, op, other)
                ctx.count("op:" + op[0])
                ctx.count("through:" + ("owner" if who == "owner" else "view"))
                want = sc.snap(twin, kind)
                want_ans = answers(twin, kind, qkeys)
                for pn in pnames:
                    got = sc.snap(P[pn], kind)
                    if got != want:
                        diff = [a for a in want if got[a] != want[a]]
                        viol(dict(replay, failing_op=oi, applied_through=who, read_through=pn, arrays=diff),
                             f"after op {oi} ({op[0]} through {who}) the state read through {pn} differs from the in-memory twin in {diff}")
                        break
                    ga = answers(P[pn], kind, qkeys)
                    if ga != want_ans:
                        viol(dict(replay, failing_op=oi, applied_through=who, read_through=pn, got=jsonable(ga), want=jsonable(want_ans)),
                             f"after op {oi} queries through {pn} differ from the in-memory twin")
                        break
                ctx.case_seen((cls, cfg, n_views, ci, oi), True)
                if small_block:
                    after = sc.block_bytes(P["owner"])
                    vals = sc.values(np, P[rng.choice(pnames)], kind)
                    rw_cases.append(f"({mp[0]}, {mp[1]}, {mp[2]}, {mp[3]}, {lib.zlist(before)}, {zl2(vals)}, {lib.zlist(after)})")
                    rw_meta.append((cls, cfg, oi))
                other = None

            # ---- deletion orders
            def drop(pn):
                t = time.time()
                obj = P.pop(pn)
                del obj
                gc.collect()
                del_s.append(time.time() - t)

            def still_good(label, through):
                op = ("add", b"after-drop", 1)
                if is_log:
                    twin.rand_nums[:] = P[through].rand_nums
                    twin.rand_ptr = P[through].rand_ptr
                    numba_seed(7)
                    apply_op(P[through], op, None)
                    numba_seed(7)
                    apply_op(twin, op, None)
                else:
                    apply_op(P[through], op, None)
                    apply_op(twin, op, None)
                want = sc.snap(twin, kind)
                for pn in list(P):
                    if sc.snap(P[pn], kind) != want:
                        viol(dict(replay, stage=label, read_through=pn), f"{label}: contents read through {pn} differ from the twin")

            views = [k for k in P if k != "owner"]
            if order == "views-first":
                seq = views + ["owner"]
            elif order == "owner-first":
                seq = ["owner"] + views
            else:
                seq = [views[0], "owner", views[1]]
            ctx.count("deletion:" + order)
            for pn in seq:
                drop(pn)
                exists = sc.shm_entry_exists(name)
                if "owner" in P:
                    if not exists:
                        viol(dict(replay, stage=f"dropped {pn}"), f"dropping the attached {pn} removed the owner's segment from /dev/shm")
                    else:
                        still_good(f"after dropping {pn}", "owner")
                else:
                    if exists:
                        viol(dict(replay, stage=f"dropped {pn}"), "the segment is still listed in /dev/shm after the owner was dropped")
                    if P:
                        # attached views outlive the unlinked name (POSIX keeps the mapping): observed, not required
                        try:
                            still_good(f"after dropping {pn} (owner gone)", next(iter(P)))
                            ctx.count("view-usable-after-owner-dropped")
                        except Exception as e:  # noqa
                            ctx.count("view-unusable-after-owner-dropped:" + type(e).__name__)
        except Exception as e:  # noqa
            import traceback
            viol(dict(replay, error=repr(e), traceback=traceback.format_exc()[-1500:]),
                 f"{cls}{cfg} with shared memory raised {e!r}")
        finally:
            other = None
            for pn in [k for k in P if k != "owner"] + [k for k in P if k == "owner"]:
                obj = P.pop(pn)
                del obj
                gc.collect()
            twin = None
        if ci < 3:
            ctx.sample({"class": cls, "cfg": list(cfg), "requested_bytes": sc.requested_size(cls, cfg),
                        "layout_owner": obs.get("owner"), "views": n_views, "deletion_order": order,
                        "ops": [o[0] for o in ops]})
    ctx.tick(f"{n_sketches} shared sketches driven, mean __del__ {sum(del_s) / max(1, len(del_s)):.2f}s")

    # ---- nothing may be left behind
    gc.collect()
    leaked = [n for n in created if sc.shm_entry_exists(n)]
    if leaked:
        viol({"leaked_segments": leaked}, f"{len(leaked)} shared-memory segments created by the check are still in /dev/shm")
        for n in leaked:                      # clean up after reporting
            try:
                from multiprocessing.shared_memory import SharedMemory
                s = SharedMemory(name=n)
                s.close()
                s.unlink()
            except Exception:  # noqa
                pass
    ctx.cov["segments_created"] = len(created)
    ctx.cov["segments_left"] = len(leaked)
    ctx.cov["shm_size_vs_requested"] = size_obs

    # ---- model inside Coq: layouts of owner and attached views; read/write on real block bytes
    chk_layout = ("fun c => let '(k, a, b, cc, L, oi, oas) := c in let p := zparams k a b cc in "
                  "zlist2_eqb (show_layout (layout_init p (Z.to_nat L))) oi && "
                  "forallb (fun oa => zlist2_eqb (show_layout (layout_attach p (Z.to_nat L))) oa) oas && "
                  "(Z.of_nat (request p) =? L)")
    bad, err = ctx.coq_bad_cases("layout", "Machine Harness Shm", chk_layout, layout_cases, shard=100)
    if err:
        ctx.broken.append("correspondence shm-layout could not be evaluated: " + err)
    if bad:
        i = sorted(bad)[0]
        out = ctx.coq_show("layout_mismatch", "Machine Harness Shm",
                           f"let '(k, a, b, cc, L, oi, oas) := {layout_cases[i]} in let p := zparams k a b cc in "
                           f"(show_layout (layout_init p (Z.to_nat L)), show_layout (layout_attach p (Z.to_nat L)), request p)")
        ctx.broken.append(f"correspondence shm-layout: model layout differs from the observed one on {len(bad)} sketches; first "
                          f"case {layout_cases[i][:200]} model={out[-300:]}")
    chk_rw = ("fun c => let '(k, a, b, cc, before, vals, after) := c in let p := zparams k a b cc in "
              "match layout_init p (List.length after) with "
              "| Some vs => zlist2_eqb (load vs after) vals && zlist_eqb (store vs vals before) after "
              "| None => false end")
    bad2, err2 = ctx.coq_bad_cases("rw", "Machine Harness Shm", chk_rw, rw_cases, shard=40)
    if err2:
        ctx.broken.append("correspondence shm-readwrite could not be evaluated: " + err2)
    if bad2:
        i = sorted(bad2)[0]
        ctx.broken.append(f"correspondence shm-readwrite: Shm.load/store differ from np.frombuffer on real block bytes in {len(bad2)} "
                          f"cases; first {rw_meta[i]}")
    ctx.cov["model_cases_evaluated_in_coq"] = len(layout_cases) + len(rw_cases)
    ctx.cov["traces_validated_against_impl"] = len(layout_cases) + len(rw_cases)
    ctx.tick(f"coq: {len(layout_cases)} layouts, {len(rw_cases)} read/write cases")

    ctx.cov["rule"] = (
        "case = (class, configuration, 1-2 attached views, one operation of an interleaved history of 6-12 ops "
        "(add/update list/update dict/add_ngram/update_ngram/merge) applied through the owner or a view and mirrored on an "
        "in-memory twin); after every op the complete arrays and query answers read through EVERY participant are compared "
        "with the twin; 80% of the configurations have a table/key area whose byte size is not a multiple of 8 (4 for the "
        "heavy-hitter key area); log sketches: the twin's rand_nums/rand_ptr are copied from the acting participant and "
        "Numba's generator is re-seeded so that draws (and refills) agree; distinct = distinct (sketch, op index); every case "
        "is non-trivial (it crosses views).  Per sketch: byte offset/count/itemsize of every array of the owner and of every "
        "attached view inside the block vs Shm.layout_init/layout_attach inside Coq; shm.size vs requested; for blocks <= 400 "
        "bytes the model's load/store are compared with the real block bytes before/after an op.  Deletion orders views-first / "
        "owner-first / interleaved with the /dev/shm entry checked after every drop; all created segments must be gone at the end")
    ctx.assumptions += [
        "SharedMemory(create=True, size=n) returns a buffer of exactly n bytes (true on this Linux for every block of this run: "
        + json.dumps(size_obs) + "); on a platform that rounds the block up the trailing buf[start:] slice would hold more than "
        "two counters or np.frombuffer would raise (Example rounded_block_effect in ShmProofs.v)",
        "the Numba kernels read and write only the arrays they are passed (they are the `kernel` functions of C16_same_semantics); "
        "np.frombuffer on an unaligned offset yields a working array (observed here on x86-64)",
        "lifetime (__del__: owner close+unlink, view close only; /dev/shm listing) is observed, not modelled",
        "views in one process; cross-process attachment is exercised by C08's parallel_add runs, not here",
    ]


def zl2(xss):
    return "[" + "; ".join(lib.zlist(xs) for xs in xss) + "]"
