"""C07 — HyperLogLog estimate within the HLL++ error envelope (partial by nature).

Proved (Coq, props/C07.v): the empty sketch answers 0.0 exactly for every precision; occupied
registers <= distinct keys; linear counting is monotone in the number of occupied registers.
The envelope itself is a STATISTICAL TEST on the real code with seeds derived from ctx.rng.
"""
import math

import lib
import hllq_common as hq

AX_REALS = {"ClassicalDedekindReals.sig_forall_dec", "ClassicalDedekindReals.sig_not_dec",
            "FunctionalExtensionality.functional_extensionality_dep", "Classical_Prop.classic"}
ALLOWED_AXIOMS = frozenset(set(hq.PRIMITIVES) | AX_REALS)
LEVEL_TEXT = "proof (partial: deterministic clauses) + statistical test"
MANIFEST = dict(
    category="proof",
    text=LEVEL_TEXT + ". Proved in Coq over the PrimFloat model of _query (HllQuery.v, tied to the code by C17's and this "
         "check's correspondence runs): C07_empty (the all-zero register file gives exactly 0.0 through the linear-counting "
         "branch, every p in 7..16), C07_occupied_le_n (non-zero registers <= distinct keys, for every index/rank function), "
         "C07_lc_monotone (reals: m ln(m/(m-k)) is monotone in k), which together give `never exceeds the linear-counting "
         "value for n occupied registers`. The error envelope |est-n| <= 8*1.04/sqrt(2^p)*n is a probabilistic statement "
         "about a fixed hash on random keys (false for adversarial key sets) and is TESTED, not proved: n on a log grid "
         "1..40*2^p plus threshold[p], 2^p and 5*2^p, S seeds per cell, random distinct keys of varied length added through "
         "the public API, seeds derived from VERIF_SEED.",
    design_ref="DESIGN.md section 6, C07",
    note="The envelope clause is a statistical test (fixed seeds; k = 8 sigma-equivalents; for n <= 10*sqrt(2^p), where the "
         "collision count is Poisson-rare and the Gaussian argument does not apply, the tolerance is widened to the largest "
         "deviation of linear counting over the collision counts outside the 1e-13 tails of the exact occupancy distribution "
         "of an ideal hash). Axioms: C07_lc_monotone uses the stdlib real-number axioms (ClassicalDedekindReals.sig_forall_dec, "
         "sig_not_dec, FunctionalExtensionality.functional_extensionality_dep, Classical_Prop.classic); C07_empty only computes "
         "with the kernel's PrimFloat/Uint63 primitives (listed by Print Assumptions; not logical axioms); C07_occupied_le_n "
         "is closed under the global context. C07_occupied_le_n is stated over a generic register model (each key raises one "
         "register), not over the hash of Hll.v.",
    technique="Coq proof of the deterministic clauses + statistical envelope test on the Numba code + vm_compute correspondence")

K_SIGMA = 8.0


def envelope(p):
    return K_SIGMA * 1.04 / math.sqrt(1 << p)


_dev_cache = {}


def lc_small_n_slack(n, m, tail=1e-13, cmax=600):
    """Largest |LC(n-c) - n| over the collision counts c that are not in the `tail` tails of the exact
    distribution of the number of collisions when n balls are thrown uniformly into m registers
    (LC(k) = m ln(m/(m-k)) is what a correct implementation returns in the linear-counting regime).
    Only used for n <= 10*sqrt(m), where collisions are Poisson-rare."""
    key = (n, m)
    if key in _dev_cache:
        return _dev_cache[key]
    import numpy as np
    cm = min(cmax, n)
    P = np.zeros(cm + 1)
    P[0] = 1.0
    idx = np.arange(cm + 1)
    for i in range(n):                       # ball i+1; occupied = i - c
        occ = np.clip(i - idx, 0, None) / m
        Q = P * (1.0 - occ)
        Q[1:] += P[:-1] * occ[:-1]
        P = Q
    cdf = np.cumsum(P)
    lo = int(np.searchsorted(cdf, tail, side="left"))            # P(c < lo) <= tail
    hi = int(np.searchsorted(cdf, 1.0 - tail, side="left"))      # P(c > hi) <= tail (up to truncation)
    hi = min(max(hi, lo), cm)
    dev = 0.0
    for c in range(lo, hi + 1):
        k = n - c
        if 0 < k < m:
            dev = max(dev, abs(m * math.log(m / (m - k)) - n))
    _dev_cache[key] = dev
    return dev


def tolerance(n, p):
    m = 1 << p
    tol = envelope(p) * n
    if n <= 10 * math.sqrt(m):
        tol = max(tol, lc_small_n_slack(n, m))
    return tol + 1e-9 * n


def grid(p, thr):
    m = 1 << p
    N = 40 * m
    pts = {1, 2, 3, thr, m, 5 * m, N}
    x = 1.0
    while x <= N:
        pts.add(int(round(x)))
        x *= 10 ** 0.125
    return sorted(q for q in pts if 1 <= q <= N)


def varied_keys(np, g, N):
    """N distinct random keys, lengths 3..24"""
    keys = {}
    while len(keys) < N:
        need = int((N - len(keys)) * 1.02) + 16
        lens = g.integers(3, 25, need)
        offs = np.concatenate(([0], np.cumsum(lens)))
        buf = g.integers(0, 256, int(offs[-1]), dtype=np.uint8).tobytes()
        for a, b in zip(offs[:-1].tolist(), offs[1:].tolist()):
            keys[buf[a:b]] = None
    return list(keys)[:N]


def run(ctx):
    ctx.level = "proof"
    ctx.cov["claim"] = LEVEL_TEXT
    quick = ctx.tier == "quick"
    ctx.impl()
    import numpy as np
    from sketchnu.hyperloglog import HyperLogLog
    T = hq.Tables(lib.REPO)
    ctx.tick("imported")

    # ---------------------------------------------------------------- deterministic clause 1: empty sketch = 0.0 exactly
    for p in range(7, 17):
        for seed in (0, 1, ctx.rng.getrandbits(64)):
            h = HyperLogLog(p, seed)
            ctx.case_seen(("empty", p, seed), False)
            try:
                v = h.query()
            except Exception as e:  # noqa
                ctx.violation({"p": p, "sketch_seed": seed, "exception": repr(e)},
                              f"query() of the empty sketch raised {e!r} instead of returning 0.0")
                continue
            if not (float(v) == 0.0 and math.copysign(1.0, float(v)) == 1.0):
                ctx.violation({"p": p, "sketch_seed": seed, "query": repr(v)}, "query() of the empty sketch is not exactly 0.0")

    # ---------------------------------------------------------------- the statistical envelope test
    # plan: (path, p, number of seeds).  path "list": keys of varied length through update(list);
    # path "ngram": the n windows of length L (8..16, per seed) of a random byte string through add_ngram.
    if ctx.replay_file:
        import json
        rp = json.load(open(ctx.replay_file))
        plan = [(rp["path"], int(rp["p"]), 1)]
    elif quick:
        plan = [("list", 7, 4), ("list", 10, 4), ("list", 12, 4)] + [("ngram", p, 4) for p in range(7, 17)]
    else:
        plan = [("list", p, 100 if p <= 12 else 5) for p in range(7, 17)] + [("ngram", p, 100) for p in range(7, 17)]

    stats = {}
    coq_pool = []
    total_adds = 0
    nfail = 0
    checked_ngram_vs_add = set()
    for (path, p, S) in plan:
        m = 1 << p
        thr = T.threshold[p - 7]
        gr = grid(p, thr)
        N = gr[-1]
        st = stats.setdefault(p, {"cells": 0, "max_ratio": 0.0, "sum_z": 0.0, "sum_z2": 0.0, "nz": 0})
        for s in range(S):
            if ctx.replay_file:
                gen_seed, sk_seed = int(rp["gen_seed"]), int(rp["sketch_seed"])
            else:
                gen_seed = ctx.rng.getrandbits(64)
                sk_seed = 0 if s == 0 else ctx.rng.getrandbits(64)
            g = np.random.default_rng(gen_seed)
            h = HyperLogLog(p, sk_seed)
            if path == "list":
                keys = varied_keys(np, g, N)
                L = None
            else:
                L = int(g.integers(8, 17))
                buf = g.integers(0, 256, N + L - 1, dtype=np.uint8).tobytes()
                if p not in checked_ngram_vs_add:          # the windows really are single adds (sample)
                    checked_ngram_vs_add.add(p)
                    h1, h2 = HyperLogLog(p, sk_seed), HyperLogLog(p, sk_seed)
                    h1.add_ngram(buf[:300 + L - 1], L)
                    for i in range(300):
                        h2.add(buf[i:i + L])
                    if not np.array_equal(h1.registers, h2.registers):
                        ctx.violation({"p": p, "sketch_seed": sk_seed, "L": L, "bytes": list(buf[:300 + L - 1])},
                                      "add_ngram over a byte string differs from adding its windows one by one")
                if N <= 400000:                               # distinctness of the windows, exactly
                    a = np.frombuffer(buf, np.uint8)
                    v = np.zeros(N, np.uint64)
                    for i in range(8):
                        v |= a[i:i + N].astype(np.uint64) << np.uint64(8 * i)
                    if np.unique(v).size != N:
                        ctx.notes.append(f"ngram path p={p} seed#{s}: windows not distinct in their first 8 bytes; seed skipped")
                        continue
            prev = 0
            for n in gr:
                if path == "list":
                    h.update(keys[prev:n])
                else:
                    h.add_ngram(buf[prev:n + L - 1], L)       # windows prev .. n-1
                total_adds += n - prev
                prev = n
                est = float(h.query())
                tol = tolerance(n, p)
                ratio = abs(est - n) / tol
                st["cells"] += 1
                st["max_ratio"] = max(st["max_ratio"], ratio)
                if n > 10 * math.sqrt(m):
                    z = (est - n) / (1.04 / math.sqrt(m) * n)
                    st["sum_z"] += z
                    st["sum_z2"] += z * z
                    st["nz"] += 1
                regs = h.registers
                V = int(m - np.count_nonzero(regs))
                occupied = m - V
                ctx.case_seen((path, p, s, n), n > 1)
                ctx.count("path=" + path)
                why = None
                if not (est == est) or ratio > 1.0:
                    why = (f"estimate {est!r} for n={n} distinct keys is outside the envelope: |est-n|={abs(est - n):.6g} "
                           f"> tolerance {tol:.6g} (8*1.04/sqrt(2^{p}) = {envelope(p):.4g} relative)")
                elif occupied > n:
                    why = f"{occupied} occupied registers after only {n} distinct keys"
                elif V > 0 and n < m and m * math.log(m / V) <= thr and est > m * math.log(m / (m - n)) * (1 + 1e-12):
                    why = (f"linear-counting regime but the estimate {est!r} exceeds the linear-counting value for n={n} "
                           f"occupied registers {m * math.log(m / (m - n))!r}")
                if why:
                    if nfail < 3:
                        ctx.violation({"path": path, "p": p, "gen_seed": gen_seed, "sketch_seed": sk_seed, "n": n, "L": L,
                                       "estimate": est, "tolerance": tol, "registers_rle_sorted": hq.rle_np(np.sort(regs))},
                                      why)
                    nfail += 1
                # a few reached register files go through the Coq model as well (hll-query tie)
                if (s == 0 and path == "list") or (s == 0 and p >= 13):
                    if n in (1, thr, m, 5 * m, N) or ctx.rng.random() < 0.2:
                        coq_pool.append((p, regs.copy(), est))
        ctx.tick(f"envelope path={path} p={p} seeds={S} (adds so far {total_adds})")

    ctx.cov["statistical_test"] = {
        "label": "STATISTICAL TEST (not a proof): fixed seeds derived from VERIF_SEED",
        "rule": "pass iff |est-n| <= max(8*1.04/sqrt(2^p)*n, slack(n,2^p)) + 1e-9 n; slack only for n <= 10*sqrt(2^p): largest "
                "|m ln(m/(m-(n-c))) - n| over collision counts c outside the 1e-13 tails of the exact occupancy distribution",
        "k_sigma": K_SIGMA, "total_keys_added": total_adds, "cells_failed": nfail,
        "per_p": {str(p): {"cells": st["cells"], "max_abs_error_over_tolerance": round(st["max_ratio"], 4),
                           "mean_error_in_sigma_units(n>10sqrt(m))": round(st["sum_z"] / st["nz"], 4) if st["nz"] else None,
                           "rms_error_in_sigma_units(n>10sqrt(m))": round(math.sqrt(st["sum_z2"] / st["nz"]), 4) if st["nz"] else None}
                  for p, st in sorted(stats.items())}}
    ctx.cov["traces_validated_against_impl"] = sum(st["cells"] for st in stats.values())

    # ---------------------------------------------------------------- hll-query tie on reached register files
    coq_cases = []
    meta = []
    for (p, regs, est) in coq_pool[: (80 if quick else 400)]:
        # the float sum of 2^-r is exact when every rank is <= 36 (all terms are multiples of 2^-36 and the sum is
        # < 2^17), so the estimate does not depend on the order and the sorted array may be passed; otherwise
        # the registers go in their true order
        if int(regs.max()) > 36 and p > 9:
            continue                      # (never seen) too long to pass unsorted
        arr = np.sort(regs) if int(regs.max()) <= 36 else regs
        pairs = hq.rle_np(arr)
        regime, want, det = hq.oracle(T, p, regs.tolist())
        if hq.relerr(est, want) > 1e-9:
            ctx.violation({"p": p, "registers_rle": hq.rle_np(regs), "impl_query": est,
                           "documented_estimator": {"regime": regime, "value": want}},
                          f"query() = {est!r} but the documented estimator ({regime}) gives {want!r}")
            continue
        ctx.count("regime=" + regime)
        coq_cases.append(f"({p}, {hq.coq_rle(pairs)}, {hq.coq_float(est)}, {hq.REGIME_CODE[regime]})")
        meta.append((p, pairs, est, regime))
    # plus the empty sketches
    for p in range(7, 17):
        coq_cases.append(f"({p}, [(0,{1 << p})], {hq.coq_float(0.0)}, 0)")
        meta.append((p, [(0, 1 << p)], 0.0, "LC"))
    bad, err = ctx.coq_bad_cases("q", "Machine Harness HllQuery", "check_query 1e-9", coq_cases, shard=25)
    if err:
        ctx.broken.append("correspondence hll-query could not be evaluated: " + err)
    if bad:
        p, pairs, est, regime = meta[sorted(bad)[0]]
        out = ctx.coq_show("mismatch", "Machine HllQuery", f"query_full {p} (expand_rle {hq.coq_rle(pairs)})")
        ctx.broken.append(f"correspondence hll-query: model and implementation differ on {len(bad)} reached register files, "
                          f"first p={p} impl={est!r} regime={regime} model={out[-200:]}")
    ctx.cov["model_cases_evaluated_in_coq"] = len(coq_cases)
    for i in (0, len(meta) // 2):
        p, pairs, est, regime = meta[i]
        ctx.sample({"p": p, "registers_rle_sorted": pairs[:12], "impl_query": est, "regime": regime})
    ctx.tick("coq evaluated")

    ctx.cov["rule"] = ("cases = cells (path, p, seed, n): a sketch fed n distinct random keys through the public API "
                       "(update(list) with keys of 3..24 random bytes, or add_ngram over a random byte string = its n windows "
                       "of length L in 8..16), nested along the grid n = 1,2,3, 8 points per decade up to 40*2^p, threshold[p], "
                       "2^p, 5*2^p; per cell: envelope test (statistical), occupied registers <= n and LC-regime estimate <= "
                       "LC(n) (deterministic); a sample of the reached register files is also evaluated on the Coq model "
                       "(1e-9, same regime) and on the independent oracle; empty sketches for every p. distinct = distinct "
                       "(path,p,seed,n); non-trivial = n > 1")
    ctx.assumptions += ["fasthash64 behaves like a uniform random function on random keys (this is what makes the envelope "
                        "clause a statistical statement; it is false for adversarial key sets)",
                        "8 sigma-equivalents with sigma = 1.04/sqrt(2^p): the Gaussian tail beyond is ~1e-15 per cell; the "
                        "standard error of HLL++ is at most ~1.1*1.04/sqrt(m) near the regime switches, leaving > 7 sigma",
                        "ngram path with more than 400000 windows: distinctness of the random windows is not checked "
                        "(expected number of duplicates < 1e-6 for L >= 8)"]
