"""par_common.py — generators, drivers and printers shared by the C08 and C19 checks
(merge-tree correspondence suite, DESIGN.md 2.3) and the driver of REAL spawned parallel_add runs.

Layer 1 (in-process): the real helpers._worker / helpers._merge_worker / helpers.parallel_merging /
helpers.parallel_add run under syncctx (helpers.get_context replaced, nothing else).  Shared-memory
sketches are real.  Cases run in a thread pool only so that the 0.25 s sleeps of the sketches'
__del__ overlap; every case has its own context, queues and sketches.

Layer 2 (real): `python par_common.py real spec.json out.json` imports the package, calls the real
parallel_add with the spawn context and writes what happened.  The caller wraps it in a hard timeout.
"""
import itertools
import json
import os
import sys
import time
from collections import Counter

HERE = os.path.dirname(os.path.abspath(__file__))
CAP = 2**32 - 1
KINDS = ("cms", "hh", "hll")
COMBOS = [("cms",), ("hh",), ("hll",), ("cms", "hh"), ("cms", "hll"), ("hh", "hll"), ("cms", "hh", "hll")]
# hostile alphabet: empty key, NUL runs, k / k+NUL pairs, bytes >= 0x80; all <= max_key_len of the hh config
KEYS = [b"", b"\x00", b"a", b"a\x00", b"ab", b"b", b"\xff\x80", b"\x00\x00"]
DEFAULT_CFG = {
    "cms": {"cms_type": "linear", "width": 3, "depth": 2},
    "hh": {"width": 2, "depth": 2, "max_key_len": 4},
    "hll": {"p": 7, "seed": 0},
}


# ----------------------------------------------------------------------------- items, schedules
FALSY = [0, b"", ""]          # queue objects used for the first items of a stream (a shard id 0, an empty name ...)


def qobj(items, i):
    """the object that is put on the work queue for item i: a FALSY object for the first few items (the
    callback maps it back through item_table), the item tuple itself otherwise"""
    return FALSY[i] if i < len(FALSY) and i % 2 == 0 else items[i]


def item_table(items):
    return {FALSY[i]: items[i] for i in range(min(len(items), len(FALSY))) if i % 2 == 0}



def make_item(idx, adds, ret, mode="ok", cut=0):
    return (idx, [(bytes(k), int(v)) for k, v in adds], int(ret), mode, int(cut))


def eff_adds(item):
    idx, adds, ret, mode, cut = item
    if mode == "ok":
        return list(adds)
    if mode == "after":
        return list(adds[:cut])
    return []


def ok_adds(item):
    return list(item[1]) if item[3] == "ok" else []


def ok_ret(item):
    return item[2] if item[3] == "ok" else 0


def gen_items(rng, n, faults=None, keys=None, max_adds=3, mults=(1, 1, 2, 3, 5)):
    """n items over a small alphabet (collisions are the norm); faults[i] in {ok, before, after}."""
    keys = keys or KEYS
    items = []
    for i in range(n):
        na = rng.randint(0 if i % 5 == 4 else 1, max_adds)
        adds = [(rng.choice(keys), rng.choice(mults)) for _ in range(na)]
        mode = faults[i] if faults else "ok"
        cut = rng.randint(0, len(adds)) if mode == "after" else 0
        items.append(make_item(i, adds, rng.randint(0, 4), mode, cut))
    return items


def all_schedules(n_items, n_workers):
    """every assignment of the item indices to n_workers labelled workers with every per-worker
    order: a permutation cut into n_workers consecutive (possibly empty) blocks.
    Count = n_items! * C(n_items + n_workers - 1, n_workers - 1)."""
    out = []
    for perm in itertools.permutations(range(n_items)):
        for cuts in itertools.combinations_with_replacement(range(n_items + 1), n_workers - 1):
            b = [0] + list(cuts) + [n_items]
            out.append([list(perm[b[j]:b[j + 1]]) for j in range(n_workers)])
    return out


def some_schedules(rng, n_items, n_workers, k):
    """a few assignments: round-robin, everything to the last worker, reversed blocks, random"""
    idx = list(range(n_items))
    out = [[idx[w::n_workers] for w in range(n_workers)],
           [[] for _ in range(n_workers - 1)] + [idx[::-1]]]
    blocks = [[] for _ in range(n_workers)]
    for j, i in enumerate(reversed(idx)):
        blocks[(j * n_workers) // max(1, n_items)].append(i)
    out.append(blocks)
    while len(out) < k:
        perm = idx[:]
        rng.shuffle(perm)
        s = [[] for _ in range(n_workers)]
        for i in perm:
            s[rng.randrange(n_workers)].append(i)
        out.append(s)
    seen, uniq = set(), []
    for s in out:
        key = repr(s)
        if key not in seen:
            seen.add(key)
            uniq.append(s)
    return uniq[:k]


# ----------------------------------------------------------------------------- environment
class Env:
    """the imported package with helpers.get_context replaced by syncctx's"""

    def __init__(self, ctx):
        ctx.impl()
        import numpy as np
        import sketchnu.helpers as helpers
        from sketchnu.countmin import CountMin
        from sketchnu.heavyhitters import HeavyHitters
        from sketchnu.hyperloglog import HyperLogLog
        import syncctx
        import par_callbacks
        self.np, self.helpers, self.syncctx = np, helpers, syncctx
        self.mk = {"cms": CountMin, "hh": HeavyHitters, "hll": HyperLogLog}
        self.callback = par_callbacks.process_item
        syncctx.install(helpers)
        self.shm_names = record_shm_creations()
        # every sketch __del__ and every _merge_worker calls gc.collect(); with the package loaded a
        # full collection costs 0.15 s.  Moving what exists now to the permanent generation makes
        # those calls cheap; it changes no behaviour of the code under test.
        import gc
        gc.collect()
        gc.freeze()

    def close(self):
        self.syncctx.uninstall(self.helpers)


_created_shm = []


def record_shm_creations():
    """Harness-process bookkeeping only: remember the name of every block this process creates,
    so that leftovers can be told apart from blocks of other processes.  The constructor's
    behaviour is unchanged (the original runs first, with the same arguments)."""
    from multiprocessing import shared_memory as sm
    if not getattr(sm.SharedMemory, "_verif_recorded", False):
        orig = sm.SharedMemory.__init__

        def init(self, *a, **kw):
            orig(self, *a, **kw)
            create = kw.get("create", a[1] if len(a) > 1 else False)
            if create:
                _created_shm.append(self.name)
        sm.SharedMemory.__init__ = init
        sm.SharedMemory._verif_recorded = True
    return _created_shm


def shm_listing():
    try:
        return set(os.listdir("/dev/shm"))
    except OSError:
        return set()


def shm_cleanup(names):
    """unlink segments left behind by a failed __del__ (never expected); returns what was left"""
    left = []
    for n in names:
        p = os.path.join("/dev/shm", n.lstrip("/"))
        if os.path.exists(p):
            left.append(n)
            try:
                os.unlink(p)
            except OSError:
                pass
    return left


# ----------------------------------------------------------------------------- snapshots
def snap(np, kind, sk, universe):
    if kind == "cms":
        tab = [[int(x) for x in row] for row in np.array(sk.cms, copy=True)]
        return {"tab": tab, "n_added": int(sk.n_added()), "n_records": int(sk.n_records()),
                "q": [(k, int(sk.query(k))) for k in universe]}
    if kind == "hh":
        import hh_common
        return {"tabcode": hh_common.tab_code(sk, int(sk.depth), int(sk.width), int(sk.max_key_len)),
                "n_added": int(sk.n_added()), "n_records": int(sk.n_records()),
                "get": [(k, int(sk[k])) for k in universe],
                "query": [(bytes(k), int(n)) for k, n in sk.query(len(universe) + 8, 1)]}
    return {"regs": [int(x) for x in np.array(sk.registers, copy=True)]}


def sequential(env, kind, cfg, items, universe):
    """the same stream fed to ONE ordinary (not shared) sketch, in stream order"""
    sk = env.mk[kind](**cfg[kind])
    for it in items:
        for k, v in eff_adds(it):
            if kind == "hll":
                sk.add(k)
            else:
                sk.add(k, v)
    s = snap(env.np, kind, sk, universe)
    del sk
    return s


def probe_buckets(env, cfg, universe):
    import cms_common
    return cms_common.probe_buckets(lambda: env.mk["cms"](**cfg["cms"]), universe, cfg["cms"]["depth"])


def probe_buckets_hh(env, cfg, universe):
    """column owned by a key in each row of the heavy-hitter table, observed on an empty probe"""
    d, w = cfg["hh"]["depth"], cfg["hh"]["width"]
    bm = {}
    for k in universe:
        p = env.mk["hh"](**cfg["hh"])
        p.add(k)
        cols = []
        for r in range(d):
            nz = [c for c in range(w) if int(p.lhh_count[r, c]) != 0]
            if len(nz) != 1:
                raise RuntimeError(f"hh probe: key {k!r} moved {len(nz)} cells in row {r}")
            cols.append(nz[0])
        bm[k] = cols
        del p
    return bm


# ----------------------------------------------------------------------------- the property predicate
def predicate(kind, final, items, universe, bm=None, depth=None, seq=None):
    """C08 / C19 on the implementation's output, with independent bookkeeping.
    Returns None or a dict describing the clause that failed."""
    t_ok, t_eff = Counter(), Counter()
    for it in items:
        for k, v in ok_adds(it):
            t_ok[k] += v
        for k, v in eff_adds(it):
            t_eff[k] += v
    total_eff = sum(t_eff.values())
    recs = sum(ok_ret(it) for it in items)
    if kind == "hll":
        if final["regs"] != seq["regs"]:
            d = [i for i, (a, b) in enumerate(zip(final["regs"], seq["regs"])) if a != b]
            return {"clause": "HyperLogLog registers differ from the sequential sketch", "registers": d[:8]}
        return None
    if final["n_records"] != recs:
        return {"clause": "n_records != sum of the callback's return values over successful items",
                "n_records": final["n_records"], "expected": recs}
    if final["n_added"] != total_eff:
        return {"clause": "n_added != total multiplicity added", "n_added": final["n_added"], "expected": total_eff}
    if kind == "cms":
        mass = [Counter() for _ in range(depth)]
        for k, t in t_eff.items():
            for r in range(depth):
                mass[r][bm[k][r]] += t
        for k, est in final["q"]:
            lo = min(t_ok.get(k, 0), CAP)
            hi = min([CAP] + [mass[r][bm[k][r]] for r in range(depth)])
            if not (lo <= est <= hi):
                return {"clause": "C01 sandwich w.r.t. the whole stream", "key": list(k), "estimate": est,
                        "lower(min(count over successful items, cap))": lo, "upper(row mass of what took effect)": hi}
        return None
    # heavy hitters: C03-style no over-count, nothing reported that was not added
    for k, est in final["get"]:
        if est > t_eff.get(k, 0):
            return {"clause": "hh[key] over-counts", "key": list(k), "estimate": est, "true": t_eff.get(k, 0)}
    for k, n in final["query"]:
        if not (0 < n <= t_eff.get(k, 0)):
            return {"clause": "query reports a key with a count above its true count", "key": list(k), "count": n,
                    "true": t_eff.get(k, 0)}
    return None


# ----------------------------------------------------------------------------- merge order observation
def merge_trees(events, names_by_kind):
    """From the context's event list: for every sketch kind the tree of merges the real
    parallel_merging started (as nested tuples over worker indices), the number of rounds it
    announced and the mergers started per round."""
    out = {}
    for kind, names in names_by_kind.items():
        tree = {nm: i for i, nm in enumerate(names)}
        per_round, cur, rounds = [], 0, 0
        active = False
        for e in events:
            if e[0] == "start" and e[1] == "_merge_worker" and e[2][0][0] == kind:
                a, b = e[2][0][2], e[2][1][2]
                if a in tree and b in tree:
                    tree[a] = (tree[a], tree[b])
                    del tree[b]
                    cur += 1
                    active = True
            elif e[0] == "put" and isinstance(e[2], dict) and "Finished round of merging" in str(e[2].get("text", "")) \
                    and active:
                per_round.append(cur)
                cur = 0
                rounds += 1
                active = False
        out[kind] = {"trees": tree, "rounds": rounds, "per_round": per_round}
    return out


def py_tree(n):
    """the tree the model predicts, computed independently in Python (pairs (2i,2i+1), odd carried)"""
    arr = list(range(n))
    while len(arr) > 1:
        nxt = [(arr[i], arr[i + 1]) for i in range(0, len(arr) - 1, 2)]
        if len(arr) % 2:
            nxt.append(arr[-1])
        arr = nxt
    return arr[0] if arr else None


def coq_tree(t):
    if isinstance(t, tuple):
        return f"(Node {coq_tree(t[0])} {coq_tree(t[1])})"
    return f"(Leaf {int(t)})"


# ----------------------------------------------------------------------------- layer 1 driver
def run_schedule(env, combo, cfg, items, sched, universe, want_seq=True):
    """Drive the REAL _worker once per worker with exactly its assigned items and a pill, then the
    REAL parallel_merging per sketch kind; everything observed through public attributes."""
    sc, H, np = env.syncctx, env.helpers, env.np
    ctx = sc.Context()
    n = len(sched)
    res = {"combo": list(combo), "sched": sched, "workers": {k: [] for k in combo}, "final": {}, "errors": [],
           "exitcodes": [], "queue_left": []}
    arrays = {k: [] for k in combo}
    keep = []
    with sc.use(ctx):
        log_q = ctx.Queue()
        for w in range(n):
            sketch = []
            for kind in KINDS:                         # same order as parallel_add l.333-344
                if kind in combo:
                    s = env.mk[kind](**cfg[kind], shared_memory=True)
                    arrays[kind].append(s)
                    keep.append(s)
                    sketch.append((kind, s.args, s.shm.name))
            in_q = ctx.Queue()
            for i in sched[w]:
                in_q.put(qobj(items, i))
            in_q.put(None)
            in_q.put(("sentinel-after-pill", w))      # must not be consumed
            p = ctx.Process(target=H._worker, args=(w, tuple(sketch), env.callback, in_q, log_q),
                            kwargs={"item_table": item_table(items)})
            p.start()
            res["exitcodes"].append(p.exitcode)
            if p.error:
                res["errors"].append(f"worker {w}: {p.error}")
            res["queue_left"].append(in_q.drain())
        for kind in combo:
            res["workers"][kind] = [snap(np, kind, s, universe) for s in arrays[kind]]
        names = {kind: [s.shm.name for s in arrays[kind]] for kind in combo}
        if all(c == 0 for c in res["exitcodes"]):
            for kind in combo:
                try:
                    fin = H.parallel_merging(arrays[kind], log_q)
                    res["final"][kind] = snap(np, kind, fin, universe)
                    res.setdefault("final_name", {})[kind] = fin.shm.name
                    del fin
                except BaseException as e:  # noqa
                    res["errors"].append(f"parallel_merging({kind}) raised {e!r}")
        mt = merge_trees(ctx.events, names)
        for kind in combo:
            fn = res.get("final_name", {}).get(kind)
            t = mt[kind]["trees"]
            res.setdefault("tree", {})[kind] = t.get(fn) if fn in t else None
            res.setdefault("n_trees_left", {})[kind] = len(t)
            res.setdefault("rounds", {})[kind] = mt[kind]["rounds"]
            res.setdefault("per_round", {})[kind] = mt[kind]["per_round"]
        res["log_errors"] = [e[2]["text"] for e in ctx.events
                             if e[0] == "put" and isinstance(e[2], dict) and e[2].get("level") == "ERROR"]
    if want_seq:
        res["seq"] = {kind: sequential(env, kind, cfg, items, universe) for kind in combo}
    arrays.clear()
    while keep:
        keep.pop()          # each __del__ sleeps 0.25 s and unlinks its block
    return res


def run_parallel_add(env, combo, cfg, items, plan, universe):
    """The WHOLE real parallel_add in-process: work queue steered by `plan`, monitor loop, abort
    path, merging, return-tuple selection.  Returns what happened and the context's events."""
    sc, H, np = env.syncctx, env.helpers, env.np
    ctx = sc.Context(plan=plan)
    res = {"combo": list(combo), "plan": plan, "raised": None, "final": {}}
    before = None
    with sc.use(ctx):
        args = {k + "_args": dict(cfg[k]) for k in combo}
        t0 = time.time()
        try:
            out = H.parallel_add([qobj(items, i) for i in range(len(items))], env.callback, n_workers=len(plan),
                                 item_table=item_table(items), **args)
        except BaseException as e:  # noqa
            res["raised"] = repr(e)
            out = None
        res["wall"] = round(time.time() - t0, 2)
        if out is not None:
            outs = out if isinstance(out, tuple) else (out,)
            res["returned_types"] = [type(o).__name__ for o in outs]
            if len(outs) == len(combo):
                for kind, o in zip(combo, outs):
                    res["final"][kind] = snap(np, kind, o, universe)
                    del o
            del outs, out
    ev = ctx.events
    res["codes"] = [p.exitcode for p in ctx.processes if getattr(p.target, "__name__", "") == "_worker"]
    res["n_merge_started"] = sum(1 for e in ev if e[0] == "start" and e[1] == "_merge_worker")
    closes = [i for i, e in enumerate(ev) if e[0] == "close"]
    merges = [i for i, e in enumerate(ev) if e[0] == "start" and e[1] == "_merge_worker"]
    res["queues_closed"] = len({ev[i][1] for i in closes}) >= 2
    res["close_before_merge"] = (not merges) or (bool(closes) and max(closes) < min(merges))
    res["put_on_closed"] = sum(1 for e in ev if e[0] == "put-on-closed")
    wq = ctx.queues[0] if ctx.queues else None
    res["served"] = list(getattr(wq, "served", []))
    res["items_put"] = len(getattr(wq, "items", []))
    res["pills_put"] = sum(1 for e in ev if e[0] == "put" and e[1] == "work" and e[2] is None)
    res["kills"] = [e[1] for e in ev if e[0] == "kill"]
    res["fill_error"] = [p.error for p in ctx.processes if getattr(p.target, "__name__", "") == "_fill_queue" and p.error]
    return res


def run_pool(fn, cases, threads, chunk=256):
    """Run fn over the cases in a thread pool (only the sleeps overlap: the GIL serialises the rest).
    Every sketch __del__ and every _merge_worker calls gc.collect(), whose cost grows with the number
    of live container objects: so the case list is frozen out of the collector's reach, cases are
    submitted in chunks, and results are kept pickled until they are consumed."""
    import gc
    import pickle
    from concurrent.futures import ThreadPoolExecutor

    def packed(c):
        return pickle.dumps(fn(c))
    gc.collect()
    gc.freeze()
    blobs = []
    with ThreadPoolExecutor(max_workers=threads) as ex:
        for i in range(0, len(cases), chunk):
            blobs += list(ex.map(packed, cases[i:i + chunk]))
    for b in blobs:
        yield pickle.loads(b)


# ----------------------------------------------------------------------------- Coq printers
def zk(k):
    return "[" + "; ".join(str(b) for b in k) + "]"


def coq_out(item, kind):
    idx, adds, ret, mode, cut = item
    def ops(a):
        if kind == "hll":
            return "[" + "; ".join(zk(k) for k, _ in a) + "]"
        return "[" + "; ".join(f"({zk(k)}, {v})" for k, v in a) + "]"
    if mode == "ok":
        return f"Ok {ops(adds)} {ret}" if ret >= 0 else f"Ok {ops(adds)} ({ret})"
    if mode == "after":
        return f"RaiseAfter {ops(adds[:cut])}"
    return "RaiseBefore"


def coq_outs(items, kind):
    return "[" + "; ".join(coq_out(it, kind) for it in items) + "]"


def coq_sched(sched):
    return "[" + "; ".join("[" + "; ".join(str(i) for i in w) + "]" for w in sched) + "]"


def coq_expect_cms(s):
    rows = "[" + "; ".join("[" + "; ".join(str(x) for x in r) + "]" for r in s["tab"]) + "]"
    q = "[" + "; ".join(f"({zk(k)}, {v})" for k, v in s["q"]) + "]"
    return f"({rows}, {s['n_added']}, {s['n_records']}, {q})"


def coq_cms_case(cfg, bm, items, sched, workers, final):
    import cms_common
    w, d = cfg["cms"]["width"], cfg["cms"]["depth"]
    ews = "[" + "; ".join(coq_expect_cms(s) for s in workers) + "]"
    return (f"({w}%nat, {d}%nat, {cms_common.coq_bmap(bm)}, {coq_outs(items, 'cms')}, {coq_sched(sched)}, "
            f"{ews}, {coq_expect_cms(final)})")


def coq_hobs(s):
    kz = lambda l: "[" + "; ".join(f"({zk(k)}, {v})" for k, v in l) + "]"
    return f"({s['tabcode']}, {s['n_added']}, {s['n_records']}, {kz(s['get'])}, {kz(s['query'])})"


def coq_hh_head(cfg, bmh, items, sched):
    import cms_common
    c = cfg["hh"]
    return (f"{c['width']}%nat, {c['depth']}%nat, {c['max_key_len']}%nat, {cms_common.coq_bmap(bmh)}, "
            f"{coq_outs(items, 'hh')}, {coq_sched(sched)}")


def coq_hh_case(cfg, bmh, items, sched, workers, final):
    ews = "[" + "; ".join(f"({s['tabcode']}, {s['n_added']}, {s['n_records']})" for s in workers) + "]"
    return f"(({coq_hh_head(cfg, bmh, items, sched)}, {ews}, {coq_hobs(final)}) : hh_pa_case)"


def coq_real_hh_case(cfg, bmh, items, sched, final):
    return f"(({coq_hh_head(cfg, bmh, items, sched)}, {coq_hobs(final)}) : real_hh_case)"


def coq_hll_case(cfg, items, sched, final):
    p, seed = cfg["hll"]["p"], cfg["hll"]["seed"]
    regs = final["regs"]
    nz = [(i, v) for i, v in enumerate(regs) if v]
    pairs = "[" + "; ".join(f"({i}, {v})" for i, v in nz) + "]"
    return f"({p}, {seed}, {coq_outs(items, 'hll')}, {coq_sched(sched)}, {len(regs)}, {pairs}, {len(nz)})"


def coq_mon_case(n, kinds, polls, raised, closed, nmerge):
    def code(c):
        return "None" if c is None else (f"Some ({c})" if c < 0 else f"Some {c}")
    ps = "[" + "; ".join("([" + "; ".join(code(c) for c in codes) + "], " + ("true" if fa else "false") + ")"
                         for codes, fa in polls) + "]"
    ks = "[" + "; ".join(str(KINDS.index(k)) for k in kinds) + "]"
    b = lambda x: "true" if x else "false"
    return f"({n}, {ks}, {ps}, ({b(raised)}, {b(closed)}, {nmerge}))"


IMPORTS = "Machine Harness Hll CmsLinear CmsLinearHarness Merging"
IMPORTS_HH = "Machine Harness CmsLinearHarness Merging HH MergingHH"


# ----------------------------------------------------------------------------- the suite shared by C08 and C19
THREADS = 32
CLASSNAME = {"cms": "CountMinLinear", "hh": "HeavyHitters", "hll": "HyperLogLog"}


class Suite:
    def __init__(self, ctx, env, cfg, universe, bm):
        self.ctx, self.env, self.cfg, self.universe, self.bm = ctx, env, cfg, universe, bm
        self.nviol = 0
        self.cms_cases, self.hll_cases, self.shape_cases, self.mon_cases, self.hh_cases = [], [], {}, [], []
        self.meta = {"cms": [], "hll": [], "mon": [], "hh": []}
        self.bmh = probe_buckets_hh(env, cfg, universe)
        self.n_sched = 0
        self.todo = []
        self.sampled = set()

    def violation(self, replay, what):
        self.nviol += 1
        if self.nviol <= 4:
            self.ctx.violation(replay, what)

    def check_result(self, items, res, suite):
        """everything that is checked on one in-process schedule run"""
        ctx = self.ctx
        sched, combo = res["sched"], tuple(res["combo"])
        n = len(sched)
        self.n_sched += 1
        rep = {"suite": suite, "items": items_to_json(items), "schedule": sched, "combo": list(combo), "cfg": self.cfg}
        ctx.case_seen((suite, combo, repr(items), repr(sched)), n >= 2)
        ctx.count("n_workers=%d" % n)
        ctx.count("combo=" + "+".join(combo))
        ctx.count("idle_workers=%d" % sum(1 for w in sched if not w))
        n_faults = sum(1 for it in items if it[3] in ("before", "after"))
        ctx.count("faulted_items=%d" % n_faults)
        if res["errors"] or any(c != 0 for c in res["exitcodes"]) or len(res["log_errors"]) != n_faults:
            # a raising callback is caught and logged once per faulted item; nothing else may go wrong
            self.violation(dict(rep, errors=res["errors"], exitcodes=res["exitcodes"], logged=res["log_errors"]),
                           "worker or merge failed, or callback faults were not caught and logged one by one")
            return
        for w, left in enumerate(res["queue_left"]):
            if left != [("sentinel-after-pill", w)]:
                self.violation(dict(rep, worker=w, queue_left=repr(left)),
                               "_worker did not consume exactly its items and one pill")
                return
        for kind in combo:
            fin = res["final"].get(kind)
            if fin is None:
                self.violation(dict(rep, kind=kind), "parallel_merging returned nothing")
                return
            # merge order: every worker sketch used exactly once, in the model's tree
            if res["n_trees_left"][kind] != 1 or res["tree"][kind] != py_tree(n):
                self.violation(dict(rep, kind=kind, observed_tree=repr(res["tree"][kind]), expected=repr(py_tree(n)),
                                    unmerged=res["n_trees_left"][kind] - 1),
                               "parallel_merging did not merge every worker sketch exactly once in pairwise rounds")
                return
            self.shape_cases[(n, repr(res["tree"][kind]), res["rounds"][kind], tuple(res["per_round"][kind]))] = res["tree"][kind]
            bad = None
            if not suite.startswith("Q-"):     # Q- suites: outside the property's hypotheses, model comparison only
                bad = predicate(kind, fin, items, self.universe, bm=self.bm, depth=self.cfg["cms"]["depth"],
                                seq=res["seq"][kind])
            if bad:
                self.violation(dict(rep, kind=kind, failed=bad, result={k: repr(v) for k, v in fin.items()}),
                               ctx.pid + " predicate: " + bad["clause"])
                return
            if kind != "hll" and not suite.startswith("Q-"):
                # n_records is added once per worker, at its pill
                for w, ws in enumerate(res["workers"][kind]):
                    exp = sum(ok_ret(items[i]) for i in sched[w])
                    if ws["n_records"] != exp:
                        self.violation(dict(rep, kind=kind, worker=w, n_records=ws["n_records"], expected=exp),
                                       "worker sketch n_records != sum of the callback returns of its successful items")
                        return
        if n >= 2 and suite not in self.sampled:
            self.sampled.add(suite)
            ctx.sample({"suite": suite, "combo": list(combo), "items": items_to_json(items), "schedule": sched,
                        "merge_tree": repr(res["tree"][combo[0]]), "mergers_per_round": res["per_round"][combo[0]],
                        "result": {k: {f: v for f, v in res["final"][k].items() if f in ("tab", "n_added", "n_records")}
                                   for k in combo if k != "hll"},
                        "logged_faults": len(res["log_errors"])})
        if "cms" in combo:
            self.cms_cases.append("(" + coq_cms_case(self.cfg, self.bm, items, sched, res["workers"]["cms"],
                                                        res["final"]["cms"]) + " : cms_case)")
            self.meta["cms"].append(rep)
        if "hll" in combo:
            self.hll_cases.append("(" + coq_hll_case(self.cfg, items, sched, res["final"]["hll"]) + " : hll_case)")
            self.meta["hll"].append(rep)
        if "hh" in combo:
            self.hh_cases.append(coq_hh_case(self.cfg, self.bmh, items, sched, res["workers"]["hh"], res["final"]["hh"]))
            self.meta["hh"].append(rep)

    def add(self, items, scheds, combo, suite):
        self.todo += [("sched", suite, items, tuple(combo), s) for s in scheds]

    def add_whole(self, items, combo, plan):
        self.todo.append(("whole", "S4-whole", items, tuple(combo), plan))

    def run_all(self):
        """one thread pool over all cases: the sleep-bound ones overlap with the rest"""
        env, cfg, uni = self.env, self.cfg, self.universe

        def one(c):
            kind, suite, items, combo, s = c
            if kind == "whole":
                return run_parallel_add(env, combo, cfg, items, s, uni)
            return run_schedule(env, combo, cfg, items, s, uni)
        t = time.time()
        for c, res in zip(self.todo, run_pool(one, self.todo, THREADS)):
            if self.nviol > 4:
                break
            if c[0] == "whole":
                self.check_whole(c[2], res)
            else:
                self.check_result(c[2], res, c[1])
        self.ctx.tick(f"{len(self.todo)} in-process cases in {time.time() - t:.1f}s")

    def check_whole(self, items, res):
        """one whole in-process parallel_add"""
        ctx = self.ctx
        combo, plan = tuple(res["combo"]), res["plan"]
        n = len(plan)
        rep = {"suite": "whole-parallel_add", "items": items_to_json(items), "schedule": plan, "combo": list(combo),
               "cfg": self.cfg}
        ctx.case_seen(("whole", combo, repr(items), repr(plan)), n >= 2)
        ctx.count("whole_parallel_add n_workers=%d" % n)
        dies = [it[0] for it in items if it[3] == "die"]
        if dies:
            # a worker "process" died: parallel_add must end with an exception, both queues closed and
            # everybody killed BEFORE any merger is started
            ctx.count("whole_parallel_add dead_worker")
            dead = [c for c in res["codes"] if c not in (0, None)]
            if not res["raised"]:
                self.violation(dict(rep, codes=res["codes"]), "a worker died and parallel_add returned a result")
                return
            if not dead or res["n_merge_started"] or not res["queues_closed"] or not res["close_before_merge"] \
                    or res["kills"].count("_worker") < n or "_log_worker" not in res["kills"]:
                self.violation(dict(rep, codes=res["codes"], mergers=res["n_merge_started"], kills=res["kills"],
                                    queues_closed=res["queues_closed"], raised=res["raised"]),
                               "abort path: not (kill workers and logger, close both queues, raise before any merge)")
                return
            self.mon_cases.append("(" + coq_mon_case(n, combo, [(res["codes"], False)], True, True, 0) + " : mon_case)")
            self.meta["mon"].append(dict(rep, codes=res["codes"]))
            return
        if res["raised"]:
            self.violation(dict(rep, raised=res["raised"]), "parallel_add raised although no worker died")
            return
        if res.get("returned_types") != [CLASSNAME[k] for k in combo]:
            self.violation(dict(rep, returned=res.get("returned_types")),
                           "parallel_add did not return the requested sketches in the order cms, hh, hll")
            return
        served = sorted(p for _, p in res["served"])
        if res["items_put"] != len(items) or res["pills_put"] != n or served != list(range(len(items))):
            self.violation(dict(rep, items_put=res["items_put"], pills_put=res["pills_put"], served=res["served"]),
                           "_fill_queue did not put every item once and one pill per worker")
            return
        if res["n_merge_started"] != (n - 1) * len(combo) or res["kills"] or res["queues_closed"]:
            self.violation(dict(rep, mergers=res["n_merge_started"], kills=res["kills"]),
                           "fault-free parallel_add started the wrong number of mergers or killed/closed something")
            return
        for kind in combo:
            seq = sequential(self.env, kind, self.cfg, items, self.universe)
            bad = predicate(kind, res["final"][kind], items, self.universe, bm=self.bm,
                               depth=self.cfg["cms"]["depth"], seq=seq)
            if bad:
                self.violation(dict(rep, kind=kind, failed=bad), ctx.pid + " predicate (whole parallel_add): " + bad["clause"])
                return
        self.mon_cases.append("(" + coq_mon_case(n, combo, [(res["codes"], False)], False, False, len(combo)) + " : mon_case)")
        self.meta["mon"].append(rep)
        if res.get("fill_error"):
            note = f"observation (not a finding): with {len(items)} items the _fill_queue process ended with {res['fill_error'][0]} " \
                   "after placing the pills; parallel_add does not look at its exit code and the result is still correct"
            if note not in ctx.notes:
                ctx.notes.append(note)

    def run_model(self):
        """the same cases inside Coq (Merging.v); a difference is a broken correspondence"""
        ctx = self.ctx
        shape_cases = []
        for (n, _, rounds, per_round), tree in self.shape_cases.items():
            shape_cases.append(f"({n}, {coq_tree(tree)}, {rounds}, [" + "; ".join(str(x) for x in per_round) + "])")
        for tag, chk, cases, shard in (("shape", "check_shape", shape_cases, 50), ("cms", "check_cms_case", self.cms_cases, 130),
                                       ("hll", "check_hll_case", self.hll_cases, 60), ("mon", "check_mon_case", self.mon_cases, 60),
                                       ("hh", "check_hh_pa_case", self.hh_cases, 60)):
            bad, err = ctx.coq_bad_cases(tag, IMPORTS_HH if tag == "hh" else IMPORTS, chk, cases, shard=shard)
            if err:
                ctx.broken.append(f"correspondence merge-tree ({tag}) could not be evaluated: {err}")
            if bad:
                i = sorted(bad)[0]
                rep = self.meta[tag][i] if tag in self.meta else {"case": cases[i]}
                show = ""
                if tag == "shape":
                    show = ctx.coq_show("shape", IMPORTS, f"pm_shape {shape_cases[i].split(',')[0][1:]}")[:300]
                ctx.broken.append(f"correspondence merge-tree ({tag}): model and implementation differ on {len(bad)} of "
                                  f"{len(cases)} cases, first: {json.dumps(rep, default=repr)[:600]} {show}")
            ctx.cov["model_cases_%s" % tag] = len(cases)
        ctx.tick("model evaluated in Coq")

    def run_model_real(self, real_items, real_cases):
        """the model on the schedules the real spawned runs actually had (returned sketches only)"""
        import cms_common
        ctx, cfg = self.ctx, self.cfg
        cc = [f"(({cfg['cms']['width']}%nat, {cfg['cms']['depth']}%nat, {cms_common.coq_bmap(self.bm)}, "
              f"{coq_outs(items, 'cms')}, {coq_sched(s)}, {coq_expect_cms(f)}) : real_cms_case)"
              for items, s, f in real_cases["cms"]]
        hc = ["(" + coq_hll_case(cfg, items, s, f) + " : hll_case)" for items, s, f in real_cases["hll"]]
        hhc = [coq_real_hh_case(cfg, self.bmh, items, s, f) for items, s, f in real_cases.get("hh", [])]
        for tag, chk, cases in (("realcms", "check_real_cms_case", cc), ("realhll", "check_hll_case", hc),
                                ("realhh", "check_real_hh_case", hhc)):
            bad, err = ctx.coq_bad_cases(tag, IMPORTS_HH if tag == "realhh" else IMPORTS, chk, cases, shard=10)
            if err:
                ctx.broken.append(f"correspondence merge-tree ({tag}) could not be evaluated: {err}")
            if bad:
                ctx.broken.append(f"correspondence merge-tree ({tag}): the model evaluated on the schedule observed in the real "
                                  f"spawned run differs from the returned sketch ({len(bad)} of {len(cases)})")
        ctx.cov["model_cases_real_runs"] = len(cc) + len(hc) + len(hhc)


def replay(ctx, path):
    """--replay <file>: run the recorded case again on the current implementation"""
    rp = json.load(open(path))
    cfg = rp.get("cfg", DEFAULT_CFG)
    universe = list(KEYS)
    ctx.cov["rule"] = "replay of one recorded case"
    if "items" not in rp or "combo" not in rp:
        ctx.notes.append("replay file holds no in-process case (theorem / correspondence / real-run record)")
        if rp.get("suite", "").startswith("real") or rp.get("suite") == "F2-probe":
            ctx.notes.append("real spawned runs are not replayed from a file: rerun the check, the same seed gives the same run")
        return
    env = Env(ctx)
    bm = probe_buckets(env, cfg, universe)
    S = Suite(ctx, env, cfg, universe, bm)
    items = items_from_json(rp["items"])
    if rp.get("suite", "").startswith("whole"):
        S.add_whole(items, rp["combo"], rp["schedule"])
    else:
        S.add(items, [rp["schedule"]], rp["combo"], rp.get("suite", "replay"))
    S.run_all()
    S.run_model()
    if not S.nviol and not ctx.broken:
        ctx.notes.append(f"replay {path}: the recorded case passes on the current tree")
    shm_cleanup(list(env.shm_names))
    env.close()


def eval_real(ctx, suite, r, spec, items, universe, cfg, bm, env):
    """the real spawned run: must return, every item processed exactly once, results as the property says;
    returns the observed schedule (for the model) or None"""
    rep = {"suite": "real-spawned-run", "n_workers": spec["n_workers"], "items": spec["items"], "combo": spec["combo"],
           "cfg": cfg, "outcome": {k: v for k, v in r.items() if k not in ("final", "trace")}}
    if r.get("hung"):
        suite.violation(rep, "real parallel_add did not return within the hard timeout")
        return None
    if r.get("broken"):
        ctx.broken.append("real spawned run could not be evaluated: " + r["broken"])
        return None
    if r["raised"]:
        suite.violation(rep, f"real parallel_add raised {r['raised']}: {r.get('message')}")
        return None
    combo = tuple(spec["combo"])
    if r.get("returned_types") != [CLASSNAME[k] for k in combo]:
        suite.violation(dict(rep, returned=r.get("returned_types")), "real parallel_add returned the wrong sketches")
        return None
    sched, n_active, exact = observed_schedule(r["trace"], spec["n_workers"], r.get("created"), len(spec["combo"]))
    seen = sorted(i for w in sched for i in w)
    if seen != list(range(len(items))) or len(sched) != spec["n_workers"]:
        suite.violation(dict(rep, observed_schedule=sched), "an item was not processed exactly once (callback side channel)")
        return None
    if r["orphans"] or r["shm_left"]:
        suite.violation(dict(rep, orphans=r["orphans"], shm_left=r["shm_left"]),
                        "parallel_add left processes or shared-memory blocks behind")
        return None
    fin = {}
    for kind in combo:
        s = r["final"][kind]
        if kind == "cms":
            s = dict(s, q=[(bytes(k), v) for k, v in s["q"]])
        elif kind == "hh":
            s = dict(s, get=[(bytes(k), v) for k, v in s["get"]], query=[(bytes(k), v) for k, v in s["query"]])
        fin[kind] = s
        seq = sequential(env, kind, cfg, items, universe)
        bad = predicate(kind, s, items, universe, bm=bm, depth=cfg["cms"]["depth"], seq=seq)
        if bad:
            suite.violation(dict(rep, kind=kind, failed=bad, observed_schedule=sched), ctx.pid + " predicate (real run): " + bad["clause"])
            return None
    if not exact:
        fin.pop("hh", None)     # heavy-hitter merge is not commutative: no model comparison without the worker order
        ctx.notes.append("real run: worker indices could not be recovered from the block names; heavy-hitter model comparison skipped")
    ctx.count("real_runs_ok")
    ctx.cov.setdefault("real_runs", []).append({"n_workers": spec["n_workers"], "wall_s": r["wall"], "call_s": r.get("call_s"),
                                                "observed_schedule": sched, "workers_that_got_items": n_active})
    return sched, fin



# ----------------------------------------------------------------------------- layer 2: real runs
_launch_counter = [0]


def launch_real(ctx, tag, spec, timeout):
    """start `python par_common.py real spec out` in the background; returns a handle"""
    import subprocess
    _launch_counter[0] += 1
    tag_f = f"{tag}_{_launch_counter[0]}"          # run() may be entered twice (second search): fresh files
    spec_p = os.path.join(ctx.dir, f"real_{tag_f}_spec.json")
    out_p = os.path.join(ctx.dir, f"real_{tag_f}_out.json")
    spec = dict(spec, trace_path=os.path.join(ctx.dir, f"real_{tag_f}_trace.txt"),
                die_flag=os.path.join(ctx.dir, f"real_{tag_f}_died.txt"))
    for f in (out_p, spec["trace_path"], spec["die_flag"]):
        try:
            os.remove(f)
        except OSError:
            pass
    with open(spec_p, "w") as f:
        json.dump(spec, f)
    env = dict(os.environ)
    # the spawned run must import the SAME tree the check is pointed at (VERIF_REPO), not whatever PYTHONPATH says
    import lib as _lib
    env["PYTHONPATH"] = os.pathsep.join([HERE, _lib.REPO])
    env["VERIF_REAL_HARD_TIMEOUT"] = str(timeout)
    log = open(os.path.join(ctx.dir, f"real_{tag_f}.log"), "w")
    p = subprocess.Popen([sys.executable, os.path.join(HERE, "par_common.py"), "real", spec_p, out_p],
                         stdout=log, stderr=subprocess.STDOUT, env=env, start_new_session=True)
    return {"tag": tag, "proc": p, "out": out_p, "spec": spec, "t0": time.time(), "timeout": timeout, "log": log}


class RealRuns:
    """at most `width` real spawned runs alive at a time; the next one starts as soon as one ends
    (a daemon thread polls), so that the runs overlap with the in-process enumeration"""

    def __init__(self, ctx, width=2):
        import threading
        self.ctx, self.width = ctx, width
        self.waiting, self.running, self.done = [], [], []
        self.lock = threading.Lock()
        self.thread = None

    def add(self, tag, spec, timeout):
        with self.lock:
            self.waiting.append((tag, spec, timeout))
        self._pump()
        if self.thread is None:
            import threading
            self.thread = threading.Thread(target=self._loop, daemon=True)
            self.thread.start()

    def _pump(self):
        with self.lock:
            for h in list(self.running):
                if h["proc"].poll() is not None or time.time() - h["t0"] > h["timeout"]:
                    self.running.remove(h)
                    self.done.append(h)
            while self.waiting and len(self.running) < self.width:
                tag, spec, timeout = self.waiting.pop(0)
                self.running.append(launch_real(self.ctx, tag, spec, timeout))

    def _loop(self):
        while True:
            self._pump()
            with self.lock:
                if not self.waiting and not self.running:
                    self.thread = None
                    return
            time.sleep(0.5)

    def results(self):
        """yield (tag, handle, result) in the order the runs were added, waiting for each"""
        order = []
        while True:
            self._pump()
            with self.lock:
                allh = self.done + self.running
                pending = len(self.waiting)
            for h in allh:
                if h["tag"] not in order and (h in self.done):
                    order.append(h["tag"])
                    yield h["tag"], h, collect_real(h)
            with self.lock:
                if not self.waiting and not self.running and len(order) == len(self.done):
                    return
            time.sleep(0.5)


def collect_real(h):
    """wait (hard timeout); on expiry kill the whole process group and report a hang"""
    import signal
    import subprocess
    p = h["proc"]
    left = h["timeout"] - (time.time() - h["t0"])
    hung = False
    try:
        p.wait(timeout=max(1, left))
    except subprocess.TimeoutExpired:
        hung = True
    try:
        os.killpg(p.pid, signal.SIGKILL)      # the session: leftover children too (no-op when all exited)
    except (ProcessLookupError, PermissionError):
        pass
    try:
        p.wait(timeout=10)
    except Exception:  # noqa
        pass
    h["log"].close()
    wall = round(time.time() - h["t0"], 1)
    if hung:
        return {"hung": True, "wall": wall}
    try:
        r = json.load(open(h["out"]))
    except Exception as e:  # noqa
        return {"hung": False, "wall": wall, "broken": f"no result file ({e!r}), exit code {p.returncode}"}
    r["hung"] = False
    r["wall"] = wall
    return r


def items_from_json(js):
    return [make_item(i, [(bytes(k), v) for k, v in adds], ret, mode, cut) for i, adds, ret, mode, cut in js]


def items_to_json(items):
    return [[i, [[list(k), v] for k, v in adds], ret, mode, cut] for i, adds, ret, mode, cut in items]


def observed_schedule(trace_text, n_workers, created=None, n_kinds=1):
    """(pid, idx, block name) lines written by the callback -> per-worker item sequences.
    The worker index of a process is recovered from the block name: parallel_add creates the blocks
    worker by worker (l.331-344), `created` lists them in creation order.  Returns (schedule,
    number of workers that got items, True when every worker index could be recovered); without
    the names the workers are listed in order of first appearance (good enough for sketches whose
    merge is commutative, not for heavy hitters)."""
    order, seqs, names = [], {}, {}
    for line in trace_text.split("\n"):
        parts = line.split()
        if len(parts) < 2:
            continue
        pid, idx = int(parts[0]), int(parts[1])
        if pid not in seqs:
            seqs[pid] = []
            order.append(pid)
            names[pid] = parts[2] if len(parts) > 2 else "-"
        seqs[pid].append(idx)
    created = [c.lstrip("/") for c in (created or [])]
    index = {}
    for pid in order:
        nm = names[pid].lstrip("/")
        if nm in created:
            index[pid] = created.index(nm) // max(1, n_kinds)
    exact = len(index) == len(order) and len(set(index.values())) == len(order) and all(i < n_workers for i in index.values())
    if exact:
        sched = [[] for _ in range(n_workers)]
        for pid in order:
            sched[index[pid]] = seqs[pid]
    else:
        sched = [seqs[p] for p in order]
        while len(sched) < n_workers:
            sched.append([])
    return sched, len(order), exact


def _real_main(spec_p, out_p):
    t_start = time.time()
    spec = json.load(open(spec_p))
    out = {"mode": spec["mode"], "n_workers": spec["n_workers"]}

    def write():
        out["child_wall"] = round(time.time() - t_start, 1)
        with open(out_p + ".tmp", "w") as f:
            json.dump(out, f)
        os.replace(out_p + ".tmp", out_p)

    import multiprocessing
    created = record_shm_creations()
    import numpy as np
    from sketchnu.helpers import parallel_add
    import par_callbacks
    out["import_s"] = round(time.time() - t_start, 1)
    items = items_from_json(spec["items"])
    combo = spec["combo"]
    cfg = spec["cfg"]
    universe = [bytes(k) for k in spec["universe"]]
    args = {k + "_args": dict(cfg[k]) for k in combo}
    kwargs = {"trace_path": spec["trace_path"], "item_table": item_table(items)}
    if spec.get("slow_worker0"):
        kwargs["slow_worker0"] = spec["slow_worker0"]
    if spec.get("delay"):
        kwargs["delay"] = spec["delay"]
    if spec.get("die_on_kth"):
        kwargs.update(die_on_kth=spec["die_on_kth"], die_flag=spec["die_flag"], die_signal=bool(spec.get("die_signal")))
    qitems = [qobj(items, i) for i in range(len(items))]
    src = (it for it in qitems) if spec["mode"] == "f2" else qitems
    t0 = time.time()
    result = None
    try:
        result = parallel_add(src, par_callbacks.process_item, n_workers=spec["n_workers"], **args, **kwargs)
        out["raised"] = None
    except BaseException as e:  # noqa
        out["raised"] = type(e).__name__
        out["message"] = str(e)[:300]
    out["call_s"] = round(time.time() - t0, 1)
    if result is not None:
        outs = result if isinstance(result, tuple) else (result,)
        out["returned_types"] = [type(o).__name__ for o in outs]
        fin = {}
        if len(outs) == len(combo):
            for kind, o in zip(combo, outs):
                s = snap(np, kind, o, universe)
                if kind == "cms":
                    s["q"] = [[list(k), v] for k, v in s["q"]]
                elif kind == "hh":
                    s["get"] = [[list(k), v] for k, v in s["get"]]
                    s["query"] = [[list(k), v] for k, v in s["query"]]
                fin[kind] = s
                del o
        out["final"] = fin
        del outs, result
    # whoever is still running was orphaned by the call (F2: the log process; abort path: nobody expected)
    kids = multiprocessing.active_children()
    out["orphans"] = [getattr(k, "name", "?") for k in kids]
    for k in kids:
        try:
            k.kill()
        except Exception:  # noqa
            pass
    for k in kids:
        try:
            k.join(10)
        except Exception:  # noqa
            pass
    import gc
    gc.collect()
    time.sleep(0.6)
    out["shm_created"] = len(created)
    out["created"] = list(created)
    out["shm_left"] = shm_cleanup(list(created))
    try:
        out["trace"] = open(spec["trace_path"]).read()
    except OSError:
        out["trace"] = ""
    try:
        out["died"] = open(spec["die_flag"]).read()
    except OSError:
        out["died"] = ""
    write()


if __name__ == "__main__":
    if len(sys.argv) == 4 and sys.argv[1] == "real":
        _real_main(sys.argv[2], sys.argv[3])
