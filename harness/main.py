#!/venv/bin/python
"""Entry point:  check <id> [--tier quick|thorough] [--replay file] | check --setup"""
import argparse
import importlib
import os
import sys

HERE = os.path.dirname(os.path.abspath(__file__))
sys.path.insert(0, HERE)
import lib  # noqa: E402


def setup():
    import fcntl
    import translate
    os.makedirs(lib.BUILD, exist_ok=True)
    lock = open(os.path.join(lib.BUILD, ".lock"), "w")
    fcntl.flock(lock, fcntl.LOCK_EX)
    ch, _, _ = translate.generate(lib.REPO, os.path.join(lib.COQ, "generated"))
    lib.write_coqproject()
    rc, out, err = lib.run(["coq_makefile", "-f", "_CoqProject", "-o", "Makefile"], 120, cwd=lib.COQ)
    if rc != 0:
        print(out, err)
        sys.exit(1)
    # -k: a theory file that does not build only matters to the properties that depend on it;
    # their own checks report it.  Setup itself fails only if nothing can be built.
    rc, out, err = lib.run(["make", "-k", "-j%d" % lib.PAR], 3400, cwd=lib.COQ)
    sys.stdout.write(out[-3000:])
    sys.stderr.write(err[-3000:])
    ok = os.path.exists(os.path.join(lib.COQ, "theories", "Machine.vo"))
    sys.exit(0 if ok else 1)


def main():
    ap = argparse.ArgumentParser()
    ap.add_argument("pid", nargs="?")
    ap.add_argument("--tier", default=os.environ.get("VERIF_TIER", "quick"))
    ap.add_argument("--replay")
    ap.add_argument("--setup", action="store_true")
    a = ap.parse_args()
    if a.setup:
        setup()
    if a.tier not in ("quick", "thorough"):
        a.tier = "quick"
    try:
        seed = int(os.environ.get("VERIF_SEED", "0"))
    except ValueError:
        seed = 0
    mod = importlib.import_module("checks." + a.pid)
    ctx = lib.Ctx(a.pid, a.tier, seed)
    ctx.replay_file = a.replay
    ctx.hygiene()
    ctx.sync_build()
    ctx.tick('build synced')
    ctx.compile_props(getattr(mod, "ALLOWED_AXIOMS", frozenset()))
    ctx.tick('props compiled')
    try:
        mod.run(ctx)
    except SystemExit:
        raise
    except BaseException as e:  # the implementation (or the driver) raised where the check expected a value
        import traceback
        tb = traceback.format_exc()
        in_impl = lib.REPO in tb
        ctx.violation({"exception": repr(e), "traceback": tb.splitlines()[-25:]},
                      ("the implementation raised " if in_impl else "the check's driver raised ") + repr(e) +
                      " while the check was running (see traceback in the replay file)", has_input=False)
        ctx.broken.append("check run aborted by " + repr(e))
    ctx.tick('run done')
    # a theorem / translator obligation / correspondence no longer checks but no concrete failing input
    # was found: second, larger search (the PRNG has advanced, so these are new cases; checks that
    # honour ctx.search_factor also widen their generators) before reporting no-failing-input-found
    if ctx.broken and not any(h for _, h, _ in ctx.violations) and not os.environ.get("VERIF_NO_SECOND_SEARCH"):
        lib.log(f"[{a.pid}] broken obligation without failing input -> second search")
        ctx.search_factor = 5
        ctx.second_search = True
        n_broken = len(ctx.broken)
        try:
            mod.run(ctx)
        except SystemExit:
            raise
        except Exception as e:  # noqa
            ctx.notes.append("second search aborted: " + repr(e))
        ctx.broken = list(dict.fromkeys(ctx.broken))[:max(n_broken, 6)]
        ctx.cov["second_search"] = True
        ctx.tick('second search done')
    ctx.finish()


if __name__ == "__main__":
    main()
