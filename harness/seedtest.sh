#!/bin/bash
# seedtest.sh <seed_dir> <name> <property> <check ids...>
# Confirms a seeded change in a scratch worktree (demo passes on clean, fails on changed, pinned suite
# still passes on changed), runs the given checks against the changed tree, and stores it under seeded/<name>/.
set -u
SRC=$1; NAME=$2; PROP=$3; shift 3; CHECKS="$@"
WT=${SEED_WT:-/tmp/wt_M}
TAG=${SEED_TAG:-seed}     # several seedtests may run side by side with different SEED_WT / SEED_TAG
[ -d $WT ] || git -C /repo worktree add -q --detach $WT HEAD
git -C $WT checkout -q -- . ; git -C $WT clean -fdq
export PYTHONDONTWRITEBYTECODE=1 PYTHONWARNINGS=ignore
OUT=/verif/seeded/$NAME; mkdir -p $OUT
cp $SRC/patch.diff $SRC/demo.py $OUT/ ; [ -f $SRC/README.md ] && cp $SRC/README.md $OUT/AGENT_README.md
( cd $WT && PYTHONPATH=$WT timeout 600 /venv/bin/python $OUT/demo.py >/tmp/seed_demo_clean_$TAG.log 2>&1 ); CLEAN=$?
git -C $WT apply $OUT/patch.diff || { echo "PATCH DOES NOT APPLY"; exit 2; }
( cd $WT && PYTHONPATH=$WT timeout 600 /venv/bin/python $OUT/demo.py >/tmp/seed_demo_mut_$TAG.log 2>&1 ); MUT=$?
echo "demo: clean exit=$CLEAN mutated exit=$MUT"
( cd $WT && PYTHONPATH=$WT timeout 1500 /venv/bin/python -m pytest -q -p no:cacheprovider --timeout=900 >/tmp/seed_suite_$NAME.log 2>&1; tail -1 /tmp/seed_suite_$NAME.log > /tmp/seed_suite_$NAME.res ) &
SUITEPID=$!
RES=""
for c in $CHECKS; do
  ( cd /verif && VERIF_BUILD_TAG=$TAG VERIF_REPO=$WT timeout 1500 ./check $c > /tmp/seed_check_${TAG}_$c.log 2>&1 ); rc=$?
  v=$(grep -c "^VIOLATION" /tmp/seed_check_${TAG}_$c.log)
  nf=$(grep -c "no-failing-input-found" /tmp/seed_check_${TAG}_$c.log)
  echo "check $c: exit=$rc violations=$v (no-failing-input-found: $nf)"
  RES="$RES {\"check\": \"$c\", \"exit\": $rc, \"violation_lines\": $v, \"without_input\": $nf},"
  [ $rc -ne 0 ] && cp $(grep "^VIOLATION" /tmp/seed_check_${TAG}_$c.log | head -1 | sed 's/.*replay=\([^ ]*\).*/\1/') $OUT/replay_$c.json 2>/dev/null
done
wait $SUITEPID
SUITE=$(cat /tmp/seed_suite_$NAME.res)
echo "suite on changed tree: $SUITE"
git -C $WT checkout -q -- . ; git -C $WT clean -fdq
cat > $OUT/meta.json <<EOM
{"name": "$NAME", "breaks_property": "$PROP", "source": "independent sub-agent given only the property text and a scratch worktree",
 "demo_exit_on_clean_tree": $CLEAN, "demo_exit_on_changed_tree": $MUT, "pinned_suite_on_changed_tree": "$SUITE",
 "checks_run_against_changed_tree": [${RES%,}],
 "how_run": "harness/seedtest.sh: git apply in scratch worktree, demo.py, pytest, then VERIF_REPO=<worktree> ./check <id> (quick tier)"}
EOM
cat $OUT/meta.json
