"""pytrans_ngram.py — translator plug-in (see translate.generate): the five n-gram drivers.

Regenerated on every run into coq/generated/KernelsNgram.v, one group of definitions per driver (tag in brackets):
  countmin.py      _add_ngram_linear [linear], _add_ngram_log16 [log16], _add_ngram_log8 [log8]
  hyperloglog.py   _add_ngram [hll]
  heavyhitters.py  _add_ngram [hh]
Every driver has the shape
    <key_len> = uint64(len(<key>))                      (np.uint64 is read as uint64)
    if <test on key_len, ngram>:      [<ptr> =] <single-add kernel>(<driver parameters...>, <key>, [<multiplicity>])
    else:
        for <i> in range(<bound>):    [<ptr> =] <single-add kernel>(<driver parameters...>, <key>[<lo> : <hi>], [<multiplicity>])
    [return <ptr>]
and for each tag T the file contains
  gen_ngram_T_key_len (len_key)        the right-hand side of the first statement as a function of len(key)
  gen_ngram_T_whole (key_len ngram)    the test of the `if` (true = the whole key is added once)
  gen_ngram_T_count (key_len ngram)    the argument of range(...)
  gen_ngram_T_lo / _hi (i ngram)       the bounds of the slice
  gen_ngram_T_mult                     Some <the multiplicity literal after its own cast and the cast to the callee's declared
                                       parameter type>, None when the single-add kernel takes no multiplicity (HyperLogLog)
  gen_ngram_T_callee                   the name of the single-add kernel both branches call
  gen_ngram_T_threads_ptr              true iff the driver returns a value (the log variants' rand_ptr); then the translator has
                                       checked that both branches assign the kernel's result to that parameter, that the
                                       parameter is passed to the kernel, and that the driver ends with `return <ptr>`
tied by proof to theories/Ngram.v (the loop all five models share) in theories/KernelTieNgram*.v.

Expressions are translated by pytrans.IntTrans unchanged (every local in a 64-bit unsigned register, `+ - *` followed by
wrap64, casts uintN(e) -> wrapN, a scalar parameter narrower than 64 bits wrapped at entry).  That reading is only right
for unsigned operands: an integer literal that is not the argument of a cast uintN(...) is REJECTED (Numba types a bare
literal int64 and uint64 - int64 is a float64).  Local names (key_len, i) and parameter names are taken from the source,
`x op= e` does not occur in these drivers; application in the tie files is positional, so a rename is not a change.

Structural checks, all fail-closed (TranslatorError):
* the driver's parameters are <pass-through parameters...>, <key> (not a scalar/array type: types.Bytes), <ngram> (uintN);
* both branches are ONE statement calling the SAME kernel, which is the one named in DRIVERS and is defined in the same
  file; no keyword / starred arguments; the kernel has as many parameters as the driver, or one fewer (no multiplicity);
* argument j < position of key is, in BOTH calls, the driver's own j-th parameter, and the kernel's declared type at j is the
  driver's declared type at j (same arrays and scalars, same order);
* the key argument is <key> in the `if` branch and a slice <key>[lo : hi] (no step) in the loop; nothing else differs;
* the multiplicity (when the kernel has the parameter) is the same cast literal uintN(<int>) in both calls;
* a driver whose declared return type is not void: see gen_ngram_T_threads_ptr above (and the kernel's declared return type is
  the driver's); a void driver: both calls are expression statements, the kernel is void, nothing (or `return None`) follows;
* the test mentions only key_len and ngram, the loop bound likewise, the slice bounds only i and ngram.

Fail-soft per driver: a driver that cannot be translated gets POISONED definitions of the same types (false / -1 / Some (-1) /
the empty string), the error is reported as kernels:<source>:<function>, the file always compiles and only that driver's tie
file fails.  Functions are located by name; line numbers appear in comments only.
"""
import ast
import copy
import os

from translate import TranslatorError, _parse, _find_func, _strip_doc
from pytrans import IntTrans, WIDTH
from pytrans_cms import COQ_RESERVED

FNAME = "KernelsNgram.v"

# (tag, source file, driver, the single-add kernel it must call)
DRIVERS = [("linear", "countmin.py", "_add_ngram_linear", "_add_linear"),
           ("log16", "countmin.py", "_add_ngram_log16", "_add_log16"),
           ("log8", "countmin.py", "_add_ngram_log8", "_add_log8"),
           ("hll", "hyperloglog.py", "_add_ngram", "_add"),
           ("hh", "heavyhitters.py", "_add_ngram", "_add")]

RESERVED = set(COQ_RESERVED) | {"Z", "bool", "true", "false", "string", "option", "nat", "len", "range"}


def _c(text):
    """a Coq comment (never nested, never closed early by source text)"""
    return "(* " + text.replace("(*", "( *").replace("*)", "* )") + " *)"


def _ln(node):
    lo, hi = node.lineno, node.end_lineno
    return f"l.{lo}" if lo == hi else f"l.{lo}-{hi}"


# ------------------------------------------------------------------ signatures (compared node by node)
def _sig_nodes(fn):
    """([ast node of each declared parameter type], name of the declared return type) from @njit(ret(args...))"""
    for d in fn.decorator_list:
        if isinstance(d, ast.Call) and getattr(d.func, "id", None) == "njit" and d.args and isinstance(d.args[0], ast.Call):
            s = d.args[0]
            if isinstance(s.func, ast.Name):
                rt = s.func.id
            elif isinstance(s.func, ast.Attribute):
                rt = s.func.attr
            else:
                raise TranslatorError(f"{fn.name}: return type of the signature not recognised")
            if s.keywords or len(s.args) != len(fn.args.args):
                raise TranslatorError(f"{fn.name}: signature arity")
            if fn.args.vararg or fn.args.kwarg or fn.args.kwonlyargs or fn.args.defaults or fn.args.posonlyargs:
                raise TranslatorError(f"{fn.name}: parameter list is not a plain list of names")
            return list(s.args), rt
    raise TranslatorError(f"{fn.name}: no @njit(signature) decorator")


def _scalar_width(node):
    return WIDTH[node.id] if isinstance(node, ast.Name) and node.id in WIDTH else None


# ------------------------------------------------------------------ expressions
class _NpCasts(ast.NodeTransformer):
    """np.uintN(e) -> uintN(e): the same cast in Numba"""

    def visit_Call(self, node):
        self.generic_visit(node)
        f = node.func
        if isinstance(f, ast.Attribute) and isinstance(f.value, ast.Name) and f.value.id == "np" and f.attr in WIDTH:
            node.func = ast.copy_location(ast.Name(id=f.attr, ctx=ast.Load()), f)
        return node


def _norm(e):
    return ast.fix_missing_locations(_NpCasts().visit(copy.deepcopy(e)))


def _value_names(e):
    """names an expression reads (callee names excluded)"""
    funcs = {id(n.func) for n in ast.walk(e) if isinstance(n, ast.Call)}
    return {n.id for n in ast.walk(e) if isinstance(n, ast.Name) and id(n) not in funcs}


def _check_unsigned(where, e):
    """every integer literal is the argument of a cast uintN(...); no other constants, no subscripts, no keywords"""
    cast_args = set()
    for n in ast.walk(e):
        if isinstance(n, ast.Call):
            if n.keywords or any(isinstance(a, ast.Starred) for a in n.args):
                raise TranslatorError(f"{where}: keyword / starred arguments")
            if isinstance(n.func, ast.Name) and n.func.id in WIDTH and len(n.args) == 1:
                cast_args.add(id(n.args[0]))
    for n in ast.walk(e):
        if isinstance(n, ast.Constant):
            if isinstance(n.value, bool) or not isinstance(n.value, int) or n.value < 0:
                raise TranslatorError(f"{where}: constant {n.value!r}")
            if id(n) not in cast_args:
                raise TranslatorError(f"{where}: l.{n.lineno}: the integer literal {n.value} is not the argument of a cast uintN(...) "
                                      "(Numba types it int64; mixed with uint64 operands the result is a float64)")
        if isinstance(n, (ast.Subscript, ast.UnaryOp, ast.BoolOp, ast.IfExp, ast.Attribute)):
            raise TranslatorError(f"{where}: l.{n.lineno}: unsupported {type(n).__name__} in an integer expression")


def _definition(name, params, widths, rty, term):
    pre = "".join(f"let {p} := wrap{w} {p} in\n  " for p, w in zip(params, widths) if w is not None and w < 64)
    return f"Definition {name} ({' '.join(params)} : Z) : {rty} :=\n  {pre}{term}.\n"


def _zfun(where, name, e, params, widths, allowed):
    e = _norm(e)
    _check_unsigned(where, e)
    extra = sorted(_value_names(e) - set(allowed))
    if extra:
        raise TranslatorError(f"{where}: mentions {extra}; only {sorted(allowed)} may occur")
    return _definition(name, params, widths, "Z", IntTrans({}).expr(e))


# ------------------------------------------------------------------ one driver
def _call_of(where, stmt, threaded):
    """(assignment target or None, the Call) of a branch's only statement"""
    if threaded:
        if not (isinstance(stmt, ast.Assign) and len(stmt.targets) == 1 and isinstance(stmt.targets[0], ast.Name)
                and isinstance(stmt.value, ast.Call)):
            raise TranslatorError(f"{where}: l.{stmt.lineno}: expected `<ptr> = <kernel>(...)` (the driver returns a value)")
        return stmt.targets[0].id, stmt.value
    if not (isinstance(stmt, ast.Expr) and isinstance(stmt.value, ast.Call)):
        raise TranslatorError(f"{where}: l.{stmt.lineno}: expected a bare call `<kernel>(...)` (the driver is void)")
    return None, stmt.value


def _driver(tree, tag, source, fname, callee_name):
    fn = _find_func(tree, fname)
    where = f"{source[:-3]}.{fname}"
    body = _strip_doc(fn)
    sig, rt = _sig_nodes(fn)
    params = [a.arg for a in fn.args.args]
    if len(params) < 2 or len(set(params)) != len(params):
        raise TranslatorError(f"{where}: parameter list {params}")
    key, ngram = params[-2], params[-1]
    nw = _scalar_width(sig[-1])
    if nw is None:
        raise TranslatorError(f"{where}: the last parameter ({ngram}) is not declared uintN")
    if isinstance(sig[-2], ast.Name) or isinstance(sig[-2], ast.Subscript):
        raise TranslatorError(f"{where}: the parameter before the last ({key}) is declared as a scalar or an array, not as bytes")
    threaded = rt != "void"
    if threaded and rt not in WIDTH:
        raise TranslatorError(f"{where}: declared return type {rt}")

    # ---- statement shape
    kinds = [type(s).__name__ for s in body]
    if kinds[:2] != ["Assign", "If"] or kinds[2:] not in ([], ["Return"]):
        raise TranslatorError(f"{where}: unexpected statement shape {kinds}")
    first, iff = body[0], body[1]
    ret = body[2] if len(body) == 3 else None
    if not (len(first.targets) == 1 and isinstance(first.targets[0], ast.Name)):
        raise TranslatorError(f"{where}: l.{first.lineno}: the first statement does not assign a local")
    kl = first.targets[0].id
    if len(iff.body) != 1 or len(iff.orelse) != 1 or not isinstance(iff.orelse[0], ast.For):
        raise TranslatorError(f"{where}: {_ln(iff)}: expected `if ...: <one call> else: for ...: <one call>`")
    loop = iff.orelse[0]
    ok = (isinstance(loop.target, ast.Name) and not loop.orelse and len(loop.body) == 1 and isinstance(loop.iter, ast.Call)
          and isinstance(loop.iter.func, ast.Name) and loop.iter.func.id == "range" and len(loop.iter.args) == 1
          and not loop.iter.keywords and not isinstance(loop.iter.args[0], ast.Starred))
    if not ok:
        raise TranslatorError(f"{where}: l.{loop.lineno}: expected `for <i> in range(<bound>): <one call>`")
    ivar = loop.target.id
    locals_ = [kl, ivar, "len_" + key]
    if len(set(locals_ + params)) != len(locals_) + len(params):
        raise TranslatorError(f"{where}: the locals {locals_} clash with each other or with a parameter")
    for n in locals_ + [ngram]:
        if n in RESERVED or not n.isidentifier() or n.startswith("gen_") or n.startswith("wrap"):
            raise TranslatorError(f"{where}: name {n}")

    # ---- the two calls
    t1, c1 = _call_of(where, iff.body[0], threaded)
    t2, c2 = _call_of(where, loop.body[0], threaded)
    for c in (c1, c2):
        if not (isinstance(c.func, ast.Name) and c.func.id == callee_name):
            raise TranslatorError(f"{where}: l.{c.lineno}: calls {ast.unparse(c.func)}, expected the single-add kernel {callee_name}")
        if c.keywords or any(isinstance(a, ast.Starred) for a in c.args):
            raise TranslatorError(f"{where}: l.{c.lineno}: keyword / starred arguments")
    callee = _find_func(tree, callee_name)
    csig, crt = _sig_nodes(callee)
    kpos = len(params) - 2
    if len(csig) not in (kpos + 1, kpos + 2):
        raise TranslatorError(f"{where}: {callee_name} has {len(csig)} parameters, expected {kpos + 1} or {kpos + 2}")
    has_mult = len(csig) == kpos + 2
    for c in (c1, c2):
        if len(c.args) != len(csig):
            raise TranslatorError(f"{where}: l.{c.lineno}: {len(c.args)} arguments for the {len(csig)} parameters of {callee_name}")
        for j in range(kpos):
            if not (isinstance(c.args[j], ast.Name) and c.args[j].id == params[j]):
                raise TranslatorError(f"{where}: l.{c.args[j].lineno}: argument {j} of the call is `{ast.unparse(c.args[j])}`, "
                                      f"expected the driver's own parameter {params[j]}")
    for j in range(kpos + 1):
        if ast.dump(csig[j]) != ast.dump(sig[j]):
            raise TranslatorError(f"{where}: parameter {j} is declared {ast.unparse(sig[j])} in the driver and "
                                  f"{ast.unparse(csig[j])} in {callee_name}")
    if not (isinstance(c1.args[kpos], ast.Name) and c1.args[kpos].id == key):
        raise TranslatorError(f"{where}: l.{c1.lineno}: the `if` branch does not pass the whole {key}")
    sl = c2.args[kpos]
    if not (isinstance(sl, ast.Subscript) and isinstance(sl.value, ast.Name) and sl.value.id == key
            and isinstance(sl.slice, ast.Slice) and sl.slice.lower is not None and sl.slice.upper is not None
            and sl.slice.step is None):
        raise TranslatorError(f"{where}: l.{sl.lineno}: the loop does not pass a slice {key}[lo : hi]")
    mult = "None"
    if has_mult:
        m1, m2 = _norm(c1.args[kpos + 1]), _norm(c2.args[kpos + 1])
        if ast.dump(m1) != ast.dump(m2):
            raise TranslatorError(f"{where}: the two branches pass different multiplicities "
                                  f"({ast.unparse(m1)} / {ast.unparse(m2)})")
        if not (isinstance(m1, ast.Call) and isinstance(m1.func, ast.Name) and m1.func.id in WIDTH and len(m1.args) == 1
                and not m1.keywords and isinstance(m1.args[0], ast.Constant) and isinstance(m1.args[0].value, int)
                and not isinstance(m1.args[0].value, bool) and m1.args[0].value >= 0):
            raise TranslatorError(f"{where}: l.{m1.lineno}: the multiplicity `{ast.unparse(m1)}` is not a cast literal uintN(<int>)")
        cw = _scalar_width(csig[kpos + 1])
        if cw is None:
            raise TranslatorError(f"{where}: the last parameter of {callee_name} is not declared uintN")
        mult = f"Some (wrap{cw} {IntTrans({}).expr(m1)})"

    # ---- threading of the returned value
    if threaded:
        if crt != rt:
            raise TranslatorError(f"{where}: returns {rt} but {callee_name} returns {crt}")
        if not (ret is not None and isinstance(ret.value, ast.Name)):
            raise TranslatorError(f"{where}: does not end with `return <ptr>`")
        ptr = ret.value.id
        if ptr not in params[:kpos]:
            raise TranslatorError(f"{where}: returns {ptr}, which is not one of the parameters handed to {callee_name}")
        if ast.dump(sig[params.index(ptr)]) != ast.dump(ast.Name(id=rt, ctx=ast.Load())):
            raise TranslatorError(f"{where}: {ptr} is not declared {rt}")
        if t1 != ptr or t2 != ptr:
            raise TranslatorError(f"{where}: the result of {callee_name} is assigned to {t1} / {t2}; both branches must assign it to "
                                  f"{ptr}, the value the driver returns")
    else:
        if crt != "void":
            raise TranslatorError(f"{where}: is void but {callee_name} returns {crt}")
        if ret is not None and not (ret.value is None or (isinstance(ret.value, ast.Constant) and ret.value.value is None)):
            raise TranslatorError(f"{where}: is void but returns a value")

    # ---- the pieces
    first_v = _norm(first.value)
    lens = {id(n.args[0]) for n in ast.walk(first_v)
            if isinstance(n, ast.Call) and isinstance(n.func, ast.Name) and n.func.id == "len" and len(n.args) == 1}
    for n in ast.walk(first_v):
        if isinstance(n, ast.Name) and n.id not in WIDTH and n.id != "len" and not (n.id == key and id(n) in lens):
            raise TranslatorError(f"{where}: l.{first.lineno}: the first statement mentions {n.id} outside len({key})")
    _check_unsigned(where, first_v)
    g = f"gen_ngram_{tag}_"
    test = _norm(iff.test)
    _check_unsigned(where, test)
    extra = sorted(_value_names(test) - {kl, ngram})
    if extra:
        raise TranslatorError(f"{where}: l.{iff.lineno}: the test mentions {extra}")
    out = [_c(f"{source} {fname} l.{first.lineno}: `{kl} = {ast.unparse(first.value)}` as a function of len({key})"),
           _definition(g + "key_len", ["len_" + key], [None], "Z", IntTrans({}).expr(first_v)),
           _c(f"{fname} l.{iff.lineno}: the test `{ast.unparse(iff.test)}`; true = one call {callee_name}(..., {key}"
              + (", " + ast.unparse(c1.args[kpos + 1]) if has_mult else "") + ")"),
           _definition(g + "whole", [kl, ngram], [None, nw], "bool", IntTrans({}).cond(test)),
           _c(f"{fname} l.{loop.lineno}: the bound of `for {ivar} in range({ast.unparse(loop.iter.args[0])})`"),
           _zfun(where, g + "count", loop.iter.args[0], [kl, ngram], [None, nw], {kl, ngram}),
           _c(f"{fname} l.{sl.lineno}: the bounds of the slice `{ast.unparse(sl)}` handed to {callee_name}"),
           _zfun(where, g + "lo", sl.slice.lower, [ivar, ngram], [None, nw], {ivar, ngram}),
           _zfun(where, g + "hi", sl.slice.upper, [ivar, ngram], [None, nw], {ivar, ngram}),
           _c(f"{fname}: both branches call {callee_name} with the driver's parameters {', '.join(params[:kpos])} in this order, then "
              f"the key / the slice" + (f", then the multiplicity `{ast.unparse(c1.args[kpos + 1])}` (cast to the type {callee_name} "
                                        f"declares)" if has_mult else f"; {callee_name} takes no multiplicity")
              + (f"; the result is assigned to {ret.value.id} in both branches and returned" if threaded else "")),
           f"Definition {g}mult : option Z := {mult}.",
           f"Definition {g}callee : string := \"{callee_name}\"%string.",
           f"Definition {g}threads_ptr : bool := {'true' if threaded else 'false'}.\n"]
    return out


# ------------------------------------------------------------------ file
HDR = ["(* GENERATED by harness/pytrans_ngram.py from the repository - do not edit.  The five n-gram drivers: whole-key test, loop",
       "   bound, slice bounds, multiplicity literal, translated from the AST (64-bit registers with explicit wraps); that both",
       "   branches call the same single-add kernel with the same arguments is checked by the translator. *)",
       "From Coq Require Import ZArith Bool String.", "From Sketchnu Require Import Machine.", "Open Scope Z_scope.", ""]


def _poison(tag):
    g = f"gen_ngram_{tag}_"
    return [f"Definition {g}key_len (x0 : Z) : Z := -1.  (* translation failed *)",
            f"Definition {g}whole (x0 x1 : Z) : bool := false.  (* translation failed *)",
            f"Definition {g}count (x0 x1 : Z) : Z := -1.  (* translation failed *)",
            f"Definition {g}lo (x0 x1 : Z) : Z := -1.  (* translation failed *)",
            f"Definition {g}hi (x0 x1 : Z) : Z := -1.  (* translation failed *)",
            f"Definition {g}mult : option Z := Some (-1).  (* translation failed *)",
            f"Definition {g}callee : string := \"\"%string.  (* translation failed *)",
            f"Definition {g}threads_ptr : bool := false.  (* translation failed *)\n"]


NAMES = ("key_len", "whole", "count", "lo", "hi", "mult", "callee", "threads_ptr")


def generate(repo):
    """({file name: text}, {tag: error}); never raises, the file always compiles"""
    out = list(HDR)
    errors = {}
    trees = {}
    for tag, source, fname, callee in DRIVERS:
        try:
            if source not in trees:
                try:
                    trees[source] = _parse(os.path.join(repo, "sketchnu", source))
                except Exception as e:
                    trees[source] = e
            if isinstance(trees[source], Exception):
                raise trees[source]
            part = _driver(trees[source], tag, source, fname, callee)
            for n in NAMES:                             # what is emitted is what the tie files expect
                if sum(p.startswith(f"Definition gen_ngram_{tag}_{n} ") for p in part) != 1:
                    raise TranslatorError(f"{fname}: definition gen_ngram_{tag}_{n} not produced")
            out += part
        except Exception as e:
            errors[f"kernels:{source[:-3]}:{fname}"] = f"{type(e).__name__}: {e}"
            out.append("(* TRANSLATION FAILED (" + source + " " + fname + "): " + str(e).replace("*)", "* )").replace("(*", "( *") + " *)")
            out += _poison(tag)
    return {FNAME: "\n".join(out) + "\n"}, errors


if __name__ == "__main__":
    import sys
    t, e = generate(sys.argv[1] if len(sys.argv) > 1 else "/repo")
    for k, v in t.items():
        print("=====", k)
        print(v)
    print("errors:", e)
