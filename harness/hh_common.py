"""hh_common.py — heavy-hitter suite shared by the checks C03, C04, C13 (DESIGN.md 2.3, "hh").

A *program* runs on up to four real HeavyHitters objects ("registers"):
    dict(w=, d=, L=, phi=None|float, nsk=, alphabet=[bytes], ops=[op, ...])
    op = ("add", i, key, v) | ("updl", i, [keys]) | ("updd", i, [(key, v)]) | ("ngram", i, key, n)
       | ("updn", i, [keys], n) | ("merge", i, j) | ("sl", i) | ("query", i, k, thr)
       | ("queryb", i, k, delta)   (resolved while running to ("query", i, k, bound+delta))
       | ("gen", i, thr) | ("get", i, key)
After every operation the complete public state of register i is recorded (lhh, key_lens,
lhh_count packed into one integer, n_added, n_records, candidate_set in insertion order,
n_added_sort, threshold_sort, and the result of hh[k] / query).  The same program is then
evaluated by the Coq model (HH.run_case) and must agree step by step.
The property predicates are evaluated on the implementation with independent bookkeeping:
a Counter of true multiplicities keyed by the first max_key_len bytes, cell ownership from a
probe sketch (never from the hash function).
"""
import itertools
import os
from collections import Counter

CAP = 2 ** 32 - 1
MASK60 = (1 << 60) - 1


# ----------------------------------------------------------------------------- helpers
def windows(key, n):
    """independent reference for the ngram window loop"""
    if len(key) <= n:
        return [key]
    return [key[i:i + n] for i in range(len(key) - n + 1)]


class Probe:
    """column owned by a (truncated) key in each row, observed on an empty probe sketch"""

    def __init__(self, HH):
        self.HH = HH
        self.cache = {}

    def cols(self, w, key):
        ck = (w, key)
        r = self.cache.get(ck)
        if r is None:
            p = self.HH(w, 4, max(1, len(key)))
            p.add(key)
            r = []
            for row in range(4):
                nz = [c for c in range(w) if int(p.lhh_count[row, c]) != 0]
                assert len(nz) == 1, "probe: one cell per row must move"
                r.append(nz[0])
            self.cache[ck] = r
        return r


def tab_code(hh, d, w, L):
    sh = 40 + 8 * L
    acc = 1
    lhh, kl, cnt = hh.lhh, hh.key_lens, hh.lhh_count
    for r in range(d):
        for c in range(w):
            code = int(cnt[r, c]) + ((int(kl[r, c]) + 256 * int.from_bytes(bytes(lhh[r, c]), "little")) << 32)
            acc = (acc << sh) + code
    return acc


def observe(hh, d, w, L, res):
    return dict(tab=tab_code(hh, d, w, L), n_added=int(hh.n_added_records[0]), n_records=int(hh.n_added_records[1]),
                cands=[(bytes(k), int(v)) for k, v in hh.candidate_set.items()],
                n_added_sort=int(hh.n_added_sort), thr_sort=int(hh.threshold_sort), res=res)


def default_thr(phi, n_added):
    """independent computation of np.uint32(phi * n_added) (binary64 product, truncation, C cast)"""
    return int(float(phi) * float(n_added)) % (2 ** 32)


# ----------------------------------------------------------------------------- generation
def make_alphabet(rng, L):
    k = bytes(rng.choice([rng.randrange(1, 256), rng.randrange(128, 256), rng.randrange(1, 128)])
              for _ in range(rng.choice([1, 1, 2, 3])))
    P = bytes(rng.randrange(256) for _ in range(L))
    hi = bytes(0x80 + rng.randrange(128) for _ in range(rng.randrange(1, 4)))
    alph = [b"", b"\0", b"\0\0", k, k + b"\0", k + b"\0\0", P, P + b"x", P + b"yz\0", hi,
            P[:-1] if L > 1 else b"q", b"\0" * L, b"\0" * (L + 1)]
    out = []
    for a in alph:
        if a not in out:
            out.append(a)
    return out


def gen_mult(rng, big_p):
    if rng.random() < big_p:
        return rng.choice([2 ** 32 - 2, 2 ** 32 - 1, 2 ** 32, 2 ** 32 + 1])
    return rng.choice([0, 1, 1, 1, 2, 2, 3, rng.randrange(3, 40), rng.randrange(3, 40)])


THRS = [None, None, 0, 1, 2, 5, CAP]
KS = [1, 2, 3, None, None]


def gen_program(rng, flavor, maxw=4, maxlen=25):
    w = rng.randrange(1, maxw + 1)
    d = rng.randrange(1, 5)
    L = rng.choice([1, 2, 3, 4, 4, 8, rng.randrange(1, 17)])
    phi = rng.choice([None, None, 0.3, 0.5, 1.0, 0.01, 0.125])
    nsk = rng.choice([1, 2, 2, 3, 4])
    alph = make_alphabet(rng, L)
    # a few keys get most of the traffic so that cells are contested and bounds are positive
    hot = [rng.choice(alph) for _ in range(3)]
    big_p = {"C03": 0.08, "C04": 0.02, "C13": 0.04}[flavor]
    n = rng.randrange(3, maxlen + 1)
    ops = []

    def key():
        return rng.choice(hot) if rng.random() < 0.55 else rng.choice(alph)

    wq = {"C03": 0.12, "C04": 0.14, "C13": 0.3}[flavor]
    for _ in range(n):
        i = rng.randrange(nsk)
        x = rng.random()
        if x < wq:
            y = rng.random()
            if flavor == "C04" and y < 0.5:
                ops.append(("queryb", i, rng.choice(KS), rng.choice([0, 0, 1, -1])))
            elif y < 0.85:
                ops.append(("query", i, rng.choice(KS), rng.choice(THRS)))
            elif y < 0.93:
                ops.append(("gen", i, rng.choice(THRS)))
            else:
                ops.append(("query", i, rng.choice([0, 4, 7]), rng.choice(THRS)))
            if flavor == "C13" and rng.random() < 0.5:      # immediate re-query: hit / miss paths
                k2, t2 = rng.choice(KS), rng.choice(THRS)
                prev = ops[-1]
                if rng.random() < 0.5 and prev[0] == "query":
                    t2 = prev[3]
                ops.append(("query", i, k2, t2))
            continue
        x = rng.random()
        if x < 0.55:
            ops.append(("add", i, key(), gen_mult(rng, big_p)))
        elif x < 0.60:
            ops.append(("updl", i, [key() for _ in range(rng.randrange(0, 4))]))
        elif x < 0.65:
            ks = []
            for _ in range(rng.randrange(0, 4)):
                kk = key()
                if kk not in ks:
                    ks.append(kk)
            ops.append(("updd", i, [(kk, gen_mult(rng, big_p)) for kk in ks]))
        elif x < 0.71:
            kk = key() + rng.choice([b"", b"ab", b"\0a\0"])
            ops.append(("ngram", i, kk, rng.choice([0, 1, 1, 2, 2, 3, len(kk), len(kk) + 1, L, L + 1])))
        elif x < 0.74:
            ops.append(("updn", i, [key() + b"z" for _ in range(rng.randrange(0, 3))], rng.choice([1, 2, 3])))
        elif x < 0.86 and nsk > 1:
            j = rng.randrange(nsk)
            ops.append(("merge", i, j))          # j == i (self merge) is legal
        elif x < 0.91:
            ops.append(("sl", i))
        else:
            ops.append(("get", i, rng.choice(alph)))
    # final sweep: hh[k] of every alphabet key and a query on every register
    for i in range(nsk):
        ops.append(("query", i, None, rng.choice([0, 1, None])))
    for a in alph[:6]:
        ops.append(("get", rng.randrange(nsk), a))
    return dict(w=w, d=d, L=L, phi=phi, nsk=nsk, alphabet=alph, ops=ops)


# ----------------------------------------------------------------------------- running on the implementation
class Fail(Exception):
    pass


def run_program(HH, probe, prog, tmpdir, preds=(), collect=True, silent=False):
    """Runs prog on the real implementation.  Returns (concrete_ops, trace, failure or None, stats).
    preds: subset of {"C03", "C04", "C13"} — property predicates evaluated after every operation."""
    import numpy as np  # noqa
    w, d, L, phi = prog["w"], prog["d"], prog["L"], prog["phi"]
    regs = [HH(w, d, L, phi) for _ in range(prog["nsk"])]
    truth = [Counter() for _ in range(prog["nsk"])]
    alph = prog["alphabet"]
    ops_out, trace = [], []
    hashed = set()          # truncated keys whose bucket the model needs
    stats = Counter()
    failure = None
    fileno = [0]

    def ident(k):
        return k[:L]

    def cols(x):
        return probe.cols(w, x)

    def row_mass(i, x):
        cm = [Counter() for _ in range(d)]
        for y, f in truth[i].items():
            cy = cols(y)
            for r in range(d):
                cm[r][cy[r]] += f
        cx = cols(x)
        return [cm[r][cx[r]] for r in range(d)]

    def all_bounds(i):
        """x -> max over the rows without saturation of 2f - W_r (independent bookkeeping)"""
        cm = [Counter() for _ in range(d)]
        for y, f in truth[i].items():
            cy = cols(y)
            for r in range(d):
                cm[r][cy[r]] += f
        out = {}
        for x, f in truth[i].items():
            cx = cols(x)
            bs = [2 * f - cm[r][cx[r]] for r in range(d) if cm[r][cx[r]] <= CAP]
            if bs:
                out[x] = max(bs)
        return out


    def fresh_copy(i):
        fileno[0] += 1
        fn = os.path.join(tmpdir, "fresh_%d.npz" % (fileno[0] % 4))
        regs[i].save(fn)
        return HH.load(fn)

    def add_truth(i, key, v):
        truth[i][ident(key)] += v
        hashed.add(ident(key))

    try:
        for op in prog["ops"]:
            kind, i = op[0], op[1]
            hh = regs[i]
            res = []
            qinfo = None
            if kind == "queryb":
                bs = list(all_bounds(i).values())
                thr = max(0, min(CAP, (max(bs) if bs else 0) + op[3]))
                op = ("query", i, op[2], thr)
                kind = "query"
            if kind == "add":
                hh.add(op[2], op[3])
                add_truth(i, op[2], op[3])
            elif kind == "updl":
                hh.update(list(op[2]))
                for k in op[2]:
                    add_truth(i, k, 1)
            elif kind == "updd":
                hh.update(dict(op[2]))
                for k, v in op[2]:
                    add_truth(i, k, v)
            elif kind == "ngram":
                hh.add_ngram(op[2], op[3])
                for wd in windows(op[2], op[3]):
                    add_truth(i, wd, 1)
            elif kind == "updn":
                hh.update_ngram(list(op[2]), op[3])
                for k in op[2]:
                    for wd in windows(k, op[3]):
                        add_truth(i, wd, 1)
            elif kind == "merge":
                other = regs[op[2]]
                tj = Counter(truth[op[2]])
                if sum(tj.values()) > 0 and sum(truth[i].values()) > 0:
                    stats["merge_nonempty"] += 1
                hh.merge(other)
                truth[i].update(tj)
            elif kind == "sl":
                fn = os.path.join(tmpdir, "sl.npz")
                hh.save(fn)
                regs[i] = hh = HH.load(fn)
            elif kind == "query":
                n_before = int(hh.n_added_records[0])
                stale = (int(hh.n_added_sort) < n_before)
                ts_before = int(hh.threshold_sort)
                ans = hh.query(op[2], op[3])
                ans = [(bytes(k), int(v)) for k, v in ans]
                res = [z for k, v in ans for z in [len(k), v] + list(k)]
                qinfo = (ans, stale)
            elif kind == "gen":
                hh.generate_candidate_set(op[2])
            elif kind == "get":
                v = int(hh[op[2]])
                hashed.add(ident(op[2]))
                res = [v]
            else:
                raise ValueError(kind)
            stats[kind] += 1
            ops_out.append(op)
            if collect:
                trace.append(observe(hh, d, w, L, res))
            if silent:
                continue      # nothing is read off the sketch between the operations (observe() reads attributes only)

            # ------------------------------------------------ property predicates (independent bookkeeping)
            T = truth[i]
            keys_here = list(dict.fromkeys([ident(a) for a in alph] + list(T)))
            hv = {x: int(hh[x]) for x in keys_here}
            if "C03" in preds:
                for a in alph:                       # as passed, incl. keys longer than max_key_len
                    if int(hh[a]) > T[ident(a)]:
                        raise Fail("C03: hh[%r] = %d > true count %d" % (a, int(hh[a]), T[ident(a)]))
                if qinfo:
                    for k, n in qinfo[0]:
                        if not (0 < n <= T[k]) or len(k) > L:
                            raise Fail("C03: query reports (%r, %d) but the true count is %d" % (k, n, T[k]))
            bnds = {}
            if "C04" in preds:
                N = sum(T.values())
                ab = all_bounds(i)
                for x, f in T.items():
                    if f <= 0:
                        continue
                    b = ab.get(x)
                    if b is not None and b > 0:
                        bnds[x] = b
                        stats["c04_positive_bound"] += 1
                        if hv[x] < b:
                            raise Fail("C04: hh[%r] = %d < max_r(2f - W_r) = %d (f=%d, W=%r)"
                                       % (x, hv[x], b, f, row_mass(i, x)))
                if qinfo:
                    ans = qinfo[0]
                    thr_eff = op[3] if op[3] is not None else default_thr(hh.phi, hh.n_added_records[0])
                    d_ans = dict(ans)
                    for x, b in bnds.items():
                        if b >= max(thr_eff, 1):
                            larger = sum(1 for y in hv if y != x and hv[y] >= hv[x] and hv[y] >= max(thr_eff, 1))
                            if op[2] is None or larger < op[2]:
                                stats["c04_query_membership"] += 1
                                if x not in d_ans or d_ans[x] < b:
                                    raise Fail("C04: key %r with bound %d >= threshold %d missing from query(%r, %r) = %r"
                                               % (x, b, thr_eff, op[2], op[3], ans))
                    for x, f in T.items():
                        if 2 * f > N and N <= CAP and thr_eff <= 2 * f - N and (op[2] is None or op[2] >= 1):
                            stats["c04_majority"] += 1
                            if not ans or ans[0][0] != x or ans[0][1] < 2 * f - N:
                                raise Fail("C04: majority key %r (f=%d of N=%d) is not reported first with count >= %d: %r"
                                           % (x, f, N, 2 * f - N, ans))
            if "C13" in preds and qinfo:
                ans, stale = qinfo
                k, thr = op[2], op[3]
                thr_eff = thr if thr is not None else default_thr(hh.phi, hh.n_added_records[0])
                stats["c13_miss_path" if (stale or ts_before != thr_eff) else "c13_hit_path"] += 1
                if int(hh.threshold_sort) != thr_eff:
                    raise Fail("C13: threshold_sort = %d, expected %d" % (int(hh.threshold_sort), thr_eff))
                cnts = [n for _, n in ans]
                if any(a < b for a, b in zip(cnts, cnts[1:])):
                    raise Fail("C13: answer not in non-increasing order: %r" % (ans,))
                if len({x for x, _ in ans}) != len(ans):
                    raise Fail("C13: duplicate keys: %r" % (ans,))
                if k is not None and len(ans) > max(k, 0):
                    raise Fail("C13: more than k answers: %r" % (ans,))
                for x, n in ans:
                    if n != int(hh[x]) or n < thr_eff or n <= 0:
                        raise Fail("C13: (%r, %d): hh[key] = %d, threshold %d" % (x, n, int(hh[x]), thr_eff))
                fc = fresh_copy(i)
                full = [(bytes(a), int(b)) for a, b in fc.query(None, thr)]
                if k is not None and ans != full[:max(k, 0)] or k is None and ans != full:
                    raise Fail("C13: query(%r, %r) = %r is not the first k of the unbounded answer of a freshly "
                               "loaded copy %r" % (k, thr, ans, full))
                if list(fc.candidate_set.items()) != list(hh.candidate_set.items()):
                    raise Fail("C13: candidate_set differs from that of a freshly loaded copy")
                fk = {x for x, _ in full}
                for x, f in T.items():
                    if f > 0 and hv[x] >= max(thr_eff, 1) and x not in fk:
                        raise Fail("C13: added key %r with hh[key] = %d >= threshold %d missing from %r"
                                   % (x, hv[x], thr_eff, full))
                fc2 = fresh_copy(i)
                again = [(bytes(a), int(b)) for a, b in fc2.query(k, thr)]
                if again != ans:
                    raise Fail("C13: stale answer: query(%r, %r) = %r, freshly loaded copy answers %r" % (k, thr, ans, again))
    except Fail as e:
        failure = str(e)
    hashed |= {k for k, _ in sum((o["cands"] for o in trace), [])}
    return ops_out, trace, failure, dict(stats=stats, hashed=sorted(hashed), phi=float(regs[0].phi),
                                         truth=[dict(t) for t in truth])


def shrink(HH, probe, prog, tmpdir, preds):
    """drop operations one at a time while some predicate still fails"""
    ops_c, _, failure, _ = run_program(HH, probe, prog, tmpdir, preds, collect=False)
    cur = dict(prog, ops=list(ops_c))
    changed = True
    rounds = 0
    while changed and rounds < 4:
        changed = False
        rounds += 1
        idx = len(cur["ops"]) - 1
        while idx >= 0:
            cand = dict(cur, ops=cur["ops"][:idx] + cur["ops"][idx + 1:])
            try:
                _, _, f2, _ = run_program(HH, probe, cand, tmpdir, preds, collect=False)
            except Exception:  # noqa
                f2 = None
            if f2:
                cur, failure, changed = cand, f2, True
            idx -= 1
    return cur, failure


# ----------------------------------------------------------------------------- Coq terms
def cq_key(b):
    return "[" + ";".join(str(x) for x in b) + "]"


def cq_opt(x):
    return "None" if x is None else "(Some %d)" % x


def cq_limbs(n):
    out = []
    while n:
        out.append(n & MASK60)
        n >>= 60
    return "[" + ";".join(str(x) for x in out) + "]"


def cq_op(op):
    k = op[0]
    if k == "add":
        return "OAdd %d %s %d" % (op[1], cq_key(op[2]), op[3])
    if k == "updl":
        return "OUpdList %d [%s]" % (op[1], ";".join(cq_key(x) for x in op[2]))
    if k == "updd":
        return "OUpdDict %d [%s]" % (op[1], ";".join("(%s,%d)" % (cq_key(x), v) for x, v in op[2]))
    if k == "ngram":
        return "ONgram %d %s %d" % (op[1], cq_key(op[2]), op[3])
    if k == "updn":
        return "OUpdNgram %d [%s] %d" % (op[1], ";".join(cq_key(x) for x in op[2]), op[3])
    if k == "merge":
        return "OMerge %d %d" % (op[1], op[2])
    if k == "sl":
        return "OSaveLoad %d" % op[1]
    if k == "query":
        return "OQuery %d %s %s" % (op[1], cq_opt(op[2]), cq_opt(op[3]))
    if k == "gen":
        return "OGen %d %s" % (op[1], cq_opt(op[2]))
    if k == "get":
        return "OGet %d %s" % (op[1], cq_key(op[2]))
    raise ValueError(k)


def cq_ints(xs):
    return "[" + ";".join(str(int(x)) for x in xs) + "]"


def cq_case(prog, ops, trace, info, probe):
    w, d, L = prog["w"], prog["d"], prog["L"]
    bm = ";".join("(%s,%s)" % (cq_key(k), cq_ints(probe.cols(w, k)[:d])) for k in info["hashed"])
    steps = []
    for op, o in zip(ops, trace):
        cs = [z for k, v in o["cands"] for z in [len(k), v] + list(k)]
        steps.append("mkobs (%s) %s %d %d %s %d %d %s" % (cq_op(op), cq_limbs(o["tab"]), o["n_added"], o["n_records"],
                                                        cq_ints(cs), o["n_added_sort"], o["thr_sort"], cq_ints(o["res"])))
    return "(mkcase %d %d %d (%s)%%float [%s] [%s])%%uint63" % (w, d, L, float(info["phi"]).hex(), bm, ";\n ".join(steps))


COQ_IMPORTS = "Machine Harness HH"
COQ_CHECK = "check_case_strict"   # check_case and: every observed column is below width (HH.cols_ok)
COQ_PRELUDE = "From Coq Require Import Uint63."


def jsonable(prog, ops=None):
    def enc(o):
        if isinstance(o, bytes):
            return {"bytes": list(o)}
        if isinstance(o, (list, tuple)):
            return [enc(x) for x in o]
        return o
    return dict(w=prog["w"], d=prog["d"], L=prog["L"], phi=prog["phi"], nsk=prog["nsk"],
                alphabet=enc(prog["alphabet"]), ops=enc(ops if ops is not None else prog["ops"]))


def from_json(j):
    def dec(o):
        if isinstance(o, dict) and "bytes" in o:
            return bytes(o["bytes"])
        if isinstance(o, list):
            return [dec(x) for x in o]
        return o

    def op(o):
        o = dec(o)
        if o[0] == "updd":
            o[2] = [tuple(p) for p in o[2]]
        return tuple(o)
    return dict(w=j["w"], d=j["d"], L=j["L"], phi=j["phi"], nsk=j["nsk"], alphabet=dec(j["alphabet"]),
                ops=[op(o) for o in j["ops"]])


# ----------------------------------------------------------------------------- corpus (always first)
def corpus():
    A = lambda L: [b"", b"\0", b"\0\0", b"a", b"a\0", b"a\0\0", b"x", b"abcdefgh"][:8]  # noqa
    progs = []
    # F1 witnesses (fixed by a01b775): NUL padded aliases and the all-NUL key
    progs.append(dict(w=1, d=1, L=4, phi=None, nsk=1, alphabet=A(4),
                      ops=[("add", 0, b"a\0", 5), ("add", 0, b"a", 3), ("query", 0, 10, 0), ("get", 0, b"a"),
                           ("get", 0, b"a\0")]))
    progs.append(dict(w=1, d=1, L=4, phi=None, nsk=1, alphabet=A(4),
                      ops=[("add", 0, b"\0\0", 97), ("add", 0, b"x", 3), ("query", 0, 10, 0), ("query", 0, 1, None),
                           ("get", 0, b""), ("get", 0, b"\0\0")]))
    # F1b witness (fixed by 28a3dec)
    progs.append(dict(w=4, d=2, L=4, phi=None, nsk=1, alphabet=A(4),
                      ops=[("add", 0, b"abcdefgh", 2), ("get", 0, b"abcdefgh"), ("get", 0, b"abcd"), ("get", 0, b"abcdXY")]))
    # saturation, default threshold wrapping past 2^32, cache hit/miss
    progs.append(dict(w=1, d=2, L=2, phi=1.0, nsk=2, alphabet=A(2),
                      ops=[("add", 0, b"a", 2 ** 32 + 1), ("query", 0, None, None), ("add", 0, b"a", 6),
                           ("query", 0, None, None), ("query", 0, 1, None), ("add", 1, b"a\0", CAP - 1), ("add", 1, b"a\0", 1),
                           ("add", 1, b"a\0", 1), ("merge", 0, 1), ("query", 0, 2, 0), ("merge", 1, 1), ("query", 1, None, 1),
                           ("add", 0, b"b", 0), ("query", 0, 2, 0), ("merge", 0, 0), ("sl", 0), ("query", 0, None, None)]))
    # merge with an empty sketch and add with multiplicity 0 must not make the cache stale
    progs.append(dict(w=2, d=2, L=3, phi=0.5, nsk=3, alphabet=A(3),
                      ops=[("add", 0, b"a", 3), ("add", 0, b"x", 2), ("query", 0, None, 0), ("merge", 0, 1), ("query", 0, None, 0),
                           ("add", 0, b"q", 0), ("query", 0, 1, 0), ("add", 2, b"zz", 0), ("merge", 0, 2), ("query", 0, 3, 0),
                           ("query", 0, 3, 1), ("query", 0, 3, 1), ("gen", 0, None), ("query", 0, None, None), ("sl", 0),
                           ("query", 0, None, None), ("ngram", 0, b"abcabc", 2), ("query", 0, 2, None), ("updn", 0, [b"abc", b"a"], 0)]))
    return progs


# ----------------------------------------------------------------------------- exhaustive sub-spaces
def exhaustive_alias(maxlen=5):
    """every sequence of length <= maxlen over a 4-key alias alphabet, width 1 depth 1 (C03)"""
    alph = [b"a", b"a\0", b"", b"\0"]
    wts = [3, 2, 2, 1, 1, 2, 1, 1]
    for n in range(1, maxlen + 1):
        for seq in itertools.product(range(4), repeat=n):
            ops = [("add", 0, alph[s], wts[p]) for p, s in enumerate(seq)]
            ops += [("query", 0, None, 0)]
            yield dict(w=1, d=1, L=2, phi=None, nsk=1, alphabet=alph, ops=ops)


def exhaustive_orderings(items, partitions=True):
    """all orderings of a weighted multiset in a width-1 sketch, and every 2-way partition of every
    ordering merged in both directions (C04)"""
    alph = sorted({k for k, _ in items})
    seen = set()
    for perm in itertools.permutations(items):
        if perm in seen:
            continue
        seen.add(perm)
        ops = [("add", 0, k, v) for k, v in perm] + [("query", 0, None, 0), ("query", 0, 1, 0)]
        yield dict(w=1, d=2, L=3, phi=None, nsk=1, alphabet=alph, ops=ops)
        if partitions:
            for mask in range(1, 2 ** len(perm) - 1):
                ops = [("add", (mask >> p) & 1, k, v) for p, (k, v) in enumerate(perm)]
                yield dict(w=1, d=2, L=3, phi=None, nsk=2, alphabet=alph,
                           ops=ops + [("merge", 0, 1), ("query", 0, None, 0), ("query", 0, 1, 0)])
                yield dict(w=1, d=2, L=3, phi=None, nsk=2, alphabet=alph,
                           ops=ops + [("merge", 1, 0), ("query", 1, None, 0), ("query", 1, 1, 0)])


# ----------------------------------------------------------------------------- the suite
def nontrivial(prog, ops, info, probe):
    """at least one of: two added keys share a cell in some row of one sketch; a key and its NUL-suffixed alias were
    both added to one sketch; two non-empty sketches were merged; a cell's mass reached 2^32 - 2"""
    w, d, L = prog["w"], prog["d"], prog["L"]
    for t in info["truth"]:
        pos = [x for x, f in t.items() if f > 0]
        for x in pos:
            if len(x) < L and t.get(x + b"\0", 0) > 0:
                return True
        for r in range(d):
            seen = Counter()
            for x in pos:
                seen[probe.cols(w, x)[r]] += t[x]
            if any(v >= CAP - 1 for v in seen.values()) or len(seen) < len(pos):
                return True
    return info["stats"].get("merge_nonempty", 0) > 0


def run_suite(ctx, flavor, n_random, n_coq, extra_programs=(), extra_coq_every=1, shard=150):
    """common driver.  extra_programs: iterable of (program, send_to_coq: bool) evaluated before the random ones."""
    ctx.impl()
    from sketchnu.heavyhitters import HeavyHitters as HH
    probe = Probe(HH)
    tmpdir = os.path.join(ctx.dir, "files")
    os.makedirs(tmpdir, exist_ok=True)
    preds = {"C03": ("C03",), "C04": ("C04", "C03"), "C13": ("C13", "C03")}[flavor]
    coq_cases, coq_meta = [], []
    nviol = 0

    def handle(prog, to_coq, tag):
        nonlocal nviol
        try:
            ops, trace, failure, info = run_program(HH, probe, prog, tmpdir, preds)
        except Exception as e:  # an exception is an observable disagreement with the model, which has none
            ctx.violation({"program": jsonable(prog), "error": repr(e)}, "%s: the implementation raised %r" % (tag, e))
            nviol += 1
            return
        ctx.case_seen((prog["w"], prog["d"], prog["L"], prog["phi"], tuple(ops)), nontrivial(prog, ops, info, probe))
        for k, v in info["stats"].items():
            ctx.count(k, v)
        ctx.count("width=%d" % prog["w"])
        ctx.count("len<=8" if len(ops) <= 8 else "len<=20" if len(ops) <= 20 else "len>20")
        if failure:
            nviol += 1
            if nviol <= 3:
                small, f2 = shrink(HH, probe, prog, tmpdir, preds)
                o2, t2, _, i2 = run_program(HH, probe, small, tmpdir, ())
                ctx.violation({"program": jsonable(small, o2), "original_program": jsonable(prog, ops),
                               "impl_trace_last": {k: (str(v) if k == "tab" else v) for k, v in (t2[-1] if t2 else {}).items()},
                               "truth": [{repr(k): v for k, v in t.items()} for t in i2["truth"]]},
                              f2 or failure)
            return
        # The same program once more with NOTHING read between its operations (the pass above evaluates hh[key] for every
        # key after every operation): a history is a history whether or not somebody looked in between, so tables,
        # counters, cache and every answer of the program's own query/get operations must be the same.
        try:
            ops_s, trace_s, _, _ = run_program(HH, probe, prog, tmpdir, (), silent=True)
        except Exception as e:
            ops_s, trace_s = ops, [{"raised": repr(e)}]
        if trace_s != trace:
            nviol += 1
            if nviol <= 3:
                at = next((n for n, (a, b) in enumerate(zip(trace, trace_s)) if a != b), min(len(trace), len(trace_s)))
                ctx.violation({"program": jsonable(prog, ops), "first_differing_operation": at,
                               "mode": "operations applied back to back, nothing read between them",
                               "with_reads_between": {k: str(v) for k, v in (trace[at] if at < len(trace) else {}).items()},
                               "without": {k: str(v) for k, v in (trace_s[at] if at < len(trace_s) else {}).items()}},
                              "%s: tables / counters / answers after the same operations differ when hh[key] is not read "
                              "between them (hidden state: this is not the state of this history)" % flavor)
            return
        if to_coq:
            coq_cases.append(cq_case(prog, ops, trace, info, probe))
            coq_meta.append((prog, ops, trace, info))
        ctx.cov["traces_validated_against_impl"] += 1

    if getattr(ctx, "replay_file", None):
        import json
        j = json.load(open(ctx.replay_file))
        handle(from_json(j["program"]), True, "replay")
    else:
        for p in corpus():
            handle(p, True, "corpus")
        for n, (p, to_coq) in enumerate(extra_programs):
            handle(p, to_coq, "exhaustive")
        ctx.tick("corpus + enumerated sub-space on the implementation")
        for n in range(n_random):
            handle(gen_program(ctx.rng, flavor), n < n_coq, "random")
        ctx.tick("random programs on the implementation")
    if coq_meta:
        ctx.sample({"program": jsonable(coq_meta[0][0], coq_meta[0][1])})
        ctx.sample({"program": jsonable(coq_meta[-1][0], coq_meta[-1][1])})

    bad, err = ctx.coq_bad_cases("hh", COQ_IMPORTS, COQ_CHECK, coq_cases, shard=shard, prelude=COQ_PRELUDE)
    ctx.cov["model_cases_evaluated_in_coq"] = len(coq_cases)
    if err:
        ctx.broken.append("correspondence hh could not be evaluated: " + err)
    for b in sorted(bad)[:2]:
        prog, ops, trace, info = coq_meta[b]
        idx = ctx.coq_show("step%d" % b, COQ_IMPORTS, "run_case %s" % coq_cases[b], prelude=COQ_PRELUDE)
        import re
        m = re.search(r"=\s*(-?\d+)", idx)
        step = int(m.group(1)) if m else -1
        shown = ctx.coq_show("mismatch%d" % b, COQ_IMPORTS, "show_case %s %d" % (coq_cases[b], step), prelude=COQ_PRELUDE)
        o = trace[step] if 0 <= step < len(trace) else {}
        ctx.broken.append("correspondence hh: model and implementation differ on %d programs; first at operation %d %r of "
                          "%r: impl=%r model=%s" % (len(bad), step, ops[step] if 0 <= step < len(ops) else None,
                                                    jsonable(prog, ops), {k: str(v) for k, v in o.items()},
                                                    " ".join(shown.split())[:600]))
    ctx.tick("model evaluated in Coq")
    return nviol
