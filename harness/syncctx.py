"""syncctx.py — a synchronous stand-in for multiprocessing's spawn context (TEST SIDE ONLY).

Installed by replacing the name `get_context` in the namespace of `sketchnu.helpers`
(nothing in /repo is changed).  `Process.start()` runs the target in the calling thread,
`Queue` is a deque.  Shared-memory sketches stay real: they are created with
shared_memory=True by the caller and attached by name inside the targets.

What this double assumes of CPython's multiprocessing (DESIGN.md section 4):
  * Queue.put on a closed queue raises ValueError("Queue ... is closed");
  * a process whose target returns has exitcode 0, one whose target raises has exitcode 1,
    one that is killed has a negative exitcode;
  * join()/kill() return.
Every context keeps a complete event list (process starts with target name and arguments,
every put on every queue, closes, kills, joins) which is how the harness observes the order
in which the real code starts mergers and what it logs.

Several contexts can be live at once, one per thread (`use(ctx)`), so that the 0.25 s sleeps
in the sketches' __del__ overlap across test cases.
"""
import collections
import threading
import traceback

_tls = threading.local()
_install_lock = threading.Lock()


class WouldBlock(BaseException):
    """get() on an empty queue: in a synchronous world that is a deadlock, not a wait."""


class Die(BaseException):
    """Raised by a test callback to stand for the death of the process running it
    (BaseException: not caught by `except Exception` in the worker loop)."""

    def __init__(self, code=3):
        super().__init__(code)
        self.code = code


class Queue:
    def __init__(self, ctx, maxsize=0, name="q"):
        self.ctx = ctx
        self.name = name
        self.maxsize = maxsize
        self._d = collections.deque()
        self._closed = False
        self.n_put = 0

    def __repr__(self):
        return f"<syncctx.Queue {self.name}>"

    def put(self, obj, block=True, timeout=None):
        if self._closed:
            self.ctx.events.append(("put-on-closed", self.name, obj))
            raise ValueError(f"Queue {self!r} is closed")
        self.n_put += 1
        self.ctx.events.append(("put", self.name, obj))
        self._d.append(obj)

    def get(self, block=True, timeout=None):
        if not self._d:
            raise WouldBlock(self.name)
        return self._d.popleft()

    def close(self):
        self._closed = True
        self.ctx.events.append(("close", self.name))

    def empty(self):
        return not self._d

    def qsize(self):
        return len(self._d)

    def join_thread(self):
        pass

    def cancel_join_thread(self):
        pass

    def drain(self):
        out = list(self._d)
        self._d.clear()
        return out


class SteeredQueue(Queue):
    """The work queue of a whole in-process parallel_add: whatever the producer puts is kept
    by position; a get() issued from inside worker w (the running _worker whose first argument
    is w) is served plan[w]'s next position, then one pill.  This is the harness choosing the
    schedule that the OS would otherwise choose; every item still goes to exactly one worker."""

    def __init__(self, ctx, plan, maxsize=0, name="work"):
        super().__init__(ctx, maxsize, name)
        self.plan = [list(p) for p in plan]
        self.items = []
        self.pills = 0
        self.cursor = [0] * len(self.plan)
        self.pill_taken = [False] * len(self.plan)
        self.served = []

    def put(self, obj, block=True, timeout=None):
        if self._closed:
            self.ctx.events.append(("put-on-closed", self.name, obj))
            raise ValueError(f"Queue {self!r} is closed")
        self.n_put += 1
        self.ctx.events.append(("put", self.name, obj))
        if obj is None:
            self.pills += 1
        else:
            self.items.append(obj)

    def get(self, block=True, timeout=None):
        w = self.ctx.current_worker()
        if w is None or w >= len(self.plan):
            raise WouldBlock(self.name)
        c = self.cursor[w]
        if c < len(self.plan[w]):
            pos = self.plan[w][c]
            if pos >= len(self.items):
                raise WouldBlock(self.name)
            self.cursor[w] = c + 1
            self.served.append((w, pos))
            return self.items[pos]
        if self.pill_taken[w] or self.pills <= 0:
            raise WouldBlock(self.name)
        self.pill_taken[w] = True
        self.pills -= 1
        return None


class Process:
    _next_pid = [100000]

    def __init__(self, ctx, group=None, target=None, name=None, args=(), kwargs=None, daemon=None):
        self.ctx = ctx
        self.target = target
        self.args = tuple(args)
        self.kwargs = dict(kwargs or {})
        self.name = name or getattr(target, "__name__", "process")
        self.exitcode = None
        self.started = False
        self.deferred = False
        self.killed = False
        self.error = None
        Process._next_pid[0] += 1
        self.pid = Process._next_pid[0]

    def _run(self):
        stack = self.ctx._stack()
        stack.append(self)
        try:
            self.target(*self.args, **self.kwargs)
            self.exitcode = 0
        except WouldBlock:
            # a consumer that found its queue empty: run it again (from the start) when joined
            self.deferred = True
        except Die as d:
            self.exitcode = d.code
            self.error = "died with code %r" % (d.code,)
        except SystemExit as e:
            self.exitcode = e.code if isinstance(e.code, int) else (0 if e.code is None else 1)
        except BaseException as e:  # noqa: an uncaught exception ends a real child with code 1
            self.exitcode = 1
            self.error = "".join(traceback.format_exception_only(type(e), e)).strip()
        finally:
            stack.pop()

    def start(self):
        self.started = True
        self.ctx.events.append(("start", getattr(self.target, "__name__", "?"), self.args))
        self.ctx.processes.append(self)
        self._run()

    def join(self, timeout=None):
        self.ctx.events.append(("join", getattr(self.target, "__name__", "?")))
        if self.deferred and not self.killed and self.exitcode is None:
            self.deferred = False
            self._run()

    def kill(self):
        self.ctx.events.append(("kill", getattr(self.target, "__name__", "?")))
        self.killed = True
        if self.exitcode is None:
            self.exitcode = -9

    terminate = kill

    def is_alive(self):
        return self.started and self.exitcode is None

    def close(self):
        pass


class Context:
    """One per test case.  `plan` (optional): schedule for a SteeredQueue, used as the FIRST
    queue created (parallel_add creates the work queue first, then the log queue)."""

    def __init__(self, plan=None):
        self.events = []
        self.processes = []
        self.queues = []
        self.plan = plan
        self._stacks = {}

    def _stack(self):
        return self._stacks.setdefault(threading.get_ident(), [])

    def current_worker(self):
        for p in reversed(self._stack()):
            if getattr(p.target, "__name__", "") == "_worker":
                return p.args[0]
        return None

    def Queue(self, maxsize=0):
        if self.plan is not None and not self.queues:
            q = SteeredQueue(self, self.plan, maxsize, name="work")
        else:
            q = Queue(self, maxsize, name="q%d" % len(self.queues))
        self.queues.append(q)
        return q

    def Process(self, group=None, target=None, name=None, args=(), kwargs=None, daemon=None):
        return Process(self, group, target, name, args, kwargs, daemon)

    # what the harness reads back
    def starts(self, target_name):
        return [e[2] for e in self.events if e[0] == "start" and e[1] == target_name]


def get_context(method=None):
    ctx = getattr(_tls, "ctx", None)
    if ctx is None:
        raise RuntimeError("syncctx.get_context called outside syncctx.use(ctx)")
    return ctx


class use:
    """with syncctx.use(ctx): ... — makes ctx the context of the calling thread."""

    def __init__(self, ctx):
        self.ctx = ctx

    def __enter__(self):
        self.prev = getattr(_tls, "ctx", None)
        _tls.ctx = self.ctx
        return self.ctx

    def __exit__(self, *a):
        _tls.ctx = self.prev
        return False


_originals = {}


def install(helpers_module):
    """helpers.get_context := syncctx.get_context (the only thing that is replaced)."""
    with _install_lock:
        if helpers_module not in _originals:
            _originals[helpers_module] = helpers_module.get_context
            helpers_module.get_context = get_context


def uninstall(helpers_module):
    with _install_lock:
        if helpers_module in _originals:
            helpers_module.get_context = _originals.pop(helpers_module)
