"""persist_common.py — helpers shared by checks/C10.py and checks/C15.py:
public-state snapshots of the five sketch classes, Coq terms for Persist.v's `sketch` / `file`,
random histories.  numpy / sketchnu are imported by the caller (ctx.impl()) before use."""
import struct

ALPHABET = [b"", b"\x00", b"\x00\x00", b"a", b"a\x00", b"ab", b"abc", b"abcd", b"\xff", b"\x80\x81",
            b"0123456789abcdefXYZ", b"\x00a", b"zz\xfe"]
DT = {"uint8": "U8", "uint16": "U16", "uint32": "U32", "uint64": "U64", "int64": "I64", "float64": "F64"}
EXN = {"TypeError": "TypeError", "ValueError": "ValueError", "KeyError": "KeyError",
       "IndexError": "IndexError", "AttributeError": "AttributeError"}
KLASS = {"CountMinLinear": "KLinear", "CountMinLog16": "KLog16", "CountMinLog8": "KLog8",
         "HyperLogLog": "KHll", "HeavyHitters": "KHH"}
PARAMS = ("width", "depth", "max_count", "num_reserved", "uint_maxval", "base", "p", "seed", "m", "alpha",
          "max_key_len", "phi")
ARRAYS = ("cms", "n_added_records", "registers", "lhh", "lhh_count", "key_lens")


def f64bits(x):
    return struct.unpack("<Q", struct.pack("<d", float(x)))[0]


def zl(xs):
    return "[" + ";".join(str(int(x)) for x in xs) + "]"


def scalar(v):
    """canonical (type name, exact value) of a numpy / python scalar; floats by bit pattern"""
    import numpy as np
    if isinstance(v, (float, np.floating)):
        return ("f", f64bits(v))
    return ("i", int(v))


def state(o):
    """complete public state of a sketch: class, every public parameter, every array (dtype, shape, bytes)"""
    st = {"class": type(o).__name__}
    for k in PARAMS:
        if hasattr(o, k):
            st[k] = scalar(getattr(o, k))
    if hasattr(o, "uint_maxval"):
        st["uint_maxval_dtype"] = str(getattr(o, "uint_maxval").dtype)
    for k in ARRAYS:
        if hasattr(o, k):
            a = getattr(o, k)
            st[k] = (str(a.dtype), tuple(int(x) for x in a.shape), a.tobytes())
    for k in ("n_added", "n_records"):
        if hasattr(o, k):
            st[k + "()"] = int(getattr(o, k)())
    return st


def state_diff(a, b):
    return [k for k in sorted(set(a) | set(b)) if a.get(k) != b.get(k)]


def state_json(st):
    out = {}
    for k, v in st.items():
        if isinstance(v, tuple) and len(v) == 3 and isinstance(v[2], bytes):
            out[k] = {"dtype": v[0], "shape": list(v[1]), "hex": v[2].hex()[:400]}
        else:
            out[k] = v
    return out


def queries(o, keys):
    """every query the class offers, on a fixed key list"""
    name = type(o).__name__
    if name == "HyperLogLog":
        return [("query", f64bits(o.query()))]
    if name == "HeavyHitters":
        return [("query10", [(bytes(k), int(c)) for k, c in o.query(10)])] + \
               [("getitem", k, int(o[k])) for k in keys] + [("n", int(o.n_added()), int(o.n_records()))]
    out = []
    for k in keys:
        q = o.query(k)
        g = o[k]
        out.append(("q", k, scalar(q), scalar(g)))
    out.append(("n", int(o.n_added()), int(o.n_records())))
    return out


# ------------------------------------------------------------------ Coq terms
def coq_sketch(o):
    name = type(o).__name__
    if name == "CountMinLinear":
        return "(SLin %d %d %s %d %d)" % (int(o.width), int(o.depth), zl(o.cms.ravel()),
                                          int(o.n_added_records[0]), int(o.n_added_records[1]))
    if name in ("CountMinLog16", "CountMinLog8"):
        return "(SLog %s %d %d %d %d %s %d %d)" % (
            "L16" if name == "CountMinLog16" else "L8", int(o.width), int(o.depth), int(o.max_count),
            int(o.num_reserved), zl(o.cms.ravel()), int(o.n_added_records[0]), int(o.n_added_records[1]))
    if name == "HyperLogLog":
        return "(SHll %d %d %s)" % (int(o.p), int(o.seed), zl(o.registers))
    if name == "HeavyHitters":
        return "(SHH %d %d %d %d %s %s %s %d %d)" % (
            int(o.width), int(o.depth), int(o.max_key_len), f64bits(o.phi), zl(o.lhh.ravel()),
            zl(o.lhh_count.ravel()), zl(o.key_lens.ravel()), int(o.n_added_records[0]),
            int(o.n_added_records[1]))
    raise ValueError(name)


def coq_arr(a):
    import numpy as np
    a = np.asarray(a)
    dt = DT[str(a.dtype)]
    flat = np.ascontiguousarray(a).ravel()
    if dt == "F64":
        flat = flat.view(np.uint64)
    vals = [int(x) for x in flat]
    data = "[" + ";".join(str(v) if v >= 0 else "(%d)" % v for v in vals) + "]"
    return '(mk_arr %s %s %s)' % (dt, zl(a.shape), data)


def coq_file_of_members(members):
    """members: list of (name, ndarray) in archive order"""
    return "[" + "; ".join('("%s", %s)' % (n, coq_arr(a)) for n, a in members) + "]"


def read_members(path):
    import numpy as np
    with np.load(path) as z:
        return [(n, z[n]) for n in z.files]


def coq_oks(oks):
    return "[" + ";".join("(%d,%d,%d)" % t for t in sorted(oks)) + "]"


# ------------------------------------------------------------------ histories
def gen_ops(rng, cls, n, max_value=None):
    """random operations (JSON-able) for a sketch of class name cls"""
    ops = []
    for _ in range(n):
        r = rng.random()
        k = rng.choice(ALPHABET) if rng.random() < 0.85 else bytes(rng.getrandbits(8) for _ in range(rng.randrange(0, 6)))
        if r < 0.55:
            if cls == "HyperLogLog":
                ops.append(["add", list(k), 1])
            else:
                vals = [1, 1, 1, 2, 3, 7, 40]
                if cls in ("CountMinLinear", "HeavyHitters"):
                    vals += [0, 2**32 - 2, 2**32 - 1, 2**32, 2**40]
                v = rng.choice(vals)
                if max_value is not None:
                    v = min(v, max_value)
                ops.append(["add", list(k), v])
        elif r < 0.8:
            ks = [rng.choice(ALPHABET) for _ in range(rng.randrange(0, 6))]
            ops.append(["update", [list(x) for x in ks]])
        elif r < 0.9:
            ks = {}
            for _ in range(rng.randrange(0, 4)):
                ks[rng.choice(ALPHABET)] = rng.choice([1, 2, 5])
            ops.append(["update_dict", [[list(x), v] for x, v in ks.items()]])
        else:
            ops.append(["add_ngram", list(k), rng.choice([1, 2, 3])])
    return ops


def apply_ops(o, ops):
    for op in ops:
        if op[0] == "add":
            o.add(bytes(op[1]), op[2])
        elif op[0] == "update":
            o.update([bytes(x) for x in op[1]])
        elif op[0] == "update_dict":
            o.update({bytes(x): v for x, v in op[1]})
        elif op[0] == "add_ngram":
            o.add_ngram(bytes(op[1]), op[2])
        elif op[0] == "set_n":          # bookkeeping counters as parallel_add / long streams leave them
            o.n_added_records[0] = op[1]
            o.n_added_records[1] = op[2]
        else:
            raise ValueError(op)


def construct(sk, cls, params, shared_memory=False):
    """params: dict of constructor keyword arguments"""
    from sketchnu import countmin, hyperloglog, heavyhitters
    c = {"CountMinLinear": countmin.CountMinLinear, "CountMinLog16": countmin.CountMinLog16,
         "CountMinLog8": countmin.CountMinLog8, "HyperLogLog": hyperloglog.HyperLogLog,
         "HeavyHitters": heavyhitters.HeavyHitters}[cls]
    return c(shared_memory=shared_memory, **params)


def loaders():
    from sketchnu import countmin, hyperloglog, heavyhitters
    return [("CountMinLinear", countmin.CountMinLinear.load), ("CountMinLog16", countmin.CountMinLog16.load),
            ("CountMinLog8", countmin.CountMinLog8.load), ("HyperLogLog", hyperloglog.HyperLogLog.load),
            ("HeavyHitters", heavyhitters.HeavyHitters.load), ("module", countmin.load)]
