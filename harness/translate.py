"""translate.py — fail-closed extractor: /repo source -> coq/generated/{Consts,HllTables}.v

Everything in the code that is *data* (literal constants at named AST positions,
the list of attributes compared by each merge() guard, the three HyperLogLog++
tables) is re-read from /repo's working tree on every run and emitted as Coq
text.  If an expected AST shape is not found the translator raises
TranslatorError (the check then reports the translator obligation as broken).
"""
import ast
import importlib.util
import os
import sys


class TranslatorError(Exception):
    pass


def _parse(path):
    import warnings
    with open(path, "r") as f:
        with warnings.catch_warnings():
            warnings.simplefilter("ignore")
            return ast.parse(f.read(), path)


def _find_func(tree, name, cls=None):
    scope = tree
    if cls is not None:
        for n in tree.body:
            if isinstance(n, ast.ClassDef) and n.name == cls:
                scope = n
                break
        else:
            raise TranslatorError(f"class {cls} not found")
    for n in scope.body:
        if isinstance(n, ast.FunctionDef) and n.name == name:
            return n
    raise TranslatorError(f"function {cls+'.' if cls else ''}{name} not found")


def _strip_doc(fn):
    body = fn.body
    if body and isinstance(body[0], ast.Expr) and isinstance(body[0].value, ast.Constant) \
            and isinstance(body[0].value.value, str):
        body = body[1:]
    return body


def _fold(node):
    """Evaluate a constant integer/float expression made of literals, + - * ** only."""
    if isinstance(node, ast.Constant) and isinstance(node.value, (int, float)) \
            and not isinstance(node.value, bool):
        return node.value
    if isinstance(node, ast.BinOp):
        l, r = _fold(node.left), _fold(node.right)
        if l is None or r is None:
            return None
        if isinstance(node.op, ast.Pow):
            return l ** r
        if isinstance(node.op, ast.Sub):
            return l - r
        if isinstance(node.op, ast.Add):
            return l + r
        if isinstance(node.op, ast.Mult):
            return l * r
    return None


def _consts(nodes, kinds=(int, float)):
    """All maximal constant sub-expressions, in source order (line, col)."""
    out = []

    def visit(n):
        v = _fold(n)
        if v is not None and isinstance(v, kinds):
            out.append((n.lineno, n.col_offset, v))
            return
        for c in ast.iter_child_nodes(n):
            visit(c)

    for n in nodes:
        visit(n)
    out.sort(key=lambda t: (t[0], t[1]))
    return [v for _, _, v in out]


def _expect(name, got, n):
    if len(got) != n:
        raise TranslatorError(f"{name}: expected {n} numeric constants, found {len(got)}: {got}")
    return got


def _default(fn, argname):
    args = fn.args.args
    defaults = fn.args.defaults
    off = len(args) - len(defaults)
    for i, a in enumerate(args):
        if a.arg == argname:
            if i < off:
                raise TranslatorError(f"{fn.name}: {argname} has no default")
            v = _fold(defaults[i - off])
            if v is None:
                raise TranslatorError(f"{fn.name}: default of {argname} is not a literal")
            return v
    raise TranslatorError(f"{fn.name}: no argument {argname}")


def _guard_fields(fn):
    """merge(): first statement `if self.a != other.a or ...: raise TypeError(...)`."""
    body = _strip_doc(fn)
    if not body or not isinstance(body[0], ast.If):
        raise TranslatorError(f"{fn.name}: first statement is not the guard `if`")
    iff = body[0]
    if not (len(iff.body) == 1 and isinstance(iff.body[0], ast.Raise)):
        raise TranslatorError(f"{fn.name}: guard body is not a single raise")
    exc = iff.body[0].exc
    if not (isinstance(exc, ast.Call) and isinstance(exc.func, ast.Name) and exc.func.id == "TypeError"):
        raise TranslatorError(f"{fn.name}: guard does not raise TypeError")
    if iff.orelse:
        raise TranslatorError(f"{fn.name}: guard has an else branch")
    test = iff.test
    terms = test.values if (isinstance(test, ast.BoolOp) and isinstance(test.op, ast.Or)) else [test]
    fields = []
    for t in terms:
        ok = (isinstance(t, ast.Compare) and len(t.ops) == 1 and isinstance(t.ops[0], ast.NotEq)
              and isinstance(t.left, ast.Attribute) and isinstance(t.left.value, ast.Name)
              and t.left.value.id == "self"
              and isinstance(t.comparators[0], ast.Attribute)
              and isinstance(t.comparators[0].value, ast.Name)
              and t.comparators[0].value.id == "other"
              and t.comparators[0].attr == t.left.attr)
        if not ok:
            raise TranslatorError(f"{fn.name}: guard term is not `self.x != other.x`: {ast.dump(t)}")
        fields.append(t.left.attr)
    # the guarded call must be the only other statement and must not precede the guard
    return fields


def _assign_value(fn, target):
    """value expression of `self.<target> = ...` or `<target> = ...` inside fn (first)."""
    for n in ast.walk(fn):
        if isinstance(n, ast.Assign) and len(n.targets) == 1:
            t = n.targets[0]
            if (isinstance(t, ast.Attribute) and t.attr == target) or \
               (isinstance(t, ast.Name) and t.id == target):
                return n.value
    raise TranslatorError(f"{fn.name}: no assignment to {target}")


def extract_consts(repo):
    src = os.path.join(repo, "sketchnu")
    C = {}
    # ---------------- hashes.py
    h = _parse(os.path.join(src, "hashes.py"))
    c = _expect("_fhmix64", _consts(_strip_doc(_find_func(h, "_fhmix64")), (int,)), 3)
    C["fh_s1"], C["fh_c"], C["fh_s2"] = c
    fh = _find_func(h, "fasthash64")
    C["fh_m"] = _fold(_assign_value(fh, "m").args[0]) if isinstance(_assign_value(fh, "m"), ast.Call) else None
    if C["fh_m"] is None:
        raise TranslatorError("fasthash64: m = uint64(<literal>) not found")
    c = _expect("fasthash32", _consts(_strip_doc(_find_func(h, "fasthash32")), (int,)), 1)
    C["fh32_shift"] = c[0]
    c = _expect("_fmix32", _consts(_strip_doc(_find_func(h, "_fmix32")), (int,)), 5)
    C["mm_f1"], C["mm_fc1"], C["mm_f2"], C["mm_fc2"], C["mm_f3"] = c
    c = _expect("_rotl32", _consts(_strip_doc(_find_func(h, "_rotl32")), (int,)), 1)
    C["mm_rotw"] = c[0]
    mm = _find_func(h, "murmur3")
    for nm in ("c1", "c2", "c3"):
        v = _assign_value(mm, nm)
        if not (isinstance(v, ast.Call) and _fold(v.args[0]) is not None):
            raise TranslatorError(f"murmur3: {nm} = uint32(<literal>) not found")
        C["mm_" + nm] = _fold(v.args[0])
    loops = [n for n in _strip_doc(mm) if isinstance(n, ast.For)]
    if len(loops) != 1:
        raise TranslatorError("murmur3: expected exactly one block loop")
    c = _expect("murmur3 block loop", _consts(loops[0].body, (int,)), 3)
    C["mm_r1"], C["mm_r2"], C["mm_mul5"] = c
    # ---------------- countmin.py
    cm = _parse(os.path.join(src, "countmin.py"))
    lin_init = _find_func(cm, "__init__", "CountMinLinear")
    v = _assign_value(lin_init, "uint_maxval")
    C["lin_cap"] = _fold(v.args[0]) if isinstance(v, ast.Call) else None
    c = _expect("_rand", _consts(_strip_doc(_find_func(cm, "_rand")), (int,)), 5)
    # rand_ptr == uint64(2048); np.random.rand(2048); uint64(1); uint64(1); uint64(1) ...
    C["rand_batch_cmp"], C["rand_batch_gen"] = c[0], c[1]
    for cls, tag in (("CountMinLog16", "log16"), ("CountMinLog8", "log8")):
        init = _find_func(cm, "__init__", cls)
        v = _assign_value(init, "uint_maxval")
        C[tag + "_umax"] = _fold(v.args[0]) if isinstance(v, ast.Call) else None
        C[tag + "_default_num_reserved"] = _default(init, "num_reserved")
        C[tag + "_default_max_count"] = _default(init, "max_count")
        v = _assign_value(init, "rand_nums")
        if not (isinstance(v, ast.Call) and v.args and _fold(v.args[0]) is not None):
            raise TranslatorError(f"{cls}.__init__: rand_nums = rng.random(<literal>) not found")
        C[tag + "_rand_batch_init"] = _fold(v.args[0])
        # num_reserved >= <umax> check
        lims = []
        for n in ast.walk(init):
            if isinstance(n, ast.Compare) and isinstance(n.left, ast.Name) and n.left.id == "num_reserved":
                if len(n.ops) == 1 and isinstance(n.ops[0], ast.GtE):
                    lims.append(_fold(n.comparators[0]))
        if len(lims) != 1 or lims[0] is None:
            raise TranslatorError(f"{cls}.__init__: `num_reserved >= <literal>` check not found")
        C[tag + "_nr_limit"] = lims[0]
    fb = _find_func(cm, "_find_base")
    c = _consts(_strip_doc(fb), (int, float))
    # range(200) ... base < 1.000000001
    fl = [x for x in c if isinstance(x, float)]
    it = [x for x in c if isinstance(x, int)]
    if len(fl) != 1 or len(it) != 1:
        raise TranslatorError(f"_find_base: expected one float and one int literal, got {c}")
    C["find_base_min"] = fl[0]
    C["find_base_iters"] = it[0]
    C["guard_linear"] = _guard_fields(_find_func(cm, "merge", "CountMinLinear"))
    C["guard_log16"] = _guard_fields(_find_func(cm, "merge", "CountMinLog16"))
    C["guard_log8"] = _guard_fields(_find_func(cm, "merge", "CountMinLog8"))
    # ---------------- hyperloglog.py
    hl = _parse(os.path.join(src, "hyperloglog.py"))
    init = _find_func(hl, "__init__", "HyperLogLog")
    v = _assign_value(init, "alpha")
    c = _consts([v], (int, float))
    fl = [x for x in c if isinstance(x, float)]
    if len(fl) != 3:
        raise TranslatorError(f"HyperLogLog.__init__: alpha expression literals {c}")
    C["hll_alpha_num"], C["hll_alpha_one"], C["hll_alpha_den"] = fl
    ps = []
    for n in ast.walk(init):
        if isinstance(n, ast.Compare) and isinstance(n.left, ast.Attribute) and n.left.attr == "p":
            ps.append((type(n.ops[0]).__name__, _fold(n.comparators[0].args[0])
                       if isinstance(n.comparators[0], ast.Call) else _fold(n.comparators[0])))
    if sorted(k for k, _ in ps) != ["Gt", "Lt"] or any(v is None for _, v in ps):
        raise TranslatorError(f"HyperLogLog.__init__: p range check not recognised: {ps}")
    C["hll_p_max"] = dict(ps)["Gt"]
    C["hll_p_min"] = dict(ps)["Lt"]
    offs = []
    for nm in ("threshold", "bias_data", "raw_estimate"):
        v = _assign_value(init, nm)
        c = _consts([v], (int,))
        if len(c) != 1:
            raise TranslatorError(f"HyperLogLog.__init__: table index of {nm} not recognised: {c}")
        offs.append(c[0])
    if len(set(offs)) != 1:
        raise TranslatorError(f"HyperLogLog.__init__: table rows use different offsets {offs}")
    C["hll_table_offset"] = offs[0]
    C["hll_default_p"] = _default(init, "p")
    C["hll_default_seed"] = _default(init, "seed")
    q = _find_func(hl, "_query")
    c = _consts(_strip_doc(q), (int, float))
    if len(c) != 2:
        raise TranslatorError(f"_query: literals {c}")
    C["hll_zero_cmp"], C["hll_raw_mult"] = c
    C["guard_hll"] = _guard_fields(_find_func(hl, "merge", "HyperLogLog"))
    # ---------------- heavyhitters.py
    hh = _parse(os.path.join(src, "heavyhitters.py"))
    init = _find_func(hh, "__init__", "HeavyHitters")
    v = _assign_value(init, "uint_maxval")
    C["hh_cap"] = _fold(v.args[0]) if isinstance(v, ast.Call) else None
    C["hh_default_depth"] = _default(init, "depth")
    C["hh_default_max_key_len"] = _default(init, "max_key_len")
    C["guard_hh"] = _guard_fields(_find_func(hh, "merge", "HeavyHitters"))
    for k, v in C.items():
        if v is None:
            raise TranslatorError(f"constant {k} not found")
    return C


def _float_lit(x):
    """Exact Coq PrimFloat literal for a Python float."""
    import math
    if math.isnan(x) or math.isinf(x):
        raise TranslatorError(f"non-finite float {x}")
    hx = float(x).hex()
    if hx.startswith("-"):
        return f"(- {hx[1:]})%float"
    return f"({hx})%float"


def emit_consts(C):
    L = []
    L.append("(* GENERATED by harness/translate.py from /repo — do not edit. *)")
    L.append("From Coq Require Import ZArith List String Floats.PrimFloat.")
    L.append("Import ListNotations.")
    L.append("Open Scope Z_scope.")
    L.append("Open Scope string_scope.")
    for k in sorted(C):
        v = C[k]
        if isinstance(v, list):
            items = "; ".join('"%s"' % s for s in v)
            L.append(f"Definition {k} : list string := [{items}].")
        elif isinstance(v, float):
            L.append(f"Definition {k} : float := {_float_lit(v)}.")
        else:
            L.append(f"Definition {k} : Z := {int(v)}.")
    return "\n".join(L) + "\n"


def load_tables(repo):
    path = os.path.join(repo, "sketchnu", "hll_constants.py")
    spec = importlib.util.spec_from_file_location("_verif_hll_constants", path)
    mod = importlib.util.module_from_spec(spec)
    spec.loader.exec_module(mod)
    import numpy as np
    thr = np.asarray(mod.sub_algorithm_threshold)
    raw = np.asarray(mod.raw_estimate)
    bias = np.asarray(mod.bias_data)
    if thr.ndim != 1 or raw.ndim != 2 or bias.ndim != 2 or raw.shape != bias.shape \
            or raw.shape[0] != thr.shape[0]:
        raise TranslatorError(f"hll tables have unexpected shapes {thr.shape} {raw.shape} {bias.shape}")
    return thr, raw, bias


def emit_tables(thr, raw, bias):
    L = []
    L.append("(* GENERATED by harness/translate.py from /repo/sketchnu/hll_constants.py — do not edit. *)")
    L.append("From Coq Require Import ZArith List Floats.PrimFloat.")
    L.append("Import ListNotations.")
    L.append("Definition sub_algorithm_threshold : list Z := [%s]%%Z." %
             "; ".join(str(int(x)) for x in thr))
    for x in thr:
        if float(int(x)) != float(x):
            raise TranslatorError("threshold is not an integer")

    def rows(name, arr):
        L.append(f"Definition {name} : list (list float) := [")
        rr = []
        for r in arr:
            rr.append("  [" + "; ".join(_float_lit(float(x)) for x in r) + "]")
        L.append(";\n".join(rr))
        L.append("].")
    rows("raw_estimate", raw)
    rows("bias_data", bias)
    return "\n".join(L) + "\n"


def generate(repo, outdir, write=True):
    """Write the generated files into outdir if changed (write=False: only report what would change).
    Returns (list of changed files, constants)."""
    C = extract_consts(repo)
    texts = {"Consts.v": emit_consts(C)}
    thr, raw, bias = load_tables(repo)
    texts["HllTables.v"] = emit_tables(thr, raw, bias)
    import pytrans
    texts["Kernels.v"] = pytrans.generate_kernels(repo)
    changed = []
    os.makedirs(outdir, exist_ok=True)
    for name, txt in texts.items():
        p = os.path.join(outdir, name)
        old = None
        if os.path.exists(p):
            with open(p) as f:
                old = f.read()
        if old != txt:
            if write:
                with open(p, "w") as f:
                    f.write(txt)
            changed.append(name)
    return changed, C


if __name__ == "__main__":
    repo = sys.argv[1] if len(sys.argv) > 1 else "/repo"
    out = sys.argv[2] if len(sys.argv) > 2 else "/verif/coq/generated"
    ch, C = generate(repo, out)
    print("changed:", ch)
    for k in sorted(C):
        print(k, "=", C[k])
