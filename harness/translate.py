"""translate.py — fail-closed extractor: /repo source -> coq/generated/{Consts,HllTables}.v

Everything in the code that is *data* (literal constants at named AST positions,
the list of attributes compared by each merge() guard, the three HyperLogLog++
tables) is re-read from /repo's working tree on every run and emitted as Coq
text.  If an expected AST shape is not found the translator raises
TranslatorError (the check then reports the translator obligation as broken).
"""
import ast
import importlib.util
import os
import sys


class TranslatorError(Exception):
    pass


def _parse(path):
    import warnings
    with open(path, "r") as f:
        with warnings.catch_warnings():
            warnings.simplefilter("ignore")
            return ast.parse(f.read(), path)


def _find_func(tree, name, cls=None):
    scope = tree
    if cls is not None:
        for n in tree.body:
            if isinstance(n, ast.ClassDef) and n.name == cls:
                scope = n
                break
        else:
            raise TranslatorError(f"class {cls} not found")
    for n in scope.body:
        if isinstance(n, ast.FunctionDef) and n.name == name:
            return n
    raise TranslatorError(f"function {cls+'.' if cls else ''}{name} not found")


def _strip_doc(fn):
    body = fn.body
    if body and isinstance(body[0], ast.Expr) and isinstance(body[0].value, ast.Constant) \
            and isinstance(body[0].value.value, str):
        body = body[1:]
    return body


def _fold(node):
    """Evaluate a constant integer/float expression made of literals, + - * ** only."""
    if isinstance(node, ast.Constant) and isinstance(node.value, (int, float)) \
            and not isinstance(node.value, bool):
        return node.value
    if isinstance(node, ast.BinOp):
        l, r = _fold(node.left), _fold(node.right)
        if l is None or r is None:
            return None
        if isinstance(node.op, ast.Pow):
            return l ** r
        if isinstance(node.op, ast.Sub):
            return l - r
        if isinstance(node.op, ast.Add):
            return l + r
        if isinstance(node.op, ast.Mult):
            return l * r
    return None


def _consts(nodes, kinds=(int, float)):
    """All maximal constant sub-expressions, in source order (line, col)."""
    out = []

    def visit(n):
        v = _fold(n)
        if v is not None and isinstance(v, kinds):
            out.append((n.lineno, n.col_offset, v))
            return
        for c in ast.iter_child_nodes(n):
            visit(c)

    for n in nodes:
        visit(n)
    out.sort(key=lambda t: (t[0], t[1]))
    return [v for _, _, v in out]


def _expect(name, got, n):
    if len(got) != n:
        raise TranslatorError(f"{name}: expected {n} numeric constants, found {len(got)}: {got}")
    return got


def _default(fn, argname):
    args = fn.args.args
    defaults = fn.args.defaults
    off = len(args) - len(defaults)
    for i, a in enumerate(args):
        if a.arg == argname:
            if i < off:
                raise TranslatorError(f"{fn.name}: {argname} has no default")
            v = _fold(defaults[i - off])
            if v is None:
                raise TranslatorError(f"{fn.name}: default of {argname} is not a literal")
            return v
    raise TranslatorError(f"{fn.name}: no argument {argname}")


def _guard_fields(fn):
    """merge(): first statement `if self.a != other.a or ...: raise TypeError(...)`."""
    body = _strip_doc(fn)
    if not body or not isinstance(body[0], ast.If):
        raise TranslatorError(f"{fn.name}: first statement is not the guard `if`")
    iff = body[0]
    if not (len(iff.body) == 1 and isinstance(iff.body[0], ast.Raise)):
        raise TranslatorError(f"{fn.name}: guard body is not a single raise")
    exc = iff.body[0].exc
    if not (isinstance(exc, ast.Call) and isinstance(exc.func, ast.Name) and exc.func.id == "TypeError"):
        raise TranslatorError(f"{fn.name}: guard does not raise TypeError")
    if iff.orelse:
        raise TranslatorError(f"{fn.name}: guard has an else branch")
    test = iff.test
    terms = test.values if (isinstance(test, ast.BoolOp) and isinstance(test.op, ast.Or)) else [test]
    fields = []
    for t in terms:
        ok = (isinstance(t, ast.Compare) and len(t.ops) == 1 and isinstance(t.ops[0], ast.NotEq)
              and isinstance(t.left, ast.Attribute) and isinstance(t.left.value, ast.Name)
              and t.left.value.id == "self"
              and isinstance(t.comparators[0], ast.Attribute)
              and isinstance(t.comparators[0].value, ast.Name)
              and t.comparators[0].value.id == "other"
              and t.comparators[0].attr == t.left.attr)
        if not ok:
            raise TranslatorError(f"{fn.name}: guard term is not `self.x != other.x`: {ast.dump(t)}")
        fields.append(t.left.attr)
    # the guarded call must be the only other statement and must not precede the guard
    return fields


def _assign_value(fn, target):
    """value expression of `self.<target> = ...` or `<target> = ...` inside fn (first)."""
    for n in ast.walk(fn):
        if isinstance(n, ast.Assign) and len(n.targets) == 1:
            t = n.targets[0]
            if (isinstance(t, ast.Attribute) and t.attr == target) or \
               (isinstance(t, ast.Name) and t.id == target):
                return n.value
    raise TranslatorError(f"{fn.name}: no assignment to {target}")


def _clusters(src):
    """Independent extraction clusters: (tag, [names], thunk).  A cluster that fails only poisons its own names."""
    import functools
    P = functools.lru_cache(None)(lambda f: _parse(os.path.join(src, f)))
    cl = []

    def add(tag, names, thunk):
        cl.append((tag, names, thunk))

    # ---------------- hashes.py
    def fhmix():
        c = _expect("_fhmix64", _consts(_strip_doc(_find_func(P("hashes.py"), "_fhmix64")), (int,)), 3)
        return dict(zip(["fh_s1", "fh_c", "fh_s2"], c))
    add("hashes:_fhmix64", ["fh_s1", "fh_c", "fh_s2"], fhmix)

    def fhm():
        v = _assign_value(_find_func(P("hashes.py"), "fasthash64"), "m")
        if not (isinstance(v, ast.Call) and _fold(v.args[0]) is not None):
            raise TranslatorError("fasthash64: m = uint64(<literal>) not found")
        return {"fh_m": _fold(v.args[0])}
    add("hashes:fasthash64.m", ["fh_m"], fhm)
    add("hashes:fasthash32", ["fh32_shift"],
        lambda: {"fh32_shift": _expect("fasthash32", _consts(_strip_doc(_find_func(P("hashes.py"), "fasthash32")), (int,)), 1)[0]})
    add("hashes:_fmix32", ["mm_f1", "mm_fc1", "mm_f2", "mm_fc2", "mm_f3"],
        lambda: dict(zip(["mm_f1", "mm_fc1", "mm_f2", "mm_fc2", "mm_f3"],
                         _expect("_fmix32", _consts(_strip_doc(_find_func(P("hashes.py"), "_fmix32")), (int,)), 5))))
    add("hashes:_rotl32", ["mm_rotw"],
        lambda: {"mm_rotw": _expect("_rotl32", _consts(_strip_doc(_find_func(P("hashes.py"), "_rotl32")), (int,)), 1)[0]})

    def mmc():
        mm = _find_func(P("hashes.py"), "murmur3")
        out = {}
        for nm in ("c1", "c2", "c3"):
            v = _assign_value(mm, nm)
            if not (isinstance(v, ast.Call) and _fold(v.args[0]) is not None):
                raise TranslatorError(f"murmur3: {nm} = uint32(<literal>) not found")
            out["mm_" + nm] = _fold(v.args[0])
        return out
    add("hashes:murmur3.c", ["mm_c1", "mm_c2", "mm_c3"], mmc)

    def mmloop():
        mm = _find_func(P("hashes.py"), "murmur3")
        loops = [n for n in _strip_doc(mm) if isinstance(n, ast.For)]
        if len(loops) != 1:
            raise TranslatorError("murmur3: expected exactly one block loop")
        return dict(zip(["mm_r1", "mm_r2", "mm_mul5"], _expect("murmur3 block loop", _consts(loops[0].body, (int,)), 3)))
    add("hashes:murmur3.loop", ["mm_r1", "mm_r2", "mm_mul5"], mmloop)

    # ---------------- countmin.py
    def cap(cls, name):
        def f():
            v = _assign_value(_find_func(P("countmin.py"), "__init__", cls), "uint_maxval")
            if not (isinstance(v, ast.Call) and _fold(v.args[0]) is not None):
                raise TranslatorError(f"{cls}.__init__: uint_maxval literal not found")
            return {name: _fold(v.args[0])}
        return f
    add("countmin:CountMinLinear.uint_maxval", ["lin_cap"], cap("CountMinLinear", "lin_cap"))

    def rand():
        c = _expect("_rand", _consts(_strip_doc(_find_func(P("countmin.py"), "_rand")), (int,)), 5)
        return {"rand_batch_cmp": c[0], "rand_batch_gen": c[1]}
    add("countmin:_rand", ["rand_batch_cmp", "rand_batch_gen"], rand)
    for cls, tag in (("CountMinLog16", "log16"), ("CountMinLog8", "log8")):
        add(f"countmin:{cls}.uint_maxval", [tag + "_umax"], cap(cls, tag + "_umax"))

        def defaults(cls=cls, tag=tag):
            init = _find_func(P("countmin.py"), "__init__", cls)
            return {tag + "_default_num_reserved": _default(init, "num_reserved"),
                    tag + "_default_max_count": _default(init, "max_count")}
        add(f"countmin:{cls}.defaults", [tag + "_default_num_reserved", tag + "_default_max_count"], defaults)

        def batch(cls=cls, tag=tag):
            v = _assign_value(_find_func(P("countmin.py"), "__init__", cls), "rand_nums")
            if not (isinstance(v, ast.Call) and v.args and _fold(v.args[0]) is not None):
                raise TranslatorError(f"{cls}.__init__: rand_nums = rng.random(<literal>) not found")
            return {tag + "_rand_batch_init": _fold(v.args[0])}
        add(f"countmin:{cls}.rand_nums", [tag + "_rand_batch_init"], batch)

        def lim(cls=cls, tag=tag):
            init = _find_func(P("countmin.py"), "__init__", cls)
            lims = []
            for n in ast.walk(init):
                if isinstance(n, ast.Compare) and isinstance(n.left, ast.Name) and n.left.id == "num_reserved":
                    if len(n.ops) == 1 and isinstance(n.ops[0], ast.GtE):
                        lims.append(_fold(n.comparators[0]))
            if len(lims) != 1 or lims[0] is None:
                raise TranslatorError(f"{cls}.__init__: `num_reserved >= <literal>` check not found")
            return {tag + "_nr_limit": lims[0]}
        add(f"countmin:{cls}.num_reserved_limit", [tag + "_nr_limit"], lim)

    def fbase():
        c = _consts(_strip_doc(_find_func(P("countmin.py"), "_find_base")), (int, float))
        fl = [x for x in c if isinstance(x, float)]
        it = [x for x in c if isinstance(x, int)]
        if len(fl) != 1 or len(it) != 1:
            raise TranslatorError(f"_find_base: expected one float and one int literal, got {c}")
        return {"find_base_min": fl[0], "find_base_iters": it[0]}
    add("countmin:_find_base", ["find_base_min", "find_base_iters"], fbase)
    for cls, nm in (("CountMinLinear", "guard_linear"), ("CountMinLog16", "guard_log16"), ("CountMinLog8", "guard_log8")):
        add(f"countmin:{cls}.merge", [nm], lambda cls=cls, nm=nm: {nm: _guard_fields(_find_func(P("countmin.py"), "merge", cls))})

    # ---------------- hyperloglog.py
    def alpha():
        v = _assign_value(_find_func(P("hyperloglog.py"), "__init__", "HyperLogLog"), "alpha")
        c = _consts([v], (int, float))
        fl = [x for x in c if isinstance(x, float)]
        if len(fl) != 3:
            raise TranslatorError(f"HyperLogLog.__init__: alpha expression literals {c}")
        return dict(zip(["hll_alpha_num", "hll_alpha_one", "hll_alpha_den"], fl))
    add("hll:alpha", ["hll_alpha_num", "hll_alpha_one", "hll_alpha_den"], alpha)

    def prange():
        init = _find_func(P("hyperloglog.py"), "__init__", "HyperLogLog")
        ps = []
        for n in ast.walk(init):
            if isinstance(n, ast.Compare) and isinstance(n.left, ast.Attribute) and n.left.attr == "p":
                ps.append((type(n.ops[0]).__name__, _fold(n.comparators[0].args[0])
                           if isinstance(n.comparators[0], ast.Call) else _fold(n.comparators[0])))
        if sorted(k for k, _ in ps) != ["Gt", "Lt"] or any(v is None for _, v in ps):
            raise TranslatorError(f"HyperLogLog.__init__: p range check not recognised: {ps}")
        return {"hll_p_max": dict(ps)["Gt"], "hll_p_min": dict(ps)["Lt"]}
    add("hll:p_range", ["hll_p_max", "hll_p_min"], prange)

    def offs():
        init = _find_func(P("hyperloglog.py"), "__init__", "HyperLogLog")
        o = []
        for nm in ("threshold", "bias_data", "raw_estimate"):
            c = _consts([_assign_value(init, nm)], (int,))
            if len(c) != 1:
                raise TranslatorError(f"HyperLogLog.__init__: table index of {nm} not recognised: {c}")
            o.append(c[0])
        if len(set(o)) != 1:
            raise TranslatorError(f"HyperLogLog.__init__: table rows use different offsets {o}")
        return {"hll_table_offset": o[0]}
    add("hll:table_offset", ["hll_table_offset"], offs)

    def hdef():
        init = _find_func(P("hyperloglog.py"), "__init__", "HyperLogLog")
        return {"hll_default_p": _default(init, "p"), "hll_default_seed": _default(init, "seed")}
    add("hll:defaults", ["hll_default_p", "hll_default_seed"], hdef)

    def qlit():
        c = _consts(_strip_doc(_find_func(P("hyperloglog.py"), "_query")), (int, float))
        if len(c) != 2:
            raise TranslatorError(f"_query: literals {c}")
        return {"hll_zero_cmp": c[0], "hll_raw_mult": c[1]}
    add("hll:_query", ["hll_zero_cmp", "hll_raw_mult"], qlit)
    add("hll:merge", ["guard_hll"], lambda: {"guard_hll": _guard_fields(_find_func(P("hyperloglog.py"), "merge", "HyperLogLog"))})

    # ---------------- the row hash: `<col> = fasthash64(key, row) % width` inside `for row in range(depth)` (C14)
    def rowhash(fname, func, const):
        def f():
            fn = _find_func(P(fname), func)
            found = []
            for n in ast.walk(fn):
                if isinstance(n, ast.For) and isinstance(n.target, ast.Name):
                    for st in n.body:
                        if isinstance(st, ast.Assign) and any(isinstance(c, ast.Call) and getattr(c.func, "id", "") == "fasthash64"
                                                             for c in ast.walk(st.value)):
                            found.append(f"for {n.target.id} in {ast.unparse(n.iter)}: {ast.unparse(st.value)}")
            if len(found) != 1:
                raise TranslatorError(f"{func}: expected exactly one column assignment using fasthash64 in a row loop, found {found}")
            return {const: found[0]}
        return f
    for fname, func, const in (("countmin.py", "_query_linear", "rowhash_query_linear"), ("countmin.py", "_query_log16", "rowhash_query_log16"),
                               ("countmin.py", "_query_log8", "rowhash_query_log8"), ("heavyhitters.py", "_add", "rowhash_hh_add"),
                               ("heavyhitters.py", "_max_count", "rowhash_hh_max_count")):
        add(f"rowhash:{func}", [const], rowhash(fname, func, const))

    # ---------------- heavyhitters.py
    add("hh:uint_maxval", ["hh_cap"], cap_hh(P))

    def hhdef():
        init = _find_func(P("heavyhitters.py"), "__init__", "HeavyHitters")
        return {"hh_default_depth": _default(init, "depth"), "hh_default_max_key_len": _default(init, "max_key_len")}
    add("hh:defaults", ["hh_default_depth", "hh_default_max_key_len"], hhdef)
    add("hh:merge", ["guard_hh"], lambda: {"guard_hh": _guard_fields(_find_func(P("heavyhitters.py"), "merge", "HeavyHitters"))})
    return cl


def cap_hh(P):
    def f():
        v = _assign_value(_find_func(P("heavyhitters.py"), "__init__", "HeavyHitters"), "uint_maxval")
        if not (isinstance(v, ast.Call) and _fold(v.args[0]) is not None):
            raise TranslatorError("HeavyHitters.__init__: uint_maxval literal not found")
        return {"hh_cap": _fold(v.args[0])}
    return f


FLOAT_NAMES = {"find_base_min", "hll_alpha_num", "hll_alpha_one", "hll_alpha_den"}


def extract_consts(repo):
    """Constants, cluster by cluster.  A cluster that cannot be extracted gets SENTINEL values (-1 / -1.0 / an empty
    guard list): Consts.v still compiles, the obligations that pin those constants fail, and only the properties
    that depend on them are affected.  Returns (constants, {cluster: error})."""
    src = os.path.join(repo, "sketchnu")
    C, errors = {}, {}
    for tag, names, thunk in _clusters(src):
        try:
            got = thunk()
            if sorted(got) != sorted(names) or any(v is None for v in got.values()):
                raise TranslatorError(f"cluster returned {sorted(got)} for {sorted(names)}")
            C.update(got)
        except Exception as e:
            errors["consts:" + tag] = f"{type(e).__name__}: {e}"
            for k in names:
                C[k] = [] if k.startswith("guard_") else ("TRANSLATION FAILED" if k.startswith("rowhash_") else
                                                          (-1.0 if k in FLOAT_NAMES else -1))
    return C, errors


def _float_lit(x):
    """Exact Coq PrimFloat literal for a Python float."""
    import math
    if math.isnan(x) or math.isinf(x):
        raise TranslatorError(f"non-finite float {x}")
    hx = float(x).hex()
    if hx.startswith("-"):
        return f"(- {hx[1:]})%float"
    return f"({hx})%float"


def emit_consts(C):
    L = []
    L.append("(* GENERATED by harness/translate.py from /repo — do not edit. *)")
    L.append("From Coq Require Import ZArith List String Floats.PrimFloat.")
    L.append("Import ListNotations.")
    L.append("Open Scope Z_scope.")
    L.append("Open Scope string_scope.")
    for k in sorted(C):
        v = C[k]
        if isinstance(v, list):
            items = "; ".join('"%s"' % s for s in v)
            L.append(f"Definition {k} : list string := [{items}].")
        elif isinstance(v, str):
            L.append(f'Definition {k} : string := "{v}".')
        elif isinstance(v, float):
            L.append(f"Definition {k} : float := {_float_lit(v)}.")
        else:
            L.append(f"Definition {k} : Z := {int(v)}.")
    return "\n".join(L) + "\n"


def load_tables(repo):
    path = os.path.join(repo, "sketchnu", "hll_constants.py")
    spec = importlib.util.spec_from_file_location("_verif_hll_constants", path)
    mod = importlib.util.module_from_spec(spec)
    spec.loader.exec_module(mod)
    import numpy as np
    thr = np.asarray(mod.sub_algorithm_threshold)
    raw = np.asarray(mod.raw_estimate)
    bias = np.asarray(mod.bias_data)
    if thr.ndim != 1 or raw.ndim != 2 or bias.ndim != 2 or raw.shape != bias.shape \
            or raw.shape[0] != thr.shape[0]:
        raise TranslatorError(f"hll tables have unexpected shapes {thr.shape} {raw.shape} {bias.shape}")
    return thr, raw, bias


def emit_tables(thr, raw, bias):
    L = []
    L.append("(* GENERATED by harness/translate.py from /repo/sketchnu/hll_constants.py — do not edit. *)")
    L.append("From Coq Require Import ZArith List Floats.PrimFloat.")
    L.append("Import ListNotations.")
    L.append("Definition sub_algorithm_threshold : list Z := [%s]%%Z." %
             "; ".join(str(int(x)) for x in thr))
    for x in thr:
        if float(int(x)) != float(x):
            raise TranslatorError("threshold is not an integer")

    def rows(name, arr):
        L.append(f"Definition {name} : list (list float) := [")
        rr = []
        for r in arr:
            rr.append("  [" + "; ".join(_float_lit(float(x)) for x in r) + "]")
        L.append(";\n".join(rr))
        L.append("].")
    rows("raw_estimate", raw)
    rows("bias_data", bias)
    return "\n".join(L) + "\n"


def generate(repo, outdir, write=True):
    """Write the generated files into outdir if changed (write=False: only report what would change).
    Returns (list of changed files, constants, {component: translator error})."""
    C, errors = extract_consts(repo)
    texts = {"Consts.v": emit_consts(C)}
    try:
        thr, raw, bias = load_tables(repo)
        texts["HllTables.v"] = emit_tables(thr, raw, bias)
    except Exception as e:
        errors["tables:hll_constants"] = f"{type(e).__name__}: {e}"
        texts["HllTables.v"] = ("(* TRANSLATION FAILED *)\nFrom Coq Require Import ZArith List Floats.PrimFloat.\nImport ListNotations.\n"
                                "Definition sub_algorithm_threshold : list Z := [].\n"
                                "Definition raw_estimate : list (list float) := [].\nDefinition bias_data : list (list float) := [].\n")
    import pytrans
    ktexts, kerr = pytrans.generate_kernels(repo)
    texts.update(ktexts)
    errors.update(kerr)
    # further kernel translators (one module per source area); each provides generate(repo) -> ({file: text}, {tag: error})
    # and must itself be fail-soft (poisoned definitions on failure, the file always compiles)
    import importlib
    for plug in ("pytrans_cms", "pytrans_hh", "pytrans_log", "pytrans_hllq", "pytrans_helpers", "pytrans_ngram", "pytrans_api"):
        try:
            mod = importlib.import_module(plug)
        except ImportError:
            continue
        try:
            t2, e2 = mod.generate(repo)
            texts.update(t2)
            errors.update(e2)
        except Exception as e:
            errors["kernels:" + plug] = f"{type(e).__name__}: {e}"
    changed = []
    os.makedirs(outdir, exist_ok=True)
    for name, txt in texts.items():
        p = os.path.join(outdir, name)
        old = None
        if os.path.exists(p):
            with open(p) as f:
                old = f.read()
        if old != txt:
            if write:
                with open(p, "w") as f:
                    f.write(txt)
            changed.append(name)
    stale = os.path.join(outdir, "Kernels.v")
    if write and os.path.exists(stale):
        for ext in ("", "o", "ok", "os"):
            try:
                os.remove(stale + ext if ext else stale)
            except OSError:
                pass
    return changed, C, errors


if __name__ == "__main__":
    repo = sys.argv[1] if len(sys.argv) > 1 else "/repo"
    out = sys.argv[2] if len(sys.argv) > 2 else "/verif/coq/generated"
    ch, C, errs = generate(repo, out)
    print("changed:", ch, "errors:", errs)
    for k in sorted(C):
        print(k, "=", C[k])
