"""pytrans_helpers.py — translator plug-in (see translate.generate): the index arithmetic of helpers.py.

Regenerated on every run into generated/KernelsHelpers.v and tied by proof (theories/KernelTieHelpers.v) to the
model of the pairwise merging rounds (Merging.v):

  parallel_merging   the test of the `while` loop, the number of merger processes of a round (`range(<e>)`), the two
                     indices of sketch_array a merger is given (in the order in which they are passed to
                     _merge_worker), the `range(start, stop, step)` of the survivors and the index kept for each, the
                     index of the sketch returned
  _merge_worker      which of its two arguments receives `.merge(<the other>)`
  _fill_queue        the number of poison pills (`range(<e>)` around `queue.put(None)`)

These are plain Python integers (unbounded): `+ - *` are the operations of Z, `//` by a positive literal is Z.div
(floor), `a > b` is `b <? a`.  Only names, integer literals and these operators are accepted in an expression.
Functions are located by name, statements by shape (never by line number); local names are taken from the source.
Fail-soft per function: on failure POISONED definitions of the right type (-1 / empty string) are emitted, the file
always compiles and only the tie fails.
"""
import ast
import os

from translate import TranslatorError, _parse, _find_func, _strip_doc


def zexpr(e, allowed):
    """a Python int expression over the names in `allowed` -> Gallina (Z)"""
    if isinstance(e, ast.Constant) and isinstance(e.value, int) and not isinstance(e.value, bool):
        return str(e.value) if e.value >= 0 else f"({e.value})"
    if isinstance(e, ast.Name):
        if e.id not in allowed:
            raise TranslatorError(f"l.{e.lineno}: free name {e.id}")
        return allowed[e.id]
    if isinstance(e, ast.BinOp):
        a, b = zexpr(e.left, allowed), zexpr(e.right, allowed)
        if isinstance(e.op, ast.Add):
            return f"({a} + {b})"
        if isinstance(e.op, ast.Sub):
            return f"({a} - {b})"
        if isinstance(e.op, ast.Mult):
            return f"({a} * {b})"
        if isinstance(e.op, ast.FloorDiv):
            if not (isinstance(e.right, ast.Constant) and isinstance(e.right.value, int) and e.right.value > 0):
                raise TranslatorError(f"l.{e.lineno}: // by something that is not a positive literal")
            return f"({a} / {b})"
    raise TranslatorError(f"l.{getattr(e, 'lineno', '?')}: unsupported integer expression {ast.unparse(e)}")


def zcond(e, allowed):
    if isinstance(e, ast.Compare) and len(e.ops) == 1:
        a, b = zexpr(e.left, allowed), zexpr(e.comparators[0], allowed)
        op = e.ops[0]
        if isinstance(op, ast.Gt):
            return f"({b} <? {a})"
        if isinstance(op, ast.GtE):
            return f"({b} <=? {a})"
        if isinstance(op, ast.Lt):
            return f"({a} <? {b})"
        if isinstance(op, ast.LtE):
            return f"({a} <=? {b})"
        if isinstance(op, ast.NotEq):
            return f"(negb ({a} =? {b}))"
    raise TranslatorError(f"l.{getattr(e, 'lineno', '?')}: unsupported test {ast.unparse(e)}")


def _range_args(it, what):
    if not (isinstance(it, ast.Call) and getattr(it.func, "id", None) == "range" and not it.keywords and 1 <= len(it.args) <= 3):
        raise TranslatorError(f"{what}: not a range(...) loop")
    a = it.args
    zero, one = ast.Constant(0), ast.Constant(1)
    return (zero, a[0], one) if len(a) == 1 else (a[0], a[1], one) if len(a) == 2 else (a[0], a[1], a[2])


def _subscript_index(e, arr):
    """<arr>[<index>] -> index expression"""
    if isinstance(e, ast.Subscript) and isinstance(e.value, ast.Name) and e.value.id == arr:
        return e.slice
    return None


def _parallel_merging(hp):
    fn = _find_func(hp, "parallel_merging")
    if len(fn.args.args) < 1:
        raise TranslatorError("parallel_merging: no parameter")
    arr = fn.args.args[0].arg
    body = _strip_doc(fn)
    whiles = [s for s in body if isinstance(s, ast.While)]
    if len(whiles) != 1 or whiles[0].orelse:
        raise TranslatorError("parallel_merging: expected exactly one top-level while loop")
    w = whiles[0]
    wi = body.index(w)
    # n = len(sketch_array) just before the loop
    pre = body[wi - 1]
    if not (isinstance(pre, ast.Assign) and isinstance(pre.targets[0], ast.Name) and ast.unparse(pre.value) == f"len({arr})"):
        raise TranslatorError("parallel_merging: the statement before the while loop is not <n> = len(sketch_array)")
    n = pre.targets[0].id
    if not (isinstance(body[-1], ast.Return) and body[-1] is body[wi + 1] if wi + 1 < len(body) else False):
        raise TranslatorError("parallel_merging: the while loop is not followed directly by the final return")
    ridx = _subscript_index(body[-1].value, arr)
    if ridx is None:
        raise TranslatorError("parallel_merging: does not return an element of sketch_array")
    fors = [s for s in w.body if isinstance(s, ast.For)]
    if len(fors) != 3:
        raise TranslatorError(f"parallel_merging: expected three for loops in the while body, found {len(fors)}")
    f_start, f_join, f_keep = fors
    # ---- the merger processes
    if not isinstance(f_start.target, ast.Name) or f_start.orelse:
        raise TranslatorError("parallel_merging: first for loop target")
    i = f_start.target.id
    lo, hi, st = _range_args(f_start.iter, "parallel_merging, first for loop")
    if not (ast.unparse(lo) == "0" and ast.unparse(st) == "1"):
        raise TranslatorError("parallel_merging: the loop over the mergers does not start at 0 with step 1")
    tuples = {}
    proc = None
    for s in f_start.body:
        if isinstance(s, ast.Assign) and isinstance(s.targets[0], ast.Name) and isinstance(s.value, ast.Tuple):
            # (sketch_type, sketch_args, sketch_array[<idx>].shm.name)
            last = s.value.elts[-1]
            if not (isinstance(last, ast.Attribute) and last.attr == "name" and isinstance(last.value, ast.Attribute)
                    and last.value.attr == "shm"):
                raise TranslatorError(f"parallel_merging: l.{s.lineno}: the block name is not <sketch>.shm.name")
            idx = _subscript_index(last.value.value, arr)
            if idx is None:
                raise TranslatorError(f"parallel_merging: l.{s.lineno}: the block is not an element of sketch_array")
            tuples[s.targets[0].id] = idx
        else:
            for c in ast.walk(s):
                if isinstance(c, ast.Call) and isinstance(c.func, ast.Attribute) and c.func.attr == "Process":
                    if proc is not None:
                        raise TranslatorError("parallel_merging: more than one Process(...) in the merger loop")
                    proc = c
    if proc is None:
        raise TranslatorError("parallel_merging: no Process(...) in the merger loop")
    kw = {k.arg: k.value for k in proc.keywords}
    if not (isinstance(kw.get("target"), ast.Name) and isinstance(kw.get("args"), ast.Tuple) and len(kw["args"].elts) == 2
            and all(isinstance(a, ast.Name) and a.id in tuples for a in kw["args"].elts)):
        raise TranslatorError("parallel_merging: Process(target=<name>, args=(<first>, <second>)) expected")
    target = kw["target"].id
    first, second = (tuples[a.id] for a in kw["args"].elts)
    # ---- the join loop only joins and looks at exit codes
    # ---- the survivors
    if not isinstance(f_keep.target, ast.Name) or f_keep.orelse:
        raise TranslatorError("parallel_merging: third for loop target")
    k = f_keep.target.id
    klo, khi, kst = _range_args(f_keep.iter, "parallel_merging, third for loop")
    app = f_keep.body[0]
    ok = (isinstance(app, ast.Expr) and isinstance(app.value, ast.Call) and isinstance(app.value.func, ast.Attribute)
          and app.value.func.attr == "append" and isinstance(app.value.func.value, ast.Name) and len(app.value.args) == 1)
    if not ok:
        raise TranslatorError("parallel_merging: the survivors loop does not start with <new>.append(sketch_array[<i>])")
    new = app.value.func.value.id
    kidx = _subscript_index(app.value.args[0], arr)
    if kidx is None:
        raise TranslatorError("parallel_merging: the survivor is not an element of sketch_array")
    for s in f_keep.body[1:]:
        for c in ast.walk(s):
            if isinstance(c, ast.Attribute) and c.attr == "append":
                raise TranslatorError("parallel_merging: a second append in the survivors loop")
    # after the loops: sketch_array = new; n = len(sketch_array)
    tail = [s for s in w.body[w.body.index(f_keep) + 1:] if isinstance(s, ast.Assign)]
    if [ast.unparse(s) for s in tail[:2]] != [f"{arr} = {new}", f"{n} = len({arr})"]:
        raise TranslatorError("parallel_merging: the round does not end with sketch_array = <new>; <n> = len(sketch_array)")
    # the name of the merged worker function must exist and merge its FIRST argument with its second
    mw = _find_func(hp, target)
    mbody = _strip_doc(mw)
    if len(mw.args.args) != 2:
        raise TranslatorError(f"{target}: two parameters expected")
    att = {}
    recv = None
    for s in mbody:
        if isinstance(s, ast.Assign) and isinstance(s.targets[0], ast.Name) and isinstance(s.value, ast.Call) \
                and getattr(s.value.func, "id", None) == "attach_shared_memory" and len(s.value.args) == 1 \
                and isinstance(s.value.args[0], ast.Starred) and isinstance(s.value.args[0].value, ast.Name):
            att[s.targets[0].id] = s.value.args[0].value.id
        elif isinstance(s, ast.Expr) and isinstance(s.value, ast.Call) and isinstance(s.value.func, ast.Attribute) \
                and s.value.func.attr == "merge":
            if recv is not None:
                raise TranslatorError(f"{target}: more than one merge call")
            a, b = s.value.func.value, s.value.args[0] if len(s.value.args) == 1 else None
            if not (isinstance(a, ast.Name) and isinstance(b, ast.Name) and a.id in att and b.id in att):
                raise TranslatorError(f"{target}: <attached>.merge(<attached>) expected")
            recv = (att[a.id], att[b.id])
    if recv is None:
        raise TranslatorError(f"{target}: no merge call")
    params = [a.arg for a in mw.args.args]
    recv_pos = params.index(recv[0])
    other_pos = params.index(recv[1])
    if recv_pos == other_pos:
        raise TranslatorError(f"{target}: merges a block with itself")
    nn, ii, kk = {n: "n_to_merge"}, {i: "i"}, {k: "i"}
    return [
        f"(* helpers.py parallel_merging l.{w.lineno}: the test of the while loop *)",
        f"Definition gen_pm_continue (n_to_merge : Z) : bool := {zcond(w.test, nn)}.\n",
        f"(* l.{f_start.lineno}: number of merger processes started in a round *)",
        f"Definition gen_pm_n_pairs (n_to_merge : Z) : Z := {zexpr(hi, nn)}.\n",
        f"(* l.{f_start.body[0].lineno}-{f_start.body[-1].end_lineno}: the elements of sketch_array given to the i-th merger, in the order of "
        f"{target}'s parameters; {target} (l.{mw.lineno}) merges parameter {recv_pos} with parameter {other_pos} *)",
        f"Definition gen_pm_receiver (i : Z) : Z := {zexpr([first, second][recv_pos], ii)}.",
        f"Definition gen_pm_other (i : Z) : Z := {zexpr([first, second][other_pos], ii)}.\n",
        f"(* l.{f_keep.lineno}: range(start, stop, step) of the survivors, and the element kept for each i *)",
        f"Definition gen_pm_keep_range (n_to_merge : Z) : Z * Z * Z := ({zexpr(klo, nn)}, {zexpr(khi, nn)}, {zexpr(kst, nn)}).",
        f"Definition gen_pm_keep_index (i : Z) : Z := {zexpr(kidx, kk)}.\n",
        f"(* l.{body[-1].lineno}: the element returned after the last round *)",
        f"Definition gen_pm_result_index : Z := {zexpr(ridx, {})}.\n",
    ]


def _fill_queue(hp):
    fn = _find_func(hp, "_fill_queue")
    params = [a.arg for a in fn.args.args]
    if len(params) < 3:
        raise TranslatorError("_fill_queue: parameters")
    q, items, nw = params[0], params[1], params[2]
    body = _strip_doc(fn)
    fors = [s for s in body if isinstance(s, ast.For)]
    if len(fors) != 2:
        raise TranslatorError(f"_fill_queue: expected two for loops, found {len(fors)}")
    f_items, f_pills = fors
    # every item is put on the queue, first thing in the loop, unconditionally
    it = f_items.iter
    src = it.args[0] if (isinstance(it, ast.Call) and getattr(it.func, "id", None) == "enumerate" and len(it.args) == 1) else it
    if not (isinstance(src, ast.Name) and src.id == items):
        raise TranslatorError("_fill_queue: the first loop does not run over the items")
    tgt = f_items.target.elts[-1] if isinstance(f_items.target, ast.Tuple) else f_items.target
    if not (isinstance(tgt, ast.Name) and ast.unparse(f_items.body[0]) == f"{q}.put({tgt.id})"):
        raise TranslatorError("_fill_queue: the first statement of the items loop is not queue.put(item)")
    lo, hi, st = _range_args(f_pills.iter, "_fill_queue, second for loop")
    if not (ast.unparse(lo) == "0" and ast.unparse(st) == "1"):
        raise TranslatorError("_fill_queue: the pill loop does not start at 0 with step 1")
    if [ast.unparse(s) for s in f_pills.body] != [f"{q}.put(None)"]:
        raise TranslatorError("_fill_queue: the pill loop is not exactly queue.put(None)")
    if body.index(f_pills) < body.index(f_items):
        raise TranslatorError("_fill_queue: pills before items")
    return [f"(* helpers.py _fill_queue l.{f_pills.lineno}: number of poison pills (None) put on the queue after all the items *)",
            f"Definition gen_fill_pills (n_workers : Z) : Z := {zexpr(hi, {nw: 'n_workers'})}.\n"]


HDR = ["(* GENERATED by harness/pytrans_helpers.py from the repository - do not edit.  Index arithmetic of helpers.py (Python ints = Z). *)",
       "From Coq Require Import ZArith Bool.", "Open Scope Z_scope.", ""]

PLAN = [("parallel_merging", _parallel_merging,
         [("gen_pm_continue", "(n_to_merge : Z) : bool", "false"), ("gen_pm_n_pairs", "(n_to_merge : Z) : Z", "-1"),
          ("gen_pm_receiver", "(i : Z) : Z", "-1"), ("gen_pm_other", "(i : Z) : Z", "-1"),
          ("gen_pm_keep_range", "(n_to_merge : Z) : Z * Z * Z", "(-1, -1, -1)"), ("gen_pm_keep_index", "(i : Z) : Z", "-1"),
          ("gen_pm_result_index", ": Z", "-1")]),
        ("_fill_queue", _fill_queue, [("gen_fill_pills", "(n_workers : Z) : Z", "-1")])]


def generate(repo):
    """({file name: text}, {tag: error}); never raises, the file always compiles"""
    out = list(HDR)
    errors = {}
    tree, perr = None, None
    try:
        tree = _parse(os.path.join(repo, "sketchnu", "helpers.py"))
    except Exception as e:
        perr = e
    for tag, fn, defs in PLAN:
        try:
            if tree is None:
                raise perr
            part = fn(tree)
            for name, _, _ in defs:
                if sum(p.startswith(f"Definition {name} ") for p in part) != 1:
                    raise TranslatorError(f"{tag}: definition {name} not produced")
            out += part
        except Exception as e:
            errors[f"kernels:helpers:{tag}"] = f"{type(e).__name__}: {e}"
            out.append("(* TRANSLATION FAILED (" + tag + "): " + str(e).replace("*)", "* )").replace("(*", "( *") + " *)")
            for name, sig, poison in defs:
                out.append(f"Definition {name} {sig} := {poison}.  (* translation failed *)\n")
    return {"KernelsHelpers.v": "\n".join(out) + "\n"}, errors


if __name__ == "__main__":
    import sys
    t, e = generate(sys.argv[1] if len(sys.argv) > 1 else "/repo")
    for k, v in t.items():
        print("=====", k)
        print(v)
    print("errors:", e)
