"""Regenerates section 9 of DESIGN.md (between the SEEDTABLE markers) from seeded/*/meta.json."""
import glob, json, os, re
HERE = os.path.dirname(os.path.dirname(os.path.abspath(__file__)))
rows = []
NOTES = json.load(open(os.path.join(HERE, "seeded", "NOTES.json"))) if os.path.exists(os.path.join(HERE, "seeded", "NOTES.json")) else {}
for d in sorted(glob.glob(os.path.join(HERE, "seeded", "*"))):
    mp = os.path.join(d, "meta.json")
    if not os.path.exists(mp):
        continue
    m = json.load(open(mp))
    name = m["name"]
    readme = os.path.join(d, "AGENT_README.md")
    what = NOTES.get(name, {}).get("what", "")
    caught, weak, missed = [], [], []
    for c in m["checks_run_against_changed_tree"]:
        if c["exit"] != 0 and c["violation_lines"] > c["without_input"]:
            caught.append(c["check"])
        elif c["exit"] != 0:
            weak.append(c["check"])
        else:
            missed.append(c["check"])
    rows.append((name, m["breaks_property"], what, caught, weak, missed, m["pinned_suite_on_changed_tree"].split(" in ")[0],
                 NOTES.get(name, {}).get("note", "")))
out = ["Each change below was written by an independent sub-agent that saw only the property text and a scratch worktree of the",
       "repository (nothing from /verif).  Each was confirmed here in a scratch worktree (`harness/seedtest.sh`): its demo passes on the",
       "clean tree and fails on the changed tree, and the pinned suite still passes on the changed tree.  Columns: checks that reported a",
       "VIOLATION with a concrete failing input / checks that reported only a broken obligation or correspondence",
       "(`no-failing-input-found`) / checks that were run and stayed quiet (the change does not break *their* property unless noted).",
       "",
       "| seeded change (`seeded/<name>/`) | breaks | what it does | caught with input | broken obligation only | quiet | suite |",
       "|---|---|---|---|---|---|---|"]
for name, prop, what, caught, weak, missed, suite, note in rows:
    out.append(f"| `{name}` | {prop} | {what} | {' '.join(caught) or '—'} | {' '.join(weak) or '—'} | {' '.join(missed) or '—'} | {suite} |")
notes = [f"* `{n}`: {v['note']}" for n, v in sorted(NOTES.items()) if v.get("note")]
if notes:
    out += ["", "Strengthening done because of a miss, and other remarks:", ""] + notes
txt = "\n".join(out) + "\n"
p = os.path.join(HERE, "DESIGN.md")
s = open(p).read()
if "<!-- SEEDTABLE-BEGIN -->" in s:
    s = re.sub(r"<!-- SEEDTABLE-BEGIN -->.*?<!-- SEEDTABLE-END -->", "<!-- SEEDTABLE-BEGIN -->\n" + txt + "<!-- SEEDTABLE-END -->", s, flags=re.S)
else:
    s = s.replace("(SECTION9)", "<!-- SEEDTABLE-BEGIN -->\n" + txt + "<!-- SEEDTABLE-END -->")
open(p, "w").write(s)
print(len(rows), "seeded changes tabulated")
