"""par_callbacks.py — importable top-level callbacks for helpers.parallel_add / helpers._worker.

Spawned children unpickle the callback by module name, so this module must be importable in
them: the harness puts /verif/harness on PYTHONPATH before calling parallel_add.  Keep it free of
heavy imports (every spawned child imports it).

An item is a picklable tuple  (idx, adds, ret, mode, cut):
  idx   position of the item in the stream
  adds  list of (key: bytes, multiplicity: int) the callback adds to EVERY sketch it is given
        (HyperLogLog ignores the multiplicity)
  ret   the number of records the callback reports
  mode  "ok"      apply all adds, return ret
        "before"  raise before touching the sketches
        "after"   apply adds[:cut] to every sketch, then raise
        "die"     in-process only: stands for the death of the worker (syncctx.Die)
        "exit"    real runs only: os._exit(3) without touching the sketches
"""
import os

_calls_in_this_process = [0]


def apply_adds(sketches, adds):
    for sk in sketches:
        is_hll = type(sk).__name__ == "HyperLogLog"
        for key, mult in adds:
            if is_hll:
                sk.add(key)
            else:
                sk.add(key, mult)


def _trace(trace_path, idx, sketches=()):
    """side channel: (pid, item index, name of the shared-memory block the first sketch is attached
    to); the block name tells the harness which worker (creation order in parallel_add) this is"""
    if trace_path:
        name = "-"
        if sketches:
            name = getattr(getattr(sketches[0], "existing_shm", None), "name", "-") or "-"
        fd = os.open(trace_path, os.O_WRONLY | os.O_APPEND | os.O_CREAT, 0o644)
        try:
            os.write(fd, ("%d %d %s\n" % (os.getpid(), idx, name)).encode())
        finally:
            os.close(fd)


def process_item(item, *sketches, trace_path=None, die_on_kth=None, die_flag=None, delay=None, slow_worker0=None, die_signal=False, **kwargs):
    """The callback handed to parallel_add / _worker by the C08 and C19 checks.
    delay (real runs only): seconds to sleep per item, so that a worker that comes up first does not
    drain the queue before the others have finished importing the package."""
    if not isinstance(item, tuple):
        # a queue item may be any picklable object, including falsy ones (shard id 0, b"", ""): the harness
        # sends such an object for some items and passes the table that maps it to the item tuple
        item = kwargs["item_table"][item]
    idx, adds, ret, mode, cut = item
    _calls_in_this_process[0] += 1
    if slow_worker0 and _calls_in_this_process[0] == 1:
        # real runs: one chosen worker (by creation index; the spawn context names parallel_add's processes
        # SpawnProcess-1 (log), -2 (fill), -3 (worker 0), -4 (worker 1), ...) is slow on its first item, so that
        # workers created after it finish - and the merging could start - while it is still busy
        import multiprocessing
        import time
        w_idx, secs = slow_worker0
        nm = multiprocessing.current_process().name
        if nm.rsplit("-", 1)[-1] == str(3 + int(w_idx)):
            time.sleep(secs)
    _trace(trace_path, idx, sketches)
    if delay:
        import time
        time.sleep(delay)
    if die_on_kth is not None and _calls_in_this_process[0] == die_on_kth and die_flag:
        # exactly one worker dies: the first one to reach its k-th item
        try:
            fd = os.open(die_flag, os.O_WRONLY | os.O_CREAT | os.O_EXCL, 0o644)
            os.write(fd, ("%d %d\n" % (os.getpid(), idx)).encode())
            os.close(fd)
            if die_signal:
                import signal
                os.kill(os.getpid(), signal.SIGKILL)      # what the OOM killer does: negative exit code
                time_mod = __import__("time")
                time_mod.sleep(60)
            os._exit(3)
        except FileExistsError:
            pass
    if mode == "before":
        # exceptions of different shapes, incl. ones without arguments (bare assert, KeyError())
        if idx % 3 == 1:
            raise AssertionError()
        if idx % 3 == 2:
            raise KeyError()
        raise RuntimeError("injected fault before item %d" % idx)
    if mode == "after":
        apply_adds(sketches, adds[:cut])
        if idx % 3 == 1:
            raise IndexError()
        raise RuntimeError("injected fault inside item %d after %d adds" % (idx, cut))
    if mode == "die":
        import syncctx
        raise syncctx.Die(3)
    if mode == "exit":
        os._exit(3)
    apply_adds(sketches, adds)
    return ret
