"""shm_common.py — helpers of the C16 check (shm suite): construction, layout observation, snapshots."""
import os

ARRAYS = {"cms": ["cms", "n_added_records"], "hll": ["registers"],
          "hh": ["lhh", "lhh_count", "key_lens", "n_added_records"]}
ITEMSIZE = {"CountMinLinear": 4, "CountMinLog16": 2, "CountMinLog8": 1}
KIND = {"CountMinLinear": "cms", "CountMinLog16": "cms", "CountMinLog8": "cms", "HeavyHitters": "hh",
        "HyperLogLog": "hll"}


def make(sk, cls, cfg, shared):
    """construct through the public constructors; cfg is the positional configuration"""
    cm, hl, hh = sk.countmin, sk.hyperloglog, sk.heavyhitters
    if cls == "CountMinLinear":
        return cm.CountMinLinear(cfg[0], cfg[1], shared_memory=shared)
    if cls == "CountMinLog16":
        return cm.CountMinLog16(cfg[0], cfg[1], cfg[2], cfg[3], shared_memory=shared)
    if cls == "CountMinLog8":
        return cm.CountMinLog8(cfg[0], cfg[1], cfg[2], cfg[3], shared_memory=shared)
    if cls == "HeavyHitters":
        return hh.HeavyHitters(cfg[0], cfg[1], cfg[2], shared_memory=shared)
    return hl.HyperLogLog(cfg[0], cfg[1], shared_memory=shared)


def requested_size(cls, cfg):
    """what the constructor asks SharedMemory for (independent arithmetic: bytes per cell)"""
    if cls in ITEMSIZE:
        return ITEMSIZE[cls] * cfg[0] * cfg[1] + 16
    if cls == "HeavyHitters":
        w, d, mkl = cfg[:3]
        return w * d * (mkl + 4 + 1) + 16
    return 1 << cfg[0]


def model_params(cls, cfg):
    """(kind, a, b, c) for Shm.zparams"""
    if cls in ITEMSIZE:
        return (0, ITEMSIZE[cls], cfg[0], cfg[1])
    if cls == "HyperLogLog":
        return (1, cfg[0], 0, 0)
    return (2, cfg[0], cfg[1], cfg[2])


def block_of(obj):
    """the SharedMemory object behind a sketch (owner: .shm, attached view: .existing_shm)"""
    shm = getattr(obj, "shm", None)
    return shm if shm is not None else getattr(obj, "existing_shm")


def observe_layout(np, obj, kind):
    """[(byte offset inside the block, element count, itemsize)] per array, and len(buf), shm.size"""
    shm = block_of(obj)
    base = np.frombuffer(shm.buf, np.uint8)
    base_addr = base.__array_interface__["data"][0]
    L = len(base)
    out = []
    for name in ARRAYS[kind]:
        arr = getattr(obj, name)
        out.append([arr.__array_interface__["data"][0] - base_addr, int(arr.size), int(arr.itemsize)])
        del arr
    del base
    return out, L, int(shm.size)


def block_bytes(obj):
    return bytes(block_of(obj).buf)


def snap(obj, kind):
    """complete array state as plain python (copies: no exported pointers are kept)"""
    d = {}
    for name in ARRAYS[kind]:
        arr = getattr(obj, name)
        d[name] = (str(arr.dtype), tuple(int(x) for x in arr.shape), arr.tobytes())
        del arr
    return d


def values(np, obj, kind):
    """flattened element values per array (python ints), in ARRAYS order"""
    out = []
    for name in ARRAYS[kind]:
        arr = getattr(obj, name)
        out.append([int(x) for x in arr.reshape(-1)])
        del arr
    return out


def shm_entry_exists(name):
    return os.path.exists("/dev/shm/" + name.lstrip("/"))


def make_numba_seed():
    """np.random.seed inside nopython code seeds Numba's own generator (the one _rand refills from)"""
    from numba import njit
    import numpy as np

    @njit
    def _seed(x):
        np.random.seed(x)
    _seed(1)
    return _seed
