"""pyref.py — third, pure-Python reference of FastHash / MurmurHash3_x86_32 written from
the published C sources (smhasher fasthash.cpp / MurmurHash3.cpp), independent of
/repo and of the Coq model.  Used by the violation search (the property is an equation)."""
M64 = (1 << 64) - 1
M32 = (1 << 32) - 1


def _mix(h):
    h ^= h >> 23
    h = (h * 0x2127599BF4325C37) & M64
    h ^= h >> 47
    return h


def fasthash64(buf: bytes, seed: int) -> int:
    m = 0x880355F21E6D1965
    n = len(buf)
    h = (seed ^ ((n * m) & M64)) & M64
    end = n - (n % 8)
    for i in range(0, end, 8):
        v = int.from_bytes(buf[i:i + 8], "little")
        h ^= _mix(v)
        h = (h * m) & M64
    if n % 8:
        v = int.from_bytes(buf[end:], "little")
        h ^= _mix(v)
        h = (h * m) & M64
    return _mix(h)


def fasthash32(buf: bytes, seed: int) -> int:
    h = fasthash64(buf, seed)
    return (h - (h >> 32)) & M32


def _rotl32(x, r):
    return ((x << r) | (x >> (32 - r))) & M32


def murmur3(buf: bytes, seed: int) -> int:
    c1, c2 = 0xCC9E2D51, 0x1B873593
    n = len(buf)
    h = seed & M32
    end = n - (n % 4)
    for i in range(0, end, 4):
        k = int.from_bytes(buf[i:i + 4], "little")
        k = (k * c1) & M32
        k = _rotl32(k, 15)
        k = (k * c2) & M32
        h ^= k
        h = _rotl32(h, 13)
        h = (h * 5 + 0xE6546B64) & M32
    if n % 4:
        k = int.from_bytes(buf[end:], "little")
        k = (k * c1) & M32
        k = _rotl32(k, 15)
        k = (k * c2) & M32
        h ^= k
    h ^= n & M32
    h ^= h >> 16
    h = (h * 0x85EBCA6B) & M32
    h ^= h >> 13
    h = (h * 0xC2B2AE35) & M32
    h ^= h >> 16
    return h
