"""pytrans_log.py — translator plug-in (see translate.generate): the log-counter kernels of countmin.py.

Regenerated on every run into coq/generated/KernelsLog.v:
  _rand            gen_rand                 pointer logic: (length of the refill or 0, index read, new rand_ptr) from rand_ptr
  _log_counter     gen_log_counter_step     `one = uint16(1)` + the body of `for i in range(value)`: None = the early
                                            return, Some (counter, 1 if _rand was called else 0)
                   gen_log_counter_ret      the cast of the returned pair to the declared Tuple((uint16, uint64))
  _query_log16/8   gen_query_logN_init / gen_query_logN_step     as pytrans_cms does for _query_linear
  _add_log16/8     gen_add_logN_n_added (first statement), gen_add_logN_post (from the _log_counter call to the update
                   loop: None = the early return, Some new_count), gen_add_logN_cell (body of the update loop)
  _merge_log16/8   gen_merge_logN_logq (the expression with np.log), gen_merge_logN_cell (body of the cell loop),
                   gen_merge_logN_n_added / _n_records (the two counter updates)
tied by proof to the hand-written model theories/CmsLog.v in theories/KernelTieLog{Rand,Counter,Query,Add,Merge}.v.

Integer code is translated by pytrans_cms.CellTrans unchanged (64-bit registers, `+ - *` followed by wrap64, casts
uintN(e) -> wrapN, scalar parameters narrower than 64 bits wrapped at region entry, array cells as scalars with the
store cast of the element type, stores only in tail position, index stability).  What this module adds:

* a TYPED translator (MixTrans) for regions that mix integers and float64.  Every variable has a static type, Z or
  float, updated at each assignment (`cprime = uint16(cprime)` re-types cprime).  A statement list is translated in
  continuation style: `if c: A else: B; rest` becomes `if c then [A; rest] else [B; rest]` (the continuation is
  re-translated in each branch under that branch's types; nothing is joined, so a variable assigned in one branch
  only and used afterwards is an unbound-name error unless the other branch ends in `return`).
  float64 `+ - * /` and unary minus are PrimFloat.add/sub/mul/div/opp, comparisons are PrimFloat.ltb/leb/eqb with the
  operands swapped for `>`/`>=` (IEEE: every comparison with a NaN is false in both forms; integer `>`/`>=` are written
  with `<?`/`<=?` the same way, so `a >= b` and `b <= a` give the same text), float literals are exact hexadecimal
  PrimFloat literals.  Local variable and parameter names are taken from the source (parameters by position, checked
  against the @njit signature), so a rename is not a change; the generated definitions are compared with what the tie
  files expect by TYPE only.  Conversions (fixed definitions in the header of the generated file):
    - unsigned integer -> float64 (explicit `float64(e)` and the implicit conversion of the integer operand of a
      mixed operation or comparison, Numba's float64-wins rule):  gen_u64f e, LLVM uitofp of a uint64 register
      (round to nearest even; `of_uint63` below 2^63).  Integer LITERALS in float context are converted at translation
      time (exact, |n| < 2^53).
    - float64 -> uintN (`uintN(x)`, and the store of a float into an integer cell):  wrapN (gen_f2z x), truncation
      toward zero then reduction modulo 2^N.  LLVM's fptoui is only defined when the truncated value fits the
      target type; for other inputs this is the x86 behaviour (TRUSTED reading, same as the model's castc (f2z_trunc v)).
* oracles, passed to the generated functions as arguments (Section variables of the tie files, never axioms):
    fpow a b          `a ** b` on float64 (libm pow)
    c2v c nr base     the call `_counter2value(c, nr, base)`; arguments are cast to the callee's declared parameter
                      types (read from its @njit signature) exactly like any call boundary
    flog x            `np.log(x)`
    logq v            inside gen_merge_logN_cell the one assignment whose right-hand side contains np.log is replaced
                      by `logq v`, v the only local it mentions (everything else it mentions must be a scalar
                      parameter of the kernel); the replaced expression itself is emitted as gen_merge_logN_logq
                      (flog, base, num_reserved, v) so that logq := gen_merge_logN_logq flog base nr is the source.
* calls that mutate state are never translated as expressions.  They are recognised by exact shape and replaced:
    `rand_batch[:] = np.random.rand(N)`   first statement of the refill branch of _rand -> `refill = N` (refill = 0
                                          before the `if`); the element read of the `return` is emitted as its index
                                          expression only.  That the read sees the NEW batch when refill > 0 is part of
                                          the hand-written assembly (KernelTieLogRand.rand_assembled), as in CmsLog.rand.
    `X, P = _rand(A, P)` in _log_counter  -> `drew = 1` (drew = 0 at the start of the iteration); X becomes a float
                                          parameter of the region (the number the call returns) and may only be read in
                                          the statements that follow the call in the same block; A and P are not
                                          otherwise mentioned in the region except by `return counter, P`.
    `min_count = _query_logN(...)`, `new_count, rand_ptr = _log_counter(min_count, ...)` in _add_logN: checked to be
                                          exactly these statements with exactly these arguments; the regions before,
                                          between and after them are translated separately.
  The COMPOSITION of the regions of one kernel (and therefore that distinct array parameters do not alias across
  regions) is hand-written in the tie files' `*_assembled` definitions; loop headers are checked for shape
  (`for row in range(depth)` ...) and otherwise hand-transcribed, as in pytrans_cms.
* `return counter, rand_ptr` inside the loop of _log_counter is the region's None; both returns of the function must
  be this same pair, and gen_log_counter_ret is the cast the declared return type applies to it.
  `return rand_ptr` in _add_logN (early and final, checked identical) is the region's None.

Numba facts this relies on (read off inspect_types() of the pinned version, not re-derived here): inside the loop of
_log_counter `counter` is a uint64 register (uint16 + uint16 is typed uint64 and the loop variable unifies to it);
`float64(counter)` is therefore a uint64 conversion — gen_u64f is used for every width, it agrees with the narrower
conversions on their ranges.

Scalar parameters of the kernel that a region takes are wrapped to their declared width at region entry (the pytrans_cms
convention) even when the region is a loop body and the variable is loop-carried: `counter` in _log_counter holds a value
below 2^16 at the start of every iteration (entry cast of the uint16 parameter, then only ever incremented while below
uint_maxval); the tie lemmas assume 0 <= counter < 2^16 and prove that the iteration keeps it there.

Fail-soft per kernel: a kernel that cannot be translated gets POISONED definitions of the same type (integer results
-1, float results nan), the error is reported under `kernels:countmin:<function>`, the file always compiles and only
that kernel's tie file fails.  Functions are located by name; line numbers appear in comments only.
"""
import ast
import copy
import os

from translate import TranslatorError, _parse, _find_func, _strip_doc, _float_lit
from pytrans import WIDTH
from pytrans_cms import CellTrans, Cells, COQ_RESERVED, sig_types, _check_tail_stores, _check_index_stability, split_query

FNAME = "KernelsLog.v"
SOURCE = "countmin.py"

ORACLE_BINDER = {"fpow": "(fpow : float -> float -> float)", "c2v": "(c2v : Z -> Z -> float -> float)",
                 "flog": "(flog : float -> float)", "logq": "(logq : float -> float)"}
RESERVED = set(COQ_RESERVED) | set(ORACLE_BINDER) | {"gen_u64f", "gen_z2f", "gen_f2z", "float", "nan", "Z", "bool", "true", "false"}

F = ("F",)


def _isZ(t):
    return t[0] == "Z"


def _names(node):
    return {n.id for n in ast.walk(node) if isinstance(n, ast.Name)}


def _all_names(fn):
    return _names(fn) | {a.arg for a in fn.args.args}


# ------------------------------------------------------------------ typed translator
class MixTrans:
    """integers (Z, IntTrans' 64-bit register rules) and float64 (PrimFloat), continuation style"""

    def __init__(self, tree, fn, oracles=(), calls=None):
        self.tree = tree
        self.fn = fn
        self.oracles = tuple(oracles)       # Gallina oracle names this region may use, in binder order
        self.calls = dict(calls or {})      # source callee name -> oracle name
        self.void = None
        self.size = 0

    # -------- conversions
    def tofloat(self, t, ty):
        if ty == F:
            return t
        if len(ty) == 3:                    # integer literal
            v = ty[2]
            if abs(v) >= 2 ** 53:
                raise TranslatorError("integer literal too large for an exact float64")
            return _float_lit(float(v))
        return f"(gen_u64f {t})"

    def toint(self, t, ty, width):
        """value passed where a uintN is declared (call boundary, cast, store)"""
        if ty == F:
            return f"(wrap{width} (gen_f2z {t}))"
        if len(ty) == 3 and ty[2] < 0:
            raise TranslatorError("negative literal cast to an unsigned type")
        return f"(wrap{width} {t})"

    def oracle(self, name):
        if name not in self.oracles:
            raise TranslatorError(f"{self.fn.name}: oracle {name} is not available in this region")
        return name

    # -------- expressions: (term, type); type = ("Z", width) | ("Z", None, literal value) | ("F",)
    def expr(self, e, env):
        if isinstance(e, ast.Name):
            if e.id not in env:
                raise TranslatorError(f"{self.fn.name}: l.{e.lineno}: {e.id} is not bound in the region (bound: {sorted(env)})")
            return e.id, env[e.id]
        if isinstance(e, ast.Constant):
            if isinstance(e.value, bool) or not isinstance(e.value, (int, float)):
                raise TranslatorError("unsupported constant")
            if isinstance(e.value, int):
                return (str(e.value) if e.value >= 0 else f"({e.value})"), ("Z", None, e.value)
            return _float_lit(e.value), F
        if isinstance(e, ast.UnaryOp) and isinstance(e.op, ast.USub):
            t, ty = self.expr(e.operand, env)
            if ty == F:
                return f"(PrimFloat.opp {t})", F
            if len(ty) == 3:
                return f"({-ty[2]})", ("Z", None, -ty[2])
            raise TranslatorError("unary minus on an unsigned integer")
        if isinstance(e, ast.Call):
            if e.keywords:
                raise TranslatorError("keyword arguments")
            fname = e.func.id if isinstance(e.func, ast.Name) else ast.unparse(e.func)
            args = [self.expr(a, env) for a in e.args]
            if fname in WIDTH and len(args) == 1:
                return self.toint(args[0][0], args[0][1], WIDTH[fname]), ("Z", WIDTH[fname])
            if fname == "float64" and len(args) == 1:
                return self.tofloat(*args[0]), F
            if fname in ("min", "max") and len(args) == 2 and all(_isZ(t) for _, t in args):
                return f"(Z.{fname} {args[0][0]} {args[1][0]})", ("Z", 64)
            if fname == "np.log" and len(args) == 1:
                return f"({self.oracle('flog')} {self.tofloat(*args[0])})", F
            if fname == "logq" and len(args) == 1 and args[0][1] == F and getattr(e, "_synthetic", False):
                return f"({self.oracle('logq')} {args[0][0]})", F
            if fname in self.calls:
                callee = _find_func(self.tree, fname)
                types, rt = sig_types(callee)
                pnames = [a.arg for a in callee.args.args]
                if len(pnames) != len(args):
                    raise TranslatorError(f"call {fname}: arity")
                out = []
                for p, (t, ty) in zip(pnames, args):
                    k, pt = types[p]
                    if k != "scalar":
                        raise TranslatorError(f"call {fname}: parameter {p} is not a scalar")
                    if pt in WIDTH:
                        out.append(self.toint(t, ty, WIDTH[pt]))
                    elif pt == "float64":
                        out.append(self.tofloat(t, ty))
                    else:
                        raise TranslatorError(f"call {fname}: parameter type {pt}")
                if rt != "float64":
                    raise TranslatorError(f"call {fname}: return type {rt}")
                return "(" + self.oracle(self.calls[fname]) + " " + " ".join(out) + ")", F
            raise TranslatorError(f"unsupported call {fname}")
        if isinstance(e, ast.BinOp):
            a, ta = self.expr(e.left, env)
            b, tb = self.expr(e.right, env)
            op = type(e.op)
            if _isZ(ta) and _isZ(tb):
                if (len(ta) == 3 and ta[2] < 0) or (len(tb) == 3 and tb[2] < 0):
                    raise TranslatorError("negative literal in unsigned arithmetic")
                if op in (ast.Add, ast.Sub, ast.Mult):
                    sym = {ast.Add: "+", ast.Sub: "-", ast.Mult: "*"}[op]
                    return f"(wrap64 ({a} {sym} {b}))", ("Z", 64)
                raise TranslatorError(f"unsupported integer operator {op.__name__}")
            fa, fb = self.tofloat(a, ta), self.tofloat(b, tb)
            if op is ast.Pow:
                return f"({self.oracle('fpow')} {fa} {fb})", F
            name = {ast.Add: "add", ast.Sub: "sub", ast.Mult: "mul", ast.Div: "div"}.get(op)
            if name is None:
                raise TranslatorError(f"unsupported float operator {op.__name__}")
            return f"(PrimFloat.{name} {fa} {fb})", F
        raise TranslatorError(f"unsupported expression {ast.dump(e)[:80]}")

    def cond(self, t, env):
        if not (isinstance(t, ast.Compare) and len(t.ops) == 1):
            raise TranslatorError("unsupported condition")
        a, ta = self.expr(t.left, env)
        b, tb = self.expr(t.comparators[0], env)
        op = type(t.ops[0])
        if _isZ(ta) and _isZ(tb):
            if (len(ta) == 3 and ta[2] < 0) or (len(tb) == 3 and tb[2] < 0):
                raise TranslatorError("negative literal compared with an unsigned integer")
            return {ast.NotEq: f"(negb ({a} =? {b}))", ast.Eq: f"({a} =? {b})", ast.Lt: f"({a} <? {b})",
                    ast.LtE: f"({a} <=? {b})", ast.Gt: f"({b} <? {a})", ast.GtE: f"({b} <=? {a})"}[op]
        fa, fb = self.tofloat(a, ta), self.tofloat(b, tb)
        return {ast.Lt: f"(PrimFloat.ltb {fa} {fb})", ast.LtE: f"(PrimFloat.leb {fa} {fb})",
                ast.Gt: f"(PrimFloat.ltb {fb} {fa})", ast.GtE: f"(PrimFloat.leb {fb} {fa})",
                ast.Eq: f"(PrimFloat.eqb {fa} {fb})", ast.NotEq: f"(negb (PrimFloat.eqb {fa} {fb}))"}[op]

    # -------- statements
    def block(self, stmts, tail, env):
        self.size += 1
        if self.size > 400:
            raise TranslatorError(f"{self.fn.name}: region too large after branch duplication")
        if not stmts:
            return tail(env)
        s, rest = stmts[0], list(stmts[1:])
        if isinstance(s, ast.Return):
            if s.value is None or (isinstance(s.value, ast.Constant) and s.value.value is None):
                if self.void is None:
                    raise TranslatorError("return in a region that has no early exit")
                return self.void
            raise TranslatorError(f"{self.fn.name}: l.{s.lineno}: return of a value inside a region")
        if isinstance(s, ast.Assign) and len(s.targets) == 1 and isinstance(s.targets[0], ast.Name):
            n = s.targets[0].id
            t, ty = self.expr(s.value, env)
            if len(ty) == 3:
                if ty[2] < 0:
                    raise TranslatorError("negative literal assigned")
                ty = ("Z", 64)
            if n in RESERVED:
                raise TranslatorError(f"{self.fn.name}: variable name {n}")
            env2 = dict(env)
            env2[n] = ty
            return f"let {n} := {t} in\n  {self.block(rest, tail, env2)}"
        if isinstance(s, ast.AugAssign) and isinstance(s.target, ast.Name):
            new = ast.Assign(targets=[ast.Name(id=s.target.id, ctx=ast.Store())],
                             value=ast.BinOp(left=ast.Name(id=s.target.id, ctx=ast.Load(), lineno=s.lineno, col_offset=s.col_offset),
                                             op=s.op, right=s.value))
            ast.copy_location(new, s)
            return self.block([new] + rest, tail, env)
        if isinstance(s, ast.If):
            c = self.cond(s.test, env)
            return (f"if {c} then ({self.block(list(s.body) + rest, tail, env)})\n  "
                    f"else ({self.block(list(s.orelse) + rest, tail, env)})")
        raise TranslatorError(f"{self.fn.name}: l.{s.lineno}: unsupported statement {type(s).__name__}")

    def region(self, gname, stmts, params, results, option=False, local_types=None, cells=True):
        """Definition gname (oracles) (params) : results.  params: names — scalar parameters of the kernel (typed and
        wrapped at entry from the @njit signature), array cells as rewritten by pytrans_cms.Cells (typed by the element
        type), or locals typed by local_types (name -> "F" | "Z")."""
        fn = self.fn
        types, _ = sig_types(fn)
        arrays = {n: t for n, (k, t) in types.items() if k == "array"}
        local_types = dict(local_types or {})
        new = [copy.deepcopy(s) for s in stmts]
        cellinfo = Cells(fn.name, arrays)
        if cells:
            new = [cellinfo.visit(s) for s in new]
            for s in new:
                ast.fix_missing_locations(s)
            _check_tail_stores(fn.name, new)
            _check_index_stability(fn.name, new, cellinfo)
            for c in cellinfo.stored:
                for d, used in cellinfo.index_names.items():
                    if c in used:
                        raise TranslatorError(f"{fn.name}: {c} is stored and used as an index of {d}")
            for c in sorted(cellinfo.used):
                if c not in params:
                    raise TranslatorError(f"{fn.name}: array element {c} is not a parameter of region {gname}")
        for s in new:
            for n in ast.walk(s):
                if isinstance(n, ast.Subscript):
                    raise TranslatorError(f"{fn.name}: l.{n.lineno}: unsupported subscript {ast.unparse(n)}")
        env, pre, binders = {}, "", []
        for p in params:
            if p in RESERVED or not p.isidentifier():
                raise TranslatorError(f"{fn.name}: name {p}")
            k, t = types.get(p, (None, None))
            if p in local_types:
                ty = F if local_types[p] == "F" else ("Z", 64)
            elif k == "scalar":
                if t in WIDTH:
                    ty = ("Z", WIDTH[t])
                    if WIDTH[t] < 64:
                        pre += f"let {p} := wrap{WIDTH[t]} {p} in\n  "
                elif t == "float64":
                    ty = F
                else:
                    raise TranslatorError(f"{fn.name}: parameter type {t} of {p}")
            elif cells and p in cellinfo.first:
                arr = [a for a in arrays if p.startswith(a + "_")]
                arr.sort(key=len)
                if not arr or arrays[arr[-1]] not in WIDTH:
                    raise TranslatorError(f"{fn.name}: element type of {p}")
                ty = ("Z", WIDTH[arrays[arr[-1]]])
            else:
                raise TranslatorError(f"{fn.name}: {p} is neither a scalar parameter, an array cell of the region nor a typed local")
            env[p] = ty
            binders.append((p, "float" if ty == F else "Z"))
        rtypes = []

        def tail(env2):
            got = []
            for r in results:
                if r not in env2:
                    raise TranslatorError(f"{fn.name}: result {r} is not defined when region {gname} ends")
                got.append("float" if env2[r] == F else "Z")
            if rtypes and rtypes[0] != got:
                raise TranslatorError(f"{fn.name}: results of region {gname} have different types on different paths")
            rtypes.append(got)
            tup = results[0] if len(results) == 1 else "(" + ", ".join(results) + ")"
            return f"Some {tup}" if option else tup

        self.void = "None" if option else None
        self.size = 0
        try:
            term = self.block(new, tail, env)
        finally:
            self.void = None
        if not rtypes:
            raise TranslatorError(f"{fn.name}: region {gname} never falls through")
        rty = rtypes[0][0] if len(results) == 1 else "(" + " * ".join(rtypes[0]) + ")"
        if option:
            rty = f"option {rty}"
        return f"Definition {gname} {_binders(self.oracles, binders)} : {rty} :=\n  {pre}{term}.\n"


def _binders(oracles, params):
    """oracle binders, then the parameters grouped by runs of equal type"""
    out = [ORACLE_BINDER[o] for o in oracles]
    i = 0
    while i < len(params):
        j = i
        while j < len(params) and params[j][1] == params[i][1]:
            j += 1
        out.append("(" + " ".join(p for p, _ in params[i:j]) + " : " + params[i][1] + ")")
        i = j
    return " ".join(out)


def _c(text):
    """a Coq comment (never nested, never closed early by source text)"""
    return "(* " + text.replace("(*", "( *").replace("*)", "* )") + " *)"


def _ln(a, b=None):
    """line range of a node / of two nodes, for comments only"""
    lo, hi = a.lineno, (b if b is not None else a).end_lineno
    return f"l.{lo}" if lo == hi else f"l.{lo}-{hi}"


def _is_none(v):
    return v is None or (isinstance(v, ast.Constant) and v.value is None)


def _fresh(fn, *names):
    used = _all_names(fn)
    for n in names:
        if n in used:
            raise TranslatorError(f"{fn.name}: the source uses the name {n}, which the translator needs for itself")


def _ret_tuple_types(fn):
    """declared return type types.Tuple((t1, t2))"""
    for d in fn.decorator_list:
        if isinstance(d, ast.Call) and getattr(d.func, "id", None) == "njit" and d.args and isinstance(d.args[0], ast.Call):
            f = d.args[0].func
            if (isinstance(f, ast.Call) and ast.unparse(f.func) == "types.Tuple" and len(f.args) == 1
                    and isinstance(f.args[0], ast.Tuple) and all(isinstance(x, ast.Name) for x in f.args[0].elts)):
                return [x.id for x in f.args[0].elts]
    raise TranslatorError(f"{fn.name}: declared return type is not types.Tuple((..., ...))")


def _params(fn, kinds):
    """the kernel's parameter names, by position; kinds: expected (kind, type) per position from the @njit signature"""
    types, _ = sig_types(fn)
    names = [a.arg for a in fn.args.args]
    got = [types[n] for n in names]
    if got != list(kinds):
        raise TranslatorError(f"{fn.name}: parameter types {got} != {list(kinds)}")
    return names


def _same_shape(fn, body, want):
    norm = lambda names: ["Assign" if n == "AugAssign" else n for n in names]
    got = [type(x).__name__ for x in body]
    if norm(got) != norm(want):
        raise TranslatorError(f"{fn.name}: unexpected statement shape {got}")


def _loop(fn, s, bound, fns=("range",)):
    """`for <name> in range(<bound>)`: returns the loop variable (local names are taken from the source)"""
    ok = (isinstance(s, ast.For) and isinstance(s.target, ast.Name) and not s.orelse
          and isinstance(s.iter, ast.Call) and getattr(s.iter.func, "id", None) in fns and len(s.iter.args) == 1
          and not s.iter.keywords and isinstance(s.iter.args[0], ast.Name) and s.iter.args[0].id == bound)
    if not ok:
        raise TranslatorError(f"{fn.name}: l.{s.lineno}: expected `for <variable> in {'/'.join(fns)}({bound})`")
    return s.target.id


def _target(fn, s, what):
    if not (isinstance(s, ast.Assign) and len(s.targets) == 1 and isinstance(s.targets[0], ast.Name)):
        raise TranslatorError(f"{fn.name}: l.{s.lineno}: expected the assignment of {what} to a local")
    return s.targets[0].id


U16, U8, U64, F64 = ("scalar", "uint16"), ("scalar", "uint8"), ("scalar", "uint64"), ("scalar", "float64")


# ------------------------------------------------------------------ _rand
def _rand(cm):
    fn = _find_func(cm, "_rand")
    body = _strip_doc(fn)
    _same_shape(fn, body, ["If", "Return"])
    _fresh(fn, "refill", "index")
    batch, ptr = _params(fn, [("array", "float64"), U64])
    if _ret_tuple_types(fn) != ["float64", "uint64"]:
        raise TranslatorError("_rand: declared return type is not Tuple((float64, uint64))")
    iff, ret = copy.deepcopy(body[0]), body[1]
    if not iff.body:
        raise TranslatorError("_rand: empty refill branch")
    st = iff.body[0]
    ok = (isinstance(st, ast.Assign) and len(st.targets) == 1 and isinstance(st.targets[0], ast.Subscript)
          and isinstance(st.targets[0].value, ast.Name) and st.targets[0].value.id == batch
          and isinstance(st.targets[0].slice, ast.Slice) and st.targets[0].slice.lower is None
          and st.targets[0].slice.upper is None and st.targets[0].slice.step is None
          and isinstance(st.value, ast.Call) and ast.unparse(st.value.func) == "np.random.rand" and len(st.value.args) == 1
          and not st.value.keywords and isinstance(st.value.args[0], ast.Constant) and isinstance(st.value.args[0].value, int)
          and not isinstance(st.value.args[0].value, bool) and st.value.args[0].value >= 0)
    if not ok:
        raise TranslatorError(f"_rand: the first statement of the `if` branch is not {batch}[:] = np.random.rand(<literal>)")
    iff.body[0] = ast.copy_location(ast.Assign(targets=[ast.Name(id="refill", ctx=ast.Store())],
                                               value=ast.Constant(value=st.value.args[0].value)), st)
    for n in ast.walk(iff):
        if isinstance(n, ast.Name) and n.id == batch:
            raise TranslatorError(f"_rand: l.{n.lineno}: {batch} is mentioned again inside the if statement")
    v = ret.value
    if not (isinstance(v, ast.Tuple) and len(v.elts) == 2 and isinstance(v.elts[0], ast.Subscript)
            and isinstance(v.elts[0].value, ast.Name) and v.elts[0].value.id == batch
            and not isinstance(v.elts[0].slice, (ast.Slice, ast.Tuple))
            and isinstance(v.elts[1], ast.Name) and v.elts[1].id == ptr):
        raise TranslatorError(f"_rand: does not return ({batch}[<index>], {ptr})")
    if batch in _names(v.elts[0].slice):
        raise TranslatorError(f"_rand: the index of the returned element mentions {batch}")
    pre = ast.copy_location(ast.Assign(targets=[ast.Name(id="refill", ctx=ast.Store())], value=ast.Constant(value=0)), iff)
    idx = ast.copy_location(ast.Assign(targets=[ast.Name(id="index", ctx=ast.Store())], value=v.elts[0].slice), ret)
    stmts = [ast.fix_missing_locations(x) for x in (pre, iff, idx)]
    t = MixTrans(cm, fn)
    return [_c(f"countmin.py _rand {_ln(body[0], body[1])}: (length of the refill `{batch}[:] = np.random.rand(N)` or 0, "
               f"index of the element returned, new {ptr})"),
            t.region("gen_rand", stmts, [ptr], ["refill", "index", ptr], cells=False)]


# ------------------------------------------------------------------ _log_counter
def _log_counter(cm):
    fn = _find_func(cm, "_log_counter")
    body = _strip_doc(fn)
    _same_shape(fn, body, ["Assign", "For", "Return"])
    _fresh(fn, "drew")
    P = _params(fn, [U16, U16, U16, F64, ("array", "float64"), U64, U64])
    counter, nr, umax, base, rand_nums, ptr, value = P
    rts = _ret_tuple_types(fn)
    if len(rts) != 2 or rts[0] not in WIDTH or rts[1] not in WIDTH:
        raise TranslatorError("_log_counter: declared return type")
    init, loop, ret = body
    one = _target(fn, init, "the constant one")
    if one in P:
        raise TranslatorError("_log_counter: the first statement assigns a parameter")
    ivar = _loop(fn, loop, value)
    for n in ast.walk(loop):
        if isinstance(n, (ast.Assign, ast.AugAssign)):
            tg = n.targets[0] if isinstance(n, ast.Assign) else n.target
            if one in {x.id for x in ast.walk(tg) if isinstance(x, ast.Name)}:
                raise TranslatorError(f"_log_counter: `{one}` is assigned inside the loop")
        if isinstance(n, (ast.For, ast.While, ast.Break, ast.Continue)) and n is not loop:
            raise TranslatorError(f"_log_counter: l.{n.lineno}: {type(n).__name__} inside the loop")

    def is_pair(v):
        return (isinstance(v, ast.Tuple) and len(v.elts) == 2 and all(isinstance(x, ast.Name) for x in v.elts)
                and [x.id for x in v.elts] == [counter, ptr])
    if not is_pair(ret.value):
        raise TranslatorError(f"_log_counter: does not end with `return {counter}, {ptr}`")
    stmts = copy.deepcopy(loop.body)
    calls = []

    def rewrite(block):
        for i, s in enumerate(block):
            if isinstance(s, ast.Return):
                if not is_pair(s.value):
                    raise TranslatorError(f"_log_counter: l.{s.lineno}: early return of something other than ({counter}, {ptr})")
                block[i] = ast.copy_location(ast.Return(value=None), s)
            elif isinstance(s, ast.If):
                rewrite(s.body)
                rewrite(s.orelse)
            elif any(isinstance(c, ast.Call) and getattr(c.func, "id", None) == "_rand" for c in ast.walk(s)):
                ok = (isinstance(s, ast.Assign) and len(s.targets) == 1 and isinstance(s.targets[0], ast.Tuple)
                      and len(s.targets[0].elts) == 2 and all(isinstance(x, ast.Name) for x in s.targets[0].elts)
                      and isinstance(s.value, ast.Call) and getattr(s.value.func, "id", None) == "_rand" and not s.value.keywords
                      and [ast.unparse(a) for a in s.value.args] == [rand_nums, ptr]
                      and s.targets[0].elts[1].id == ptr)
                if not ok:
                    raise TranslatorError(f"_log_counter: l.{s.lineno}: the call of _rand is not `X, {ptr} = _rand({rand_nums}, {ptr})`")
                calls.append((s.targets[0].elts[0].id, block, i))
                block[i] = ast.copy_location(ast.Assign(targets=[ast.Name(id="drew", ctx=ast.Store())], value=ast.Constant(value=1)), s)
    rewrite(stmts)
    for s in stmts:
        for n in ast.walk(s):
            if isinstance(n, ast.Call) and getattr(n.func, "id", None) == "_rand":
                raise TranslatorError(f"_log_counter: l.{n.lineno}: a call of _rand that is not a statement of its own")
    if len(calls) != 1:
        raise TranslatorError(f"_log_counter: expected exactly one call of _rand in the loop, found {len(calls)}")
    x, block, i = calls[0]
    if x in P or x in (one, "drew", ivar):
        raise TranslatorError(f"_log_counter: the drawn number is bound to {x}")
    allowed = {id(n) for s in block[i + 1:] for n in ast.walk(s)}
    for s in stmts:
        for n in ast.walk(s):
            if isinstance(n, ast.Name) and n.id == x:
                if not isinstance(n.ctx, ast.Load):
                    raise TranslatorError(f"_log_counter: l.{n.lineno}: {x} is assigned again")
                if id(n) not in allowed:
                    raise TranslatorError(f"_log_counter: l.{n.lineno}: {x} is read outside the statements that follow the call of _rand")
            if isinstance(n, ast.Name) and n.id in (rand_nums, ptr, value, ivar):
                raise TranslatorError(f"_log_counter: l.{n.lineno}: {n.id} is used inside the loop other than by the call of _rand / the early return")
    drew0 = ast.copy_location(ast.Assign(targets=[ast.Name(id="drew", ctx=ast.Store())], value=ast.Constant(value=0)), loop)
    region = [ast.fix_missing_locations(s) for s in [copy.deepcopy(init), drew0] + stmts]
    t = MixTrans(cm, fn, oracles=("fpow",))
    return [_c(f"countmin.py _log_counter {_ln(init)} and {_ln(loop.body[0], loop.body[-1])}: one iteration of `for {ivar} in range({value})`; "
               f"{x} = the number `_rand({rand_nums}, {ptr})` returns; None = `return {counter}, {ptr}`, "
               f"Some ({counter}, drew): drew = 1 iff _rand was called"),
            t.region("gen_log_counter_step", region, [base, x, counter, nr, umax], [counter, "drew"], option=True,
                     local_types={x: "F"}, cells=False),
            _c(f"_log_counter: the declared return type Tuple(({rts[0]}, {rts[1]})) applied to `return {counter}, {ptr}`"),
            f"Definition gen_log_counter_ret (counter rand_ptr : Z) : (Z * Z) :=\n  (wrap{WIDTH[rts[0]]} counter, wrap{WIDTH[rts[1]]} rand_ptr).\n"]


QUERY_KINDS = {16: [("array", "uint16"), ("array", "uint64"), U64, U64, U16, ("other", None)],
               8: [("array", "uint8"), ("array", "uint64"), U64, U64, U8, ("other", None)]}


# ------------------------------------------------------------------ _query_log16 / _query_log8
def _query_log(n):
    def f(cm):
        name = f"_query_log{n}"
        fn = _find_func(cm, name)
        body = _strip_doc(fn)
        cms, buckets, width, depth, umax, key = _params(fn, QUERY_KINDS[n])
        # the row hash is not part of the min-reduction (C14 pins it): pytrans_cms.split_query skips whatever computes the columns
        init, loopnode, region, mc = split_query(fn, body, cms, buckets, depth)
        row = loopnode.target.id
        cell = f"{cms}_{row}_{buckets}_{row}"
        t = CellTrans({})
        return [_c(f"countmin.py {name} {_ln(init)}: the running minimum starts from {umax}"),
                t.cell_region(f"gen_query_log{n}_init", fn, [init], [umax], [mc]),
                _c(f"{name} {_ln(region[0], region[-1])}: one row of the loop, after the column computation"),
                t.cell_region(f"gen_query_log{n}_step", fn, region, [mc, cell], [mc])]
    return f


def _add_kinds(n):
    u = U16 if n == 16 else U8
    return [("array", f"uint{n}"), ("array", "uint64"), ("array", "uint64"), U64, U64, u, u, F64, ("array", "float64"), U64,
            ("other", None), U64]


# ------------------------------------------------------------------ _add_log16 / _add_log8
def _add_log(n):
    def f(cm):
        name = f"_add_log{n}"
        fn = _find_func(cm, name)
        body = _strip_doc(fn)
        kinds = [type(x).__name__ for x in body]
        if len(body) < 6 or kinds[0] not in ("AugAssign", "Assign") or kinds[1:3] != ["Assign", "Assign"] or kinds[-2:] != ["For", "Return"]:
            raise TranslatorError(f"{name}: unexpected statement shape {kinds}")
        cms, nar, buckets, width, depth, umax, nr, base, rand_nums, ptr, key, value = _params(fn, _add_kinds(n))
        q, lc, loop, ret = body[1], body[2], body[-2], body[-1]
        mc = _target(fn, q, "the queried minimum")
        if not (isinstance(q.value, ast.Call) and getattr(q.value.func, "id", None) == f"_query_log{n}" and not q.value.keywords
                and [ast.unparse(a) for a in q.value.args] == [cms, buckets, width, depth, umax, key]):
            raise TranslatorError(f"{name}: second statement is not <min> = _query_log{n}({cms}, {buckets}, {width}, {depth}, {umax}, {key})")
        if not (isinstance(lc, ast.Assign) and len(lc.targets) == 1 and isinstance(lc.targets[0], ast.Tuple) and len(lc.targets[0].elts) == 2
                and all(isinstance(x, ast.Name) for x in lc.targets[0].elts) and lc.targets[0].elts[1].id == ptr
                and isinstance(lc.value, ast.Call) and getattr(lc.value.func, "id", None) == "_log_counter" and not lc.value.keywords
                and [ast.unparse(a) for a in lc.value.args] == [mc, nr, umax, base, rand_nums, ptr, value]):
            raise TranslatorError(f"{name}: third statement is not <new>, {ptr} = _log_counter({mc}, {nr}, {umax}, {base}, {rand_nums}, {ptr}, {value})")
        nc = lc.targets[0].elts[0].id
        if nc == mc or nc in (cms, nar, buckets, width, depth, umax, nr, base, rand_nums, ptr, key, value):
            raise TranslatorError(f"{name}: the result of _log_counter is bound to {nc}")
        if not (isinstance(ret.value, ast.Name) and ret.value.id == ptr):
            raise TranslatorError(f"{name}: does not end with `return {ptr}`")
        row = _loop(fn, loop, depth)
        post = copy.deepcopy(body[3:-2])
        for s in post:
            for x in ast.walk(s):
                if isinstance(x, ast.Return):
                    if not (isinstance(x.value, ast.Name) and x.value.id == ptr):
                        raise TranslatorError(f"{name}: l.{x.lineno}: early return of something other than {ptr}")
                    x.value = None
                if isinstance(x, (ast.For, ast.While)):
                    raise TranslatorError(f"{name}: l.{x.lineno}: loop between the _log_counter call and the update loop")
        cell = f"{cms}_{row}_{buckets}_{row}"
        t = CellTrans({})
        return [_c(f"countmin.py {name} {_ln(body[0])}: {nar}[0] after the first statement"),
                t.cell_region(f"gen_add_log{n}_n_added", fn, body[0:1], [f"{nar}_0", value], [f"{nar}_0"]),
                _c(f"{name} {_ln(post[0], post[-1])}: from the result of _log_counter to the update loop; None = the early `return {ptr}`"),
                t.cell_region(f"gen_add_log{n}_post", fn, post, [mc, nc], [nc], option=True),
                _c(f"{name} {_ln(loop.body[0], loop.body[-1])}: body of the update loop, new content of {cms}[{row}, {buckets}[{row}]]"),
                t.cell_region(f"gen_add_log{n}_cell", fn, loop.body, [cell, nc], [cell])]
    return f


def _merge_kinds(n):
    u = U16 if n == 16 else U8
    return [("array", f"uint{n}"), ("array", f"uint{n}"), U64, U64, U64, u, u, F64, ("array", "uint64"), ("array", "uint64")]


# ------------------------------------------------------------------ _merge_log16 / _merge_log8
def _merge_log(n):
    def f(cm):
        name = f"_merge_log{n}"
        fn = _find_func(cm, name)
        body = _strip_doc(fn)
        _same_shape(fn, body, ["For", "AugAssign", "AugAssign"])
        cms, other, width, depth, max_count, umax, nr, base, nar, onar = _params(fn, _merge_kinds(n))
        row = _loop(fn, body[0], depth, ("prange", "range"))
        _same_shape(fn, body[0].body, ["For"])
        inner = body[0].body[0]
        col = _loop(fn, inner, width)
        _fresh(fn, "logq", "flog", "c2v", "fpow", "logq_value")
        types, _ = sig_types(fn)
        scalars = {p for p, (k, _) in types.items() if k == "scalar"}
        cell = copy.deepcopy(inner.body)

        def n_logs(node):
            return sum(isinstance(c, ast.Call) and ast.unparse(c.func) == "np.log" for c in ast.walk(node))
        logs = [s for b in cell for s in ast.walk(b) if isinstance(s, ast.Assign) and n_logs(s.value) > 0]
        if len(logs) != 1 or len(logs[0].targets) != 1 or not isinstance(logs[0].targets[0], ast.Name) \
                or n_logs(logs[0].value) != sum(n_logs(b) for b in cell):
            raise TranslatorError(f"{name}: expected exactly one assignment `x = <expression with np.log>` in the cell loop "
                                  "and no other use of np.log")
        st = logs[0]
        expr = st.value
        free = sorted(_names(expr) - {"np"} - scalars)
        if len(free) != 1:
            raise TranslatorError(f"{name}: l.{st.lineno}: the np.log expression mentions the locals {free}; exactly one is supported")
        if any(isinstance(x, ast.Subscript) for x in ast.walk(expr)):
            raise TranslatorError(f"{name}: l.{st.lineno}: the np.log expression reads an array")
        v = free[0]
        used = _names(expr) & scalars
        if used != {base, nr}:
            raise TranslatorError(f"{name}: l.{st.lineno}: the np.log expression uses the parameters {sorted(used)}, "
                                  f"the tie file expects {[base, nr]}")
        call = ast.Call(func=ast.Name(id="logq", ctx=ast.Load()), args=[ast.Name(id=v, ctx=ast.Load())], keywords=[])
        call._synthetic = True
        st.value = ast.copy_location(call, expr)
        for s in cell:
            ast.fix_missing_locations(s)
        lq = ast.fix_missing_locations(ast.copy_location(
            ast.Assign(targets=[ast.Name(id="logq_value", ctx=ast.Store())], value=copy.deepcopy(expr)), st))
        tq = MixTrans(cm, fn, oracles=("flog",))
        tc = MixTrans(cm, fn, oracles=("c2v", "logq"), calls={"_counter2value": "c2v"})
        ti = CellTrans({})
        mine, theirs = f"{cms}_{row}_{col}", f"{other}_{row}_{col}"
        return [_c(f"countmin.py {name} {_ln(expr)}: the expression `{' '.join(ast.unparse(expr).split())}` "
                   f"as a function of {v}; flog = np.log"),
                tq.region(f"gen_merge_log{n}_logq", [lq], [base, nr, v], ["logq_value"], local_types={v: "F"}, cells=False),
                _c(f"{name} {_ln(inner.body[0], inner.body[-1])}: body of the loop over the cells, new content of {cms}[{row}, {col}]; "
                   f"c2v = _counter2value, logq {v} = the expression above"),
                tc.region(f"gen_merge_log{n}_cell", cell, [base, mine, theirs, max_count, umax, nr], [mine]),
                _c(f"{name} {_ln(body[1], body[2])}: the two special counters"),
                ti.cell_region(f"gen_merge_log{n}_n_added", fn, body[1:2], [f"{nar}_0", f"{onar}_0"], [f"{nar}_0"]),
                ti.cell_region(f"gen_merge_log{n}_n_records", fn, body[2:3], [f"{nar}_1", f"{onar}_1"], [f"{nar}_1"])]
    return f


# ------------------------------------------------------------------ file
HDR = ["(* GENERATED by harness/pytrans_log.py from the repository - do not edit.  The log-counter kernels of countmin.py, region by",
       "   region, translated from the AST (integers: 64-bit registers with explicit wraps; float64: PrimFloat; libm calls, _counter2value",
       "   and the drawn random number: arguments of the generated functions). *)",
       "From Coq Require Import ZArith Bool.", "From Coq Require Import Floats.PrimFloat.",
       "From Coq Require Uint63 Floats.FloatOps Floats.SpecFloat.", "From Sketchnu Require Import Machine.", "Open Scope Z_scope.", "",
       "(* fixed conversion rules of the translator (see the docstring of pytrans_log.py) *)",
       "(* unsigned integer below 2^63 -> float64 *)",
       "Definition gen_z2f (z : Z) : float := of_uint63 (Uint63.of_Z z).",
       "(* uint64 -> float64 (uitofp, round to nearest even): above 2^63 halve with a sticky bit, convert, double *)",
       "Definition gen_u64f (z : Z) : float :=",
       "  if z <? 9223372036854775808 then gen_z2f z",
       "  else PrimFloat.mul (gen_z2f (Z.lor (Z.shiftr z 1) (Z.land z 1))) (0x1p+1)%float.",
       "(* float64 -> integer: truncation toward zero (the caller reduces modulo 2^N) *)",
       "Definition gen_f2z (x : float) : Z :=",
       "  match FloatOps.Prim2SF x with",
       "  | SpecFloat.S754_finite s m e =>",
       "      let a := if 0 <=? e then Zpos m * 2 ^ e else Zpos m / 2 ^ (- e) in",
       "      if s then - a else a",
       "  | _ => 0",
       "  end.", ""]

B_STEP = "(fpow : float -> float -> float) (base rand : float) (counter num_reserved uint_maxval : Z)"
B_LOGQ = "(flog : float -> float) (base : float) (num_reserved : Z) (v : float)"
B_CELL = "(c2v : Z -> Z -> float -> float) (logq : float -> float) (base : float) (cms_row_col other_cms_row_col max_count uint_maxval num_reserved : Z)"


def _signature(head):
    """type of a generated definition from its header `Definition n (a b : T) (c : U) : R`, binder names dropped
    (local names are taken from the source; application in the tie files is positional)"""
    import re
    m = re.match(r"Definition \S+ (.*) : ([^:]+)$", head.strip())
    if not m:
        return head
    out = []
    for g in re.findall(r"\(([^()]*?) : ([^()]*)\)", m.group(1)):
        out += [g[1].strip()] * len(g[0].split())
    return " -> ".join(out + [m.group(2).strip()])


def _z(names):
    return "(" + " ".join(names) + " : Z)"


# (tag, translator, [(definition, binders, type, poison value)])
PLAN = [("_rand", _rand, [("gen_rand", _z(["rand_ptr"]), "(Z * Z * Z)", "(-1, -1, -1)")]),
        ("_log_counter", _log_counter, [("gen_log_counter_step", B_STEP, "option (Z * Z)", "Some (-1, -1)"),
                                        ("gen_log_counter_ret", _z(["counter", "rand_ptr"]), "(Z * Z)", "(-1, -1)")])]
for _n in (16, 8):
    PLAN += [(f"_query_log{_n}", _query_log(_n), [(f"gen_query_log{_n}_init", _z(["uint_maxval"]), "Z", "-1"),
                                                   (f"gen_query_log{_n}_step", _z(["min_count", "cms_row_buckets_row"]), "Z", "-1")]),
             (f"_add_log{_n}", _add_log(_n), [(f"gen_add_log{_n}_n_added", _z(["n_added_records_0", "value"]), "Z", "-1"),
                                               (f"gen_add_log{_n}_post", _z(["min_count", "new_count"]), "option Z", "Some (-1)"),
                                               (f"gen_add_log{_n}_cell", _z(["cms_row_buckets_row", "new_count"]), "Z", "-1")]),
             (f"_merge_log{_n}", _merge_log(_n), [(f"gen_merge_log{_n}_logq", B_LOGQ, "float", "nan"),
                                                   (f"gen_merge_log{_n}_cell", B_CELL, "Z", "-1"),
                                                   (f"gen_merge_log{_n}_n_added", _z(["n_added_records_0", "other_n_added_records_0"]), "Z", "-1"),
                                                   (f"gen_merge_log{_n}_n_records", _z(["n_added_records_1", "other_n_added_records_1"]), "Z", "-1")])]


def generate(repo):
    """({file name: text}, {tag: error}); never raises, the file always compiles"""
    out = list(HDR)
    errors = {}
    tree, perr = None, None
    try:
        tree = _parse(os.path.join(repo, "sketchnu", SOURCE))
    except Exception as e:
        perr = e
    for tag, fn, defs in PLAN:
        try:
            if tree is None:
                raise perr
            part = fn(tree)
            for name, binders, rty, _ in defs:      # what is emitted has exactly the type the tie files expect
                got = [p for p in part if p.startswith(f"Definition {name} ")]
                if len(got) != 1:
                    raise TranslatorError(f"{tag}: definition {name} not produced")
                head = got[0].split(":=")[0]
                if _signature(head) != _signature(f"Definition {name} {binders} : {rty} "):
                    raise TranslatorError(f"{tag}: {name} has the type `{_signature(head)}`, the tie file expects "
                                          f"`{_signature(f'Definition {name} {binders} : {rty} ')}`")
            out += part
        except Exception as e:
            errors[f"kernels:{SOURCE[:-3]}:{tag}"] = f"{type(e).__name__}: {e}"
            out.append("(* TRANSLATION FAILED (" + tag + "): " + str(e).replace("*)", "* )").replace("(*", "( *") + " *)")
            for name, binders, rty, poison in defs:
                out.append(f"Definition {name} {binders} : {rty} := {poison}.  (* translation failed *)\n")
    return {FNAME: "\n".join(out) + "\n"}, errors


if __name__ == "__main__":
    import sys
    t, e = generate(sys.argv[1] if len(sys.argv) > 1 else "/repo")
    for k, v in t.items():
        print("=====", k)
        print(v)
    print("errors:", e)
