"""pytrans_hllq.py — translator plug-in (see translate.generate): the FLOAT kernels of the HyperLogLog estimator.

Regenerated on every run into coq/generated/KernelsHllQuery.v from hyperloglog.py's AST and tied by proof to the
hand-written PrimFloat model theories/HllQuery.v in theories/KernelTieHllQuery.v:

  _linear_counting            the whole function                      gen_linear_counting
  _estimation_function        accumulator start / loop body / result  gen_estimation_init, _step, _final
  _query                      the whole decision structure            gen_query
  HyperLogLog.__init__        the expression assigned to self.alpha   gen_alpha

Typed translation (the types are Numba's: parameters from the @njit signature, literals int64 / float64):

* integers live in 64-bit registers as in pytrans.IntTrans: a Z, `+ - *` and `**` (literal exponent) followed by
  wrap64, `uint64(e)` is wrap64, comparisons between integers are comparisons of the register contents;
* float64 is Coq's kernel binary64 (PrimFloat): `+ - * /` and unary minus are the PrimFloat operations;
  `a < b`, `a <= b`, `a == b` are ltb, leb, eqb; `a > b` is `ltb b a` and `a >= b` is `leb b a` (IEEE: the same
  predicate, false when either side is a NaN);
* int -> float: `float64(e)` of an integer, and every integer operand of a mixed int/float arithmetic operation or
  comparison (Numba's typing rule: uint64/int64 with float64 unifies to float64, so in `cardinality > threshold` the
  uint64 threshold is converted) is `gen_f64_of_int e` = of_uint63 (Uint63.of_Z e): the correctly rounded conversion
  for 0 <= e < 2^63, where the conversions of a uint64 and of an int64 register agree.  The tie lemmas state the range;
* everything the code calls is a PARAMETER of the generated definition (Section variable), applied to the translated
  arguments in source order: np.log -> np_log, float `a ** b` -> pow a b, np.count_nonzero -> np_count_nonzero,
  np.interp -> np_interp, the module's own @njit functions -> f_<name> (arity checked against the callee's
  signature; an integer argument for a narrower integer parameter would be wrapped).  Arrays are values of abstract
  types (A8 = uint8[:], AF = float64[:]) that are only passed on;
* `for r in registers:` — only the loop BODY is translated, as a function of the accumulator and of the element r
  (a uint8 load: 0 <= r < 256, no wrap); the header shape is checked;
* a variable first assigned inside an `if` branch is local to it unless both branches assign it on every path
  (`cardinality` in _query), in which case the `if` produces it.

Fail-closed inside a function (anything outside the subset, a name that is not bound, a type change of a variable,
float ** integer, integer negation, keyword arguments, ... raise TranslatorError) and fail-soft per function: the
function that cannot be translated gets POISONED definitions of the same type (constant -1.0), the generated file
still compiles, the error is reported under `kernels:hyperloglog:<function>` and only the tie fails.
"""
import ast
import os

from translate import TranslatorError, _parse, _find_func, _strip_doc, _float_lit

FNAME = "KernelsHllQuery.v"
INT_T = {"uint8": 8, "uint16": 16, "uint32": 32, "uint64": 64, "int64": 64}
COQ_TY = {"int": "Z", "f64": "float", "A8": "A8", "AF": "AF"}
COQ_RESERVED = {"as", "at", "cofix", "else", "end", "exists", "exists2", "fix", "for", "forall", "fun", "if", "IF", "in",
                "let", "match", "mod", "Prop", "return", "Set", "then", "Type", "using", "where", "with", "Some", "None",
                "fst", "snd", "negb", "nan", "float", "wrap8", "wrap16", "wrap32", "wrap64", "gen_f64_of_int",
                "np_log", "pow", "np_count_nonzero", "np_interp", "A8", "AF"}


# ------------------------------------------------------------------ signatures
def _sig(fn):
    """([(param, kind, declared type)], return kind) from @njit(ret(args...)); kind in int / f64 / A8 / AF"""
    for d in fn.decorator_list:
        if isinstance(d, ast.Call) and getattr(d.func, "id", None) == "njit" and d.args and isinstance(d.args[0], ast.Call):
            s = d.args[0]
            if not isinstance(s.func, ast.Name):
                raise TranslatorError(f"{fn.name}: return type of the signature not recognised")

            def kind(a):
                if isinstance(a, ast.Name) and a.id in INT_T:
                    return "int", a.id
                if isinstance(a, ast.Name) and a.id == "float64":
                    return "f64", "float64"
                if isinstance(a, ast.Subscript) and isinstance(a.value, ast.Name) and isinstance(a.slice, ast.Slice) \
                        and a.slice.lower is None and a.slice.upper is None and a.slice.step is None:
                    if a.value.id == "uint8":
                        return "A8", "uint8[:]"
                    if a.value.id == "float64":
                        return "AF", "float64[:]"
                raise TranslatorError(f"{fn.name}: type {ast.unparse(a)} in the signature")
            names = [a.arg for a in fn.args.args]
            if len(names) != len(s.args) or fn.args.vararg or fn.args.kwarg or fn.args.kwonlyargs or fn.args.defaults:
                raise TranslatorError(f"{fn.name}: signature arity")
            return [(n,) + kind(a) for n, a in zip(names, s.args)], kind(s.func)[0]
    raise TranslatorError(f"{fn.name}: no @njit(signature) decorator")


def _lines(a, b):
    return f"l.{a}" if a == b else f"l.{a}-{b}"


def _binders(params):
    return " ".join(f"({n} : {COQ_TY[k]})" for n, k in params)


# ------------------------------------------------------------------ the typed translator
class FloatTrans:
    def __init__(self, fname, module=None):
        self.fname = fname
        self.module = module            # ast.Module: the module's own @njit functions may be called
        self.env = {}                   # variable -> kind
        self.used = set()               # external functions the term mentions

    def err(self, node, msg):
        raise TranslatorError(f"{self.fname}: l.{getattr(node, 'lineno', '?')}: {msg}")

    def to_f64(self, t, k, node):
        if k == "f64":
            return t
        if k == "int":
            return f"(gen_f64_of_int {t})"
        self.err(node, "an array where a number is expected")

    def num(self, e):
        t, k = self.expr(e)
        if k not in ("int", "f64"):
            self.err(e, "an array where a number is expected")
        return t, k

    def expr(self, e):
        """(Gallina term, kind)"""
        if isinstance(e, ast.Name):
            if e.id not in self.env:
                self.err(e, f"name {e.id} is not bound here")
            return e.id, self.env[e.id]
        if isinstance(e, ast.Attribute) and isinstance(e.value, ast.Name) and e.value.id == "self":
            n = "self_" + e.attr
            if n not in self.env:
                self.err(e, f"attribute self.{e.attr} is not a parameter of the region")
            return n, self.env[n]
        if isinstance(e, ast.Constant) and not isinstance(e.value, bool):
            if isinstance(e.value, int):
                if not 0 <= e.value < 2 ** 63:
                    self.err(e, "integer literal out of range")
                return str(e.value), "int"
            if isinstance(e.value, float):
                return _float_lit(e.value), "f64"
        if isinstance(e, ast.UnaryOp) and isinstance(e.op, ast.USub):
            t, k = self.num(e.operand)
            if k != "f64":
                self.err(e, "negation of an integer")
            return f"(- {t})%float", "f64"
        if isinstance(e, ast.BinOp):
            return self.binop(e)
        if isinstance(e, ast.Call):
            return self.call(e)
        self.err(e, f"unsupported expression {ast.dump(e)[:80]}")

    def binop(self, e):
        op = type(e.op)
        (a, ka), (b, kb) = self.num(e.left), self.num(e.right)
        if op is ast.Pow:
            if ka == "int":
                r = e.right
                if kb == "int" and isinstance(r, ast.Constant) and isinstance(r.value, int) and 1 <= r.value <= 4:
                    return f"(wrap64 ({a} ^ {r.value}))", "int"
                self.err(e, "integer power with a non-literal exponent")
            if kb != "f64":
                self.err(e, "float ** integer (another routine than pow(double, double))")
            self.used.add("pow")
            return f"(pow {a} {b})", "f64"
        if ka == "int" and kb == "int" and op is not ast.Div:
            sym = {ast.Add: "+", ast.Sub: "-", ast.Mult: "*"}.get(op)
            if sym is None:
                self.err(e, f"unsupported integer operator {op.__name__}")
            return f"(wrap64 ({a} {sym} {b}))", "int"
        sym = {ast.Add: "+", ast.Sub: "-", ast.Mult: "*", ast.Div: "/"}.get(op)
        if sym is None:
            self.err(e, f"unsupported float operator {op.__name__}")
        return f"({self.to_f64(a, ka, e.left)} {sym} {self.to_f64(b, kb, e.right)})%float", "f64"

    def call(self, e):
        if e.keywords:
            self.err(e, "keyword arguments")
        f = e.func
        if isinstance(f, ast.Name) and f.id in ("float64",) and len(e.args) == 1:
            t, k = self.num(e.args[0])
            return self.to_f64(t, k, e), "f64"
        if isinstance(f, ast.Attribute) and isinstance(f.value, ast.Name) and f.value.id == "np" and f.attr == "float64" \
                and len(e.args) == 1:
            t, k = self.num(e.args[0])
            return self.to_f64(t, k, e), "f64"
        if isinstance(f, ast.Name) and f.id in INT_T and len(e.args) == 1:
            t, k = self.num(e.args[0])
            if k != "int":
                self.err(e, f"{f.id}(<float>)")
            return f"(wrap{INT_T[f.id]} {t})", "int"
        if isinstance(f, ast.Attribute) and isinstance(f.value, ast.Name) and f.value.id == "np":
            args = [self.expr(a) for a in e.args]
            kinds = [k for _, k in args]
            if f.attr == "log" and len(args) == 1 and kinds[0] in ("int", "f64"):
                self.used.add("np_log")
                return f"(np_log {self.to_f64(args[0][0], kinds[0], e)})", "f64"
            if f.attr == "count_nonzero" and kinds == ["A8"]:
                self.used.add("np_count_nonzero")
                return f"(np_count_nonzero {args[0][0]})", "int"
            if f.attr == "interp" and len(args) == 3 and kinds[0] in ("int", "f64") and kinds[1:] == ["AF", "AF"]:
                self.used.add("np_interp")
                return f"(np_interp {self.to_f64(args[0][0], kinds[0], e)} {args[1][0]} {args[2][0]})", "f64"
            self.err(e, f"unsupported call np.{f.attr}({', '.join(kinds)})")
        if isinstance(f, ast.Name) and self.module is not None:
            try:
                callee = _find_func(self.module, f.id)
            except TranslatorError:
                self.err(e, f"unsupported call {f.id}")
            ps, rk = _sig(callee)
            if len(ps) != len(e.args):
                self.err(e, f"call {f.id}: arity")
            ts = []
            for (pn, pk, pty), a in zip(ps, e.args):
                t, k = self.expr(a)
                if pk == "f64" and k == "int":
                    t, k = self.to_f64(t, k, a), "f64"
                if pk != k:
                    self.err(e, f"call {f.id}: argument {pn} is {k}, the signature says {pty}")
                if pk == "int" and INT_T[pty] < 64:
                    t = f"(wrap{INT_T[pty]} {t})"
                ts.append(t)
            g = "f_" + f.id.lstrip("_")
            self.used.add(g)
            return f"({g} {' '.join(ts)})", rk
        self.err(e, f"unsupported call {ast.unparse(f)}")

    def cond(self, t):
        if not (isinstance(t, ast.Compare) and len(t.ops) == 1):
            self.err(t, "unsupported condition")
        (a, ka), (b, kb) = self.num(t.left), self.num(t.comparators[0])
        op = type(t.ops[0])
        if ka == "int" and kb == "int":
            d = {ast.NotEq: f"(negb ({a} =? {b}))", ast.Eq: f"({a} =? {b})", ast.Lt: f"({a} <? {b})",
                 ast.LtE: f"({a} <=? {b})", ast.Gt: f"({a} >? {b})", ast.GtE: f"({a} >=? {b})"}
        else:
            a, b = self.to_f64(a, ka, t), self.to_f64(b, kb, t)
            d = {ast.NotEq: f"(negb ({a} =? {b})%float)", ast.Eq: f"({a} =? {b})%float", ast.Lt: f"({a} <? {b})%float",
                 ast.LtE: f"({a} <=? {b})%float", ast.Gt: f"({b} <? {a})%float", ast.GtE: f"({b} <=? {a})%float"}
        if op not in d:
            self.err(t, f"unsupported comparison {op.__name__}")
        return d[op]

    # ---- statements
    @staticmethod
    def assigned(stmts):
        out = []
        for s in stmts:
            if isinstance(s, ast.Assign) and len(s.targets) == 1 and isinstance(s.targets[0], ast.Name):
                out.append(s.targets[0].id)
            elif isinstance(s, ast.AugAssign) and isinstance(s.target, ast.Name):
                out.append(s.target.id)
            elif isinstance(s, ast.If):
                out += FloatTrans.assigned(s.body) + FloatTrans.assigned(s.orelse)
        return list(dict.fromkeys(out))

    @staticmethod
    def definitely(stmts):
        """names assigned on every path through the statements"""
        out = set()
        for s in stmts:
            if isinstance(s, ast.Assign) and len(s.targets) == 1 and isinstance(s.targets[0], ast.Name):
                out.add(s.targets[0].id)
            elif isinstance(s, ast.AugAssign) and isinstance(s.target, ast.Name):
                out.add(s.target.id)
            elif isinstance(s, ast.If):
                out |= FloatTrans.definitely(s.body) & FloatTrans.definitely(s.orelse)
        return out

    def bind(self, node, name, kind):
        if name in COQ_RESERVED or not name.isidentifier() or name.startswith(("gen_", "f_")):
            self.err(node, f"variable name {name}")
        if name in self.env and self.env[name] != kind:
            self.err(node, f"{name} changes its type from {self.env[name]} to {kind}")
        self.env[name] = kind

    def block(self, stmts, tail):
        """Gallina term for a statement list; tail: the term to continue with when the block falls through
        (None: the block must end in `return`).  self.env is the scope; what a branch binds is dropped after it."""
        if not stmts:
            if tail is None:
                raise TranslatorError(f"{self.fname}: the function may fall off its end")
            return tail if isinstance(tail, str) else tail()
        s, rest = stmts[0], stmts[1:]
        if isinstance(s, ast.Return):
            if tail is not None or rest:
                self.err(s, "return in the middle of a region")
            if s.value is None:
                self.err(s, "bare return")
            t, k = self.num(s.value)
            return self.to_f64(t, k, s) if self.ret == "f64" else (t if k == "int" else self.err(s, "returns a float"))
        if isinstance(s, ast.Assign) and len(s.targets) == 1 and isinstance(s.targets[0], ast.Name):
            n = s.targets[0].id
            t, k = self.num(s.value)
            self.bind(s, n, k)
            return f"let {n} := {t} in\n  {self.block(rest, tail)}"
        if isinstance(s, ast.AugAssign) and isinstance(s.target, ast.Name):
            n = s.target.id
            t, k = self.binop(ast.copy_location(ast.BinOp(left=ast.Name(id=n, ctx=ast.Load()), op=s.op, right=s.value), s))
            self.bind(s, n, k)
            return f"let {n} := {t} in\n  {self.block(rest, tail)}"
        if isinstance(s, ast.If):
            if any(isinstance(n, ast.Return) for x in s.body + s.orelse for n in ast.walk(x)):
                self.err(s, "return inside an if")
            c = self.cond(s.test)
            both = self.definitely(s.body) & self.definitely(s.orelse)
            vs = [v for v in self.assigned([s]) if v in self.env or v in both]
            if not vs:
                self.err(s, "if statement without effect on the variables in scope")
            tup = vs[0] if len(vs) == 1 else "(" + ", ".join(vs) + ")"
            pat = vs[0] if len(vs) == 1 else "'(" + ", ".join(vs) + ")"
            outer = dict(self.env)
            kinds = []
            terms = []
            for br in (s.body, s.orelse):
                self.env = dict(outer)
                terms.append(self.block(br, tup))
                kinds.append({v: self.env[v] for v in vs})
            if kinds[0] != kinds[1]:
                self.err(s, f"the branches give different types to {vs}")
            self.env = outer
            for v in vs:
                self.bind(s, v, kinds[0][v])
            return f"let {pat} := (if {c} then ({terms[0]}) else ({terms[1]})) in\n  {self.block(rest, tail)}"
        self.err(s, f"unsupported statement {type(s).__name__}")

    def define(self, gname, params, stmts, ret, result=None):
        """`Definition gname params : ret := ...`; params [(name, kind)]; result: the variable the region produces
        (None: the region ends in `return`)"""
        for n, k in params:
            if n in COQ_RESERVED or not n.isidentifier() or n.startswith(("gen_", "f_")):
                raise TranslatorError(f"{self.fname}: parameter name {n}")
        self.env = dict(params)
        self.ret = ret
        if result is None:
            term = self.block(list(stmts), None)
        else:
            def fin():
                if self.env.get(result) != ret:
                    raise TranslatorError(f"{self.fname}: {result} is not a {ret} when region {gname} ends")
                return result
            term = self.block(list(stmts), fin)
        b = _binders(params)
        return f"Definition {gname}{' ' + b if b else ''} : {COQ_TY[ret]} :=\n  {term}.\n"


def _shape(fn, body, want):
    got = [type(x).__name__ for x in body]
    if got != want:
        raise TranslatorError(f"{fn.name}: unexpected statement shape {got}")


def _entry(fn, ps):
    """the cast Numba performs at the call boundary for integer parameters narrower than 64 bits"""
    for n, k, ty in ps:
        if k == "int" and INT_T[ty] < 64:
            raise TranslatorError(f"{fn.name}: parameter {n} is {ty} (narrow integer parameters are not handled here)")
    return [(n, k) for n, k, _ in ps]


# ------------------------------------------------------------------ the four regions
def _linear_counting(hl):
    fn = _find_func(hl, "_linear_counting")
    ps, rk = _sig(fn)
    body = _strip_doc(fn)
    _shape(fn, body, ["Return"])
    if [(k, ty) for _, k, ty in ps] != [("int", "uint64"), ("int", "uint64")] or rk != "f64":
        raise TranslatorError("_linear_counting: signature is not float64(uint64, uint64)")
    t = FloatTrans(fn.name, hl)
    d = t.define("gen_linear_counting", _entry(fn, ps), body, "f64")
    if t.used != {"np_log"}:
        raise TranslatorError(f"_linear_counting: external calls {sorted(t.used)}")
    return [f"(* hyperloglog.py _linear_counting {_lines(body[0].lineno, body[0].end_lineno)}; parameters ({', '.join(n for n, _, _ in ps)}) *)", d]


def _estimation_function(hl):
    fn = _find_func(hl, "_estimation_function")
    ps, rk = _sig(fn)
    body = _strip_doc(fn)
    _shape(fn, body, ["Assign", "For", "Return"])
    if [(k, ty) for _, k, ty in ps] != [("A8", "uint8[:]"), ("int", "uint64"), ("f64", "float64")] or rk != "f64":
        raise TranslatorError("_estimation_function: signature is not float64(uint8[:], uint64, float64)")
    (regs, _, _), (m, _, _), (alpha, _, _) = ps
    init, loop, ret = body
    if not (isinstance(init.targets[0], ast.Name) and len(init.targets) == 1):
        raise TranslatorError("_estimation_function: first statement is not the initialisation of the accumulator")
    acc = init.targets[0].id
    if not (isinstance(loop.target, ast.Name) and isinstance(loop.iter, ast.Name) and loop.iter.id == regs and not loop.orelse):
        raise TranslatorError(f"_estimation_function: l.{loop.lineno}: expected `for <r> in {regs}:`")
    r = loop.target.id
    if FloatTrans.assigned(loop.body) != [acc] or r in (acc, m, alpha, regs):
        raise TranslatorError(f"_estimation_function: the loop body assigns {FloatTrans.assigned(loop.body)}, expected only {acc}")
    out = []
    t = FloatTrans(fn.name, hl)
    out += [f"(* hyperloglog.py _estimation_function l.{init.lineno}: the accumulator `{acc}` before the loop *)",
            t.define("gen_estimation_init", [], [init], "f64", result=acc)]
    out += [f"(* _estimation_function {_lines(loop.body[0].lineno, loop.body[-1].end_lineno)}: body of `for {r} in {regs}:` "
            f"({r} is the uint8 element) *)",
            t.define("gen_estimation_step", [(acc, "f64"), (r, "int")], loop.body, "f64", result=acc)]
    used_loop = set(t.used)
    out += [f"(* _estimation_function {_lines(ret.lineno, ret.end_lineno)}: the result from the accumulator after the loop *)",
            t.define("gen_estimation_final", [(alpha, "f64"), (m, "int"), (acc, "f64")], [ret], "f64")]
    if used_loop != {"pow"} or t.used != {"pow"}:
        raise TranslatorError(f"_estimation_function: external calls {sorted(t.used)}")
    return out


QUERY_SIG = [("A8", "uint8[:]"), ("int", "uint64"), ("int", "uint64"), ("f64", "float64"), ("AF", "float64[:]"), ("AF", "float64[:]")]
QUERY_EXT = {"np_count_nonzero", "f_linear_counting", "f_estimation_function", "np_interp"}


def _query(hl):
    fn = _find_func(hl, "_query")
    ps, rk = _sig(fn)
    body = _strip_doc(fn)
    if [(k, ty) for _, k, ty in ps] != QUERY_SIG or rk != "f64":
        raise TranslatorError("_query: signature is not float64(uint8[:], uint64, uint64, float64, float64[:], float64[:])")
    # the callees' signatures are what the Section variables of the generated file are typed with
    for name, want in (("_linear_counting", ["int", "int"]), ("_estimation_function", ["A8", "int", "f64"])):
        cps, crk = _sig(_find_func(hl, name))
        if [k for _, k, _ in cps] != want or crk != "f64":
            raise TranslatorError(f"_query: signature of the callee {name}")
    t = FloatTrans(fn.name, hl)
    d = t.define("gen_query", _entry(fn, ps), body, "f64")
    if t.used != QUERY_EXT:
        raise TranslatorError(f"_query: external calls {sorted(t.used)}, expected {sorted(QUERY_EXT)}")
    return [f"(* hyperloglog.py _query {_lines(body[0].lineno, body[-1].end_lineno)}: the whole body; parameters "
            f"({', '.join(n for n, _, _ in ps)}) *)", d]


def _alpha(hl):
    for n in hl.body:
        if isinstance(n, ast.ClassDef) and n.name == "HyperLogLog":
            init = _find_func(hl, "__init__", "HyperLogLog")
            break
    else:
        raise TranslatorError("class HyperLogLog not found")
    found = [s for s in ast.walk(init) if isinstance(s, ast.Assign) and len(s.targets) == 1
             and isinstance(s.targets[0], ast.Attribute) and isinstance(s.targets[0].value, ast.Name)
             and s.targets[0].value.id == "self" and s.targets[0].attr == "alpha"]
    if len(found) != 1:
        raise TranslatorError(f"HyperLogLog.__init__: {len(found)} assignments to self.alpha")
    s = found[0]
    if s not in init.body:
        raise TranslatorError("HyperLogLog.__init__: self.alpha is assigned under a condition")
    t = FloatTrans("HyperLogLog.__init__")
    t.env = {"self_m": "int"}
    t.ret = "f64"
    term, k = t.expr(s.value)
    if k != "f64" or t.used:
        raise TranslatorError("HyperLogLog.__init__: the value of self.alpha is not a float expression of self.m")
    return [f"(* hyperloglog.py HyperLogLog.__init__ {_lines(s.lineno, s.end_lineno)}: the value assigned to self.alpha, as a function of "
            "self.m (np.uint64; the division converts it to float64) *)",
            f"Definition gen_alpha (self_m : Z) : float :=\n  {term}.\n"]


# ------------------------------------------------------------------ the file
HDR = """(* GENERATED by harness/pytrans_hllq.py from the repository - do not edit.  The float kernels of the HyperLogLog
   estimator (hyperloglog.py), translated from the AST.  float64 = PrimFloat; integers = 64-bit registers (Z, wrap64).
   Everything the code calls is a Section variable: np_log = np.log, pow a b = a ** b on float64,
   np_count_nonzero = np.count_nonzero, np_interp = np.interp, f_<name> = the module's @njit function _<name>;
   A8 / AF are the types of uint8[:] / float64[:] arrays. *)
From Coq Require Import ZArith Bool Floats.PrimFloat Uint63.
From Sketchnu Require Import Machine.
Open Scope Z_scope.

(* float64(<integer register>) and the implicit conversion of an integer operand of a float operation or comparison:
   correctly rounded for 0 <= z < 2^63 (where the conversions of uint64 and int64 agree) *)
Definition gen_f64_of_int (z : Z) : float := of_uint63 (Uint63.of_Z z).

Section HllQueryKernels.
Variable np_log : float -> float.
Variable pow : float -> float -> float.
Variables A8 AF : Type.
Variable np_count_nonzero : A8 -> Z.
Variable np_interp : float -> AF -> AF -> float.
Variable f_linear_counting : Z -> Z -> float.
Variable f_estimation_function : A8 -> Z -> float -> float.
"""
POISON = "(- 0x1p+0)%float"

# (tag, translator, [(definition, binders when poisoned)])
PLAN = [
    ("_linear_counting", _linear_counting, [("gen_linear_counting", "(x0 x1 : Z)")]),
    ("_estimation_function", _estimation_function, [("gen_estimation_init", ""), ("gen_estimation_step", "(x0 : float) (x1 : Z)"),
                                                    ("gen_estimation_final", "(x0 : float) (x1 : Z) (x2 : float)")]),
    ("_query", _query, [("gen_query", "(x0 : A8) (x1 x2 : Z) (x3 : float) (x4 x5 : AF)")]),
    ("HyperLogLog.__init__", _alpha, [("gen_alpha", "(x0 : Z)")]),
]

# the external functions each definition must mention, so that after `End` every definition has a FIXED list of
# function arguments whatever the source does (a definition only abstracts the Section variables it uses)
USES = {"gen_linear_counting": ["np_log"], "gen_estimation_init": [], "gen_estimation_step": ["pow"], "gen_estimation_final": [],
        "gen_query": ["A8", "AF", "np_count_nonzero", "np_interp", "f_linear_counting", "f_estimation_function"], "gen_alpha": []}


def _check_types(name, text, poisoned):
    """the definition's binders must have the types the tie file applies it to"""
    want = {"gen_linear_counting": "(m : Z) (n_zero : Z) : float", "gen_estimation_init": " : float", "gen_alpha": "(self_m : Z) : float"}
    kinds = {"gen_estimation_step": ["float", "Z"], "gen_estimation_final": ["float", "Z", "float"],
             "gen_query": ["A8", "Z", "Z", "float", "AF", "AF"], "gen_linear_counting": ["Z", "Z"], "gen_estimation_init": [],
             "gen_alpha": ["Z"]}
    head = text.split(":=", 1)[0]
    import re
    got = re.findall(r"\(\w+ : (\w+)\)", head)
    if got != kinds[name]:
        raise TranslatorError(f"{name}: binder types {got}, the tie file expects {kinds[name]}")


def generate(repo):
    """({file name: text}, {tag: error}); never raises, the file always compiles"""
    path = os.path.join(repo, "sketchnu", "hyperloglog.py")
    out = [HDR]
    errors = {}
    tree, perr = None, None
    try:
        tree = _parse(path)
    except Exception as e:
        perr = e
    for tag, fn, defs in PLAN:
        try:
            if tree is None:
                raise perr
            part = fn(tree)
            for name, _ in defs:
                hit = [p for p in part if p.startswith(f"Definition {name} ")]
                if len(hit) != 1:
                    raise TranslatorError(f"{tag}: definition {name} not produced")
                _check_types(name, hit[0], False)
                for ext in ("np_log", "pow", "np_count_nonzero", "np_interp", "f_linear_counting", "f_estimation_function"):
                    mentioned = f"({ext} " in hit[0]
                    if mentioned != (ext in USES[name]):
                        raise TranslatorError(f"{tag}: {name} {'uses' if mentioned else 'does not use'} {ext}")
            out += part
        except Exception as e:
            errors[f"kernels:hyperloglog:{tag}"] = f"{type(e).__name__}: {e}"
            out.append("(* TRANSLATION FAILED (" + tag + "): " + str(e).replace("*)", "* )").replace("(*", "( *") + " *)")
            for name, binders in defs:
                # the poisoned body mentions the same Section variables, so the definition keeps its arity after `End`
                keep = "".join(f"let _ := {v} in " for v in USES[name] if v not in ("A8", "AF"))
                out.append(f"Definition {name} {binders} : float := {keep}{POISON}.  (* translation failed *)\n")
    out.append("End HllQueryKernels.")
    return {FNAME: "\n".join(out) + "\n"}, errors


if __name__ == "__main__":
    import sys
    t, e = generate(sys.argv[1] if len(sys.argv) > 1 else "/repo")
    for k, v in t.items():
        print("=====", k)
        print(v)
    print("errors:", e)
