"""cms_common.py — generators, implementation runner and Coq printers for the
cms-linear correspondence suite (C01, C05, C09, C12, C18 linear parts)."""
import os
from collections import Counter

import lib

CAP = 2**32 - 1

BASE_KEYS = [b"", b"\x00", b"\x00\x00", b"a", b"a\x00", b"ab", b"\xff", b"\x80\xfe", b"abc", b"key-1",
             b"0123456789abcdef", bytes(range(64)), b"\x00" * 8, b"zz\x00zz"]
MULTS = [0, 1, 1, 1, 2, 3, 5, 17, 1000, CAP - 2, CAP - 1, CAP, CAP + 1, 2**40]


def zk(k):
    return lib.zlist(k)


def windows(key, n):
    if len(key) <= n:
        return [key]
    return [key[i:i + n] for i in range(len(key) - n + 1)]


def gen_program(rng, max_len=25, nslots=None, alphabet=None, allow_merge=True, allow_saveload=True,
                big_mults=True):
    """A random API-level program over up to 4 sketch slots."""
    if alphabet is None:
        alphabet = rng.sample(BASE_KEYS, rng.randint(3, 6))
    nslots = nslots or rng.choice([1, 1, 2, 3, 4])
    L = rng.randint(1, max_len)
    mults = MULTS if big_mults else [0, 1, 1, 1, 2, 3, 5]
    prog = []
    nmerge = 0
    for _ in range(L):
        slot = rng.randrange(nslots)
        x = rng.random()
        if x < 0.50:
            prog.append(("add", slot, rng.choice(alphabet), rng.choice(mults)))
        elif x < 0.58:
            prog.append(("update_list", slot, [rng.choice(alphabet) for _ in range(rng.randint(0, 4))]))
        elif x < 0.66:
            ks = rng.sample(alphabet, rng.randint(0, min(3, len(alphabet))))
            prog.append(("update_dict", slot, [(k, rng.choice(mults)) for k in ks]))
        elif x < 0.74:
            k = rng.choice(alphabet)
            prog.append(("ngram", slot, k, rng.randint(1, max(1, min(len(k) + 2, 6)))))
        elif x < 0.78:
            ks = [rng.choice(alphabet) for _ in range(rng.randint(0, 2))]
            prog.append(("update_ngram", slot, ks, rng.randint(1, 4)))
        elif x < 0.90 and allow_merge and nslots > 1 and nmerge < 3:
            src = rng.choice([s for s in range(nslots) if s != slot])
            prog.append(("merge", slot, src))
            nmerge += 1
        elif x < 0.96 and allow_saveload:
            prog.append(("saveload", slot))
        else:
            prog.append(("add", slot, rng.choice(alphabet), 1))
    return alphabet, nslots, prog


def universe_of(alphabet, prog):
    """every key that can reach the sketch: alphabet + all ngram windows"""
    u = list(dict.fromkeys(alphabet))
    for op in prog:
        if op[0] == "ngram":
            for w in windows(op[2], op[3]):
                if w not in u:
                    u.append(w)
        elif op[0] == "update_ngram":
            for k in op[2]:
                for w in windows(k, op[3]):
                    if w not in u:
                        u.append(w)
    return u


def probe_buckets(mk, universe, depth):
    """observe which counter each key owns per row: add it to an empty probe sketch"""
    import numpy as np
    bm = {}
    for k in universe:
        p = mk()
        p.add(k)
        cols = []
        for r in range(depth):
            nz = np.flatnonzero(np.asarray(p.cms[r]))
            if len(nz) != 1:
                raise RuntimeError(f"probe: key {k!r} moved {len(nz)} counters in row {r}")
            cols.append(int(nz[0]))
        bm[k] = cols
        del p
    return bm


class Slot:
    def __init__(self, sk, width, depth):
        self.sk = sk
        self.truth = Counter()
        self.hist = "AEmpty"


def run_program(ctx, cls_mk, width, depth, alphabet, nslots, prog, tmpdir, on_step=None):
    """Run on the implementation.  Returns slots (with API-history terms and truth counters)."""
    slots = [Slot(cls_mk(), width, depth) for _ in range(nslots)]
    for i, op in enumerate(prog):
        apply_op(slots[op[1]], op, slots, tmpdir)
        if on_step is not None:
            on_step(i, op, slots)
    return slots


def snapshot(sk, universe):
    import numpy as np
    tab = [[int(x) for x in row] for row in np.asarray(sk.cms)]
    return tab, int(sk.n_added()), int(sk.n_records()), [(k, int(sk.query(k))) for k in universe]


def coq_expect(snap):
    tab, na, nr, qs = snap
    rows = "[" + "; ".join(lib.zlist(r) for r in tab) + "]"
    q = "[" + "; ".join(f"({zk(k)}, {v})" for k, v in qs) + "]"
    return f"({rows}, {na}, {nr}, {q})"


def coq_bmap(bm):
    return "[" + "; ".join("(%s, [%s])" % (zk(k), "; ".join("%d%%nat" % c for c in cols)) for k, cols in bm.items()) + "]"


def coq_case(width, depth, bm, hist_expect):
    hs = "[" + "; ".join(f"({h}, {coq_expect(e)})" for h, e in hist_expect) + "]"
    return f"({width}%nat, {depth}%nat, {coq_bmap(bm)}, {hs})"


def sandwich_violation(sk, truth, bm, universe, depth):
    """C01 predicate on the implementation: min(T,cap) <= est <= min(cap, min_r mass_r)."""
    mass = [Counter() for _ in range(depth)]
    for k, t in truth.items():
        for r in range(depth):
            mass[r][bm[k][r]] += t
    for k in universe:
        est = int(sk.query(k))
        t = truth.get(k, 0)
        lo = min(t, CAP)
        hi = min([CAP] + [mass[r][bm[k][r]] for r in range(depth)])
        if not (lo <= est <= hi):
            return {"key": list(k), "estimate": est, "true_count": t, "lower": lo, "upper": hi}
        # exactness when collision-free in some row
        for r in range(depth):
            if mass[r][bm[k][r]] == t and est != lo:
                return {"key": list(k), "estimate": est, "true_count": t, "collision_free_row": r}
    return None


def prog_json(prog):
    out = []
    for op in prog:
        o = []
        for x in op:
            if isinstance(x, bytes):
                o.append(list(x))
            elif isinstance(x, list):
                o.append([[list(a), b] if isinstance(y, tuple) else list(y) for y in x for a, b in [y if isinstance(y, tuple) else (y, 0)]]
                         if x and isinstance(x[0], tuple) else [list(y) for y in x])
            else:
                o.append(x)
        out.append(o)
    return out


class LinearSuite:
    """Shared driver of the cms-linear correspondence suite: runs API-level programs on the real
    CountMinLinear, evaluates a per-step predicate on the implementation, and finally evaluates the
    Coq model (aeval) on the same histories comparing the complete final state of every slot."""

    def __init__(self, ctx, what):
        self.ctx = ctx
        self.what = what
        self.coq_cases = []
        self.hash_cases = []
        self.max_hash_cases = 0
        self.nviol = 0
        self.silent_rerun = True

    def run_case(self, width, depth, alphabet, nslots, prog, pred=None, nontrivial=None):
        """pred(i, op, slot, before, after, bm, universe) -> None | dict describing the failure.
        before/after are snapshots (table, n_added, n_records, queries) of the slot the op modified."""
        from sketchnu.countmin import CountMinLinear
        ctx = self.ctx
        universe = universe_of(alphabet, prog)
        mk = lambda: CountMinLinear(width, depth)
        bm = probe_buckets(mk, universe, depth)
        st = {"bad": None, "before": None}

        slots = [Slot(mk(), width, depth) for _ in range(nslots)]

        def step(i, op):
            s = slots[op[1]]
            before = snapshot(s.sk, universe) if pred else None
            other_before = snapshot(slots[op[2]].sk, universe) if (pred and op[0] == "merge") else None
            apply_op(s, op, slots, ctx.dir)
            if pred and st["bad"] is None:
                after = snapshot(s.sk, universe)
                extra = {"other_before": other_before,
                         "other_after": snapshot(slots[op[2]].sk, universe) if op[0] == "merge" else None}
                v = pred(i, op, s, before, after, bm, universe, extra)
                if v:
                    st["bad"] = (i, v)
        for i, op in enumerate(prog):
            step(i, op)
        if st["bad"] is None and self.silent_rerun:
            # The same program once more WITHOUT any observation between the operations (the pass above queries every
            # key before and after every operation, which rewrites the sketch's scratch state, e.g. `buckets`): a history
            # is a history whether or not somebody looked in between, so the raw state must be the same.  Added after
            # seeded change C01_add_reuses_remembered_buckets (stale scratch state reused by the next add) was missed.
            bad2 = self._silent(mk, width, depth, nslots, prog, slots)
            if bad2 is not None and self.nviol < 3:
                # shortest prefix that shows it
                n = len(prog)
                for m in range(1, len(prog)):
                    ref = [Slot(mk(), width, depth) for _ in range(nslots)]
                    try:
                        for op in prog[:m]:
                            snapshot(ref[op[1]].sk, universe)
                            apply_op(ref[op[1]], op, ref, ctx.dir)
                            snapshot(ref[op[1]].sk, universe)
                    except Exception:
                        continue
                    if self._silent(mk, width, depth, nslots, prog[:m], ref) is not None:
                        n, bad2 = m, self._silent(mk, width, depth, nslots, prog[:m], ref)
                        break
                ctx.violation({"width": width, "depth": depth, "program": prog_json(prog[:n]),
                               "mode": "operations applied back to back, no query between them",
                               "failed": bad2, "bucket_map": {str(list(k)): c for k, c in bm.items()}},
                              self.what + " [the state after the same operations differs when no query() is made between them: "
                              "it is not the state of this history]")
                self.nviol += 1
        if st["bad"] and self.nviol < 3:
            i, v = st["bad"]
            small, v2 = self.shrink(width, depth, alphabet, nslots, prog[:i + 1], pred)
            ctx.violation({"width": width, "depth": depth, "program": prog_json(small), "failed": v2 or v,
                           "original_program_length": i + 1,
                           "bucket_map": {str(list(k)): c for k, c in bm.items()}}, self.what)
            self.nviol += 1
        he = [(s.hist, snapshot(s.sk, universe)) for s in slots]
        self.coq_cases.append(coq_case(width, depth, bm, he))
        # a few short cases also go through the end-to-end model (bucket computed from Hashes.fasthash64)
        if len(self.hash_cases) < self.max_hash_cases and len(prog) <= 10 and all(len(k) <= 16 for k in universe):
            hs = "[" + "; ".join(f"({h}, {coq_expect(e)})" for h, e in he) + "]"
            self.hash_cases.append(f"({width}%nat, {depth}%nat, {hs})")
        collide = any(len({bm[k][r] for k in universe}) < len(universe) for r in range(depth))
        merges = sum(1 for op in prog if op[0] == "merge")
        nt = (collide or merges > 0) if nontrivial is None else nontrivial(prog, bm, universe)
        ctx.case_seen((width, depth, tuple(map(repr, prog))), nt)
        for op in prog:
            ctx.count("op:" + op[0])
        ctx.count("len<=5" if len(prog) <= 5 else "len<=15" if len(prog) <= 15 else "len>15")
        ctx.count(f"width={width}" if width <= 4 else "width>4")
        return slots, bm, universe

    def _silent(self, mk, width, depth, nslots, prog, observed_slots):
        """run prog on fresh sketches without touching them between the operations; None if every slot ends in the raw
        state of the observed run, else a description"""
        import numpy as np
        slots2 = [Slot(mk(), width, depth) for _ in range(nslots)]
        try:
            for op in prog:
                apply_op(slots2[op[1]], op, slots2, self.ctx.dir)
        except Exception as e:
            return {"raised_without_observation": f"{type(e).__name__}: {e}"}
        for j, (a, b) in enumerate(zip(observed_slots, slots2)):
            ta, tb = np.asarray(a.sk.cms), np.asarray(b.sk.cms)
            if ta.shape != tb.shape or not np.array_equal(ta, tb) or int(a.sk.n_added()) != int(b.sk.n_added()) \
                    or int(a.sk.n_records()) != int(b.sk.n_records()):
                return {"slot": j, "table_with_queries_between_operations": ta.tolist(), "table_without": tb.tolist(),
                        "n_added": [int(a.sk.n_added()), int(b.sk.n_added())],
                        "n_records": [int(a.sk.n_records()), int(b.sk.n_records())]}
        return None

    def _fails(self, width, depth, alphabet, nslots, prog, pred):
        """re-run a program on fresh sketches; return the predicate's failure dict or None"""
        from sketchnu.countmin import CountMinLinear
        universe = universe_of(alphabet, prog)
        mk = lambda: CountMinLinear(width, depth)
        bm = probe_buckets(mk, universe, depth)
        slots = [Slot(mk(), width, depth) for _ in range(nslots)]
        for i, op in enumerate(prog):
            s = slots[op[1]]
            before = snapshot(s.sk, universe)
            other_before = snapshot(slots[op[2]].sk, universe) if op[0] == "merge" else None
            try:
                apply_op(s, op, slots, self.ctx.dir)
            except Exception:
                return None
            after = snapshot(s.sk, universe)
            v = pred(i, op, s, before, after, bm, universe, {"other_before": other_before, "other_after": None})
            if v:
                return v
        return None

    def shrink(self, width, depth, alphabet, nslots, prog, pred):
        """greedy delta debugging on the op list: drop ops while the predicate still fails"""
        best, bestv = list(prog), None
        changed = True
        rounds = 0
        while changed and rounds < 4:
            changed = False
            rounds += 1
            i = 0
            while i < len(best):
                cand = best[:i] + best[i + 1:]
                v = self._fails(width, depth, alphabet, nslots, cand, pred) if cand else None
                if v:
                    best, bestv, changed = cand, v, True
                else:
                    i += 1
        return best, bestv

    def finish(self, shard=60):
        ctx = self.ctx
        ctx.cov["traces_validated_against_impl"] = ctx.cov.get("traces_validated_against_impl", 0) + len(self.coq_cases)
        bad, err = ctx.coq_bad_cases("lin", "Machine Harness CmsLinear CmsLinearHarness", "check_lin_case",
                                     self.coq_cases, shard=shard)
        if err:
            ctx.broken.append("correspondence cms-linear could not be evaluated: " + err)
        if bad:
            i = sorted(bad)[0]
            ctx.broken.append(f"correspondence cms-linear: model and implementation differ on {len(bad)} histories; "
                              f"first case: {self.coq_cases[i][:1500]}")
        # the end-to-end variant (columns computed by the model's own fasthash64) only means something while the source
        # computes the columns as fasthash64(key, row) % width with readable hash constants; the properties served by this
        # suite hold for EVERY row hash, so a changed row hash (C14's business) or hash function (C11's) must not alarm them
        rh = "for row in range(depth): fasthash64(key, row) % width"
        consts = getattr(ctx, "consts", None) or {}
        terr = [k for k in (getattr(ctx, "translator_errors", None) or {}) if "hashes" in k or "rowhash" in k]
        if self.hash_cases and (terr or consts.get("rowhash_query_linear", rh) != rh):
            ctx.notes.append("end-to-end cases (columns computed by the model's fasthash64) skipped: the source's row hash / hash "
                             "constants are not the ones the model's hash_bucket is written for; columns are observed instead")
            self.hash_cases = []
        if self.hash_cases:
            bad, err = ctx.coq_bad_cases("linhash", "Machine Harness CmsLinear CmsLinearHarness CmsLinearHash",
                                         "check_lin_case_hash", self.hash_cases, shard=15)
            if err:
                ctx.broken.append("correspondence cms-linear (hash computed by the model) could not be evaluated: " + err)
            if bad:
                ctx.broken.append(f"correspondence cms-linear with the model's own fasthash64 columns differs on {len(bad)} histories; "
                                  f"first: {self.hash_cases[sorted(bad)[0]][:800]}")
            ctx.cov["cases_with_model_computed_hash"] = len(self.hash_cases)
        if self.coq_cases:
            ctx.sample(self.coq_cases[min(1, len(self.coq_cases) - 1)][:600])
            ctx.sample(self.coq_cases[-1][:900])


def apply_op(s, op, slots, tmpdir):
    kind = op[0]
    if kind == "add":
        _, _, k, v = op
        s.sk.add(k, v)
        s.truth[k] += v
        s.hist = f"(AAdd {s.hist} {zk(k)} {v})"
    elif kind == "update_list":
        s.sk.update(list(op[2]))
        for k in op[2]:
            s.truth[k] += 1
        s.hist = f"(AUpdateList {s.hist} [{'; '.join(zk(k) for k in op[2])}])"
    elif kind == "update_dict":
        s.sk.update(dict(op[2]))
        for k, v in op[2]:
            s.truth[k] += v
        s.hist = f"(AUpdateDict {s.hist} [{'; '.join('(%s, %d)' % (zk(k), v) for k, v in op[2])}])"
    elif kind == "ngram":
        _, _, k, n = op
        s.sk.add_ngram(k, n)
        for w in windows(k, n):
            s.truth[w] += 1
        s.hist = f"(ANgram {s.hist} {zk(k)} {n})"
    elif kind == "update_ngram":
        _, _, ks, n = op
        s.sk.update_ngram(list(ks), n)
        for k in ks:
            for w in windows(k, n):
                s.truth[w] += 1
        s.hist = f"(AUpdateNgram {s.hist} [{'; '.join(zk(k) for k in ks)}] {n})"
    elif kind == "merge":
        o = slots[op[2]]
        s.sk.merge(o.sk)
        s.truth = s.truth + o.truth
        s.hist = f"(AMerge {s.hist} {o.hist})"
    elif kind == "saveload":
        path = os.path.join(tmpdir, "sl.npz")
        s.sk.save(path)
        s.sk = type(s.sk).load(path)
        s.hist = f"(ASaveLoad {s.hist})"
    else:
        raise ValueError(kind)
