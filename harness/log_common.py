"""log_common.py — shared driver for the log-counter count-min sketches (C05/C06/C09/C12/C18).

Drives the real CountMinLog8 / CountMinLog16 objects through their public attributes only
(cms, n_added_records, rand_nums, rand_ptr, base, num_reserved, uint_maxval, max_count),
reads the pow / decode tables out of the implementation, prints Coq terms for CmsLog.v.

Import this module only after ctx.impl() (it imports numba / sketchnu lazily in kernels()).
"""
import math
from fractions import Fraction

BATCH = 2048          # cross-checked against Consts by the check (ctx.consts)
_K = None

# Kernel primitives (machine floats / 63-bit integers) that Print Assumptions lists for anything
# that computes with PrimFloat: they are not axioms of the development (DESIGN.md section 4).
PRIMITIVES = frozenset(
    ["float", "PrimInt63.int"] +
    ["PrimFloat." + n for n in ("add", "sub", "mul", "div", "sqrt", "opp", "abs", "eqb", "ltb", "leb", "compare",
                                "classify", "of_uint63", "normfr_mantissa", "frshiftexp", "ldshiftexp",
                                "next_up", "next_down", "float", "Leibniz.eqb")] +
    ["PrimInt63." + n for n in ("add", "sub", "mul", "mulc", "div", "mod", "divs", "mods", "lsl", "lsr", "asr", "land",
                                "lor", "lxor", "eqb", "ltb", "leb", "ltsb", "lesb", "compare", "compares", "addc",
                                "addcarryc", "subc", "subcarryc", "diveucl", "diveucl_21", "addmuldiv", "head0",
                                "tail0", "int")])


# ---------------------------------------------------------------------------- jitted helpers
# Standard-library specification axioms of the primitive 63-bit integers (reached through Flocq's
# bridge Prim2B / of_int63_equiv by the theorems of CmsLogFloat.v)
AX_UINT63 = frozenset("Uint63." + n for n in (
    "add_spec", "sub_spec", "mul_spec", "mulc_spec", "div_spec", "mod_spec", "lsl_spec", "lsr_spec", "land_spec",
    "lor_spec", "lxor_spec", "eqb_correct", "eqb_refl", "ltb_spec", "leb_spec", "compare_def_spec", "of_to_Z",
    "head0_spec", "tail0_spec", "addc_def_spec", "addcarryc_def_spec", "subc_def_spec", "subcarryc_def_spec",
    "diveucl_def_spec", "diveucl_21_spec", "addmuldiv_def_spec"))


class _Kernels:
    pass


def kernels():
    """Small @njit helpers, compiled once: the same libm/LLVM pow and the same global generator
    as the kernels of countmin.py."""
    global _K
    if _K is not None:
        return _K
    import numpy as np
    from numba import njit
    from sketchnu import countmin

    @njit
    def nb_seed(x):
        np.random.seed(x)

    @njit
    def nb_rand(n):
        return np.random.rand(n)

    @njit
    def nb_powneg_table(base, n):
        out = np.empty(n, np.float64)
        for c in range(n):
            cprime = np.float64(c)
            out[c] = base ** (-cprime)
        return out

    @njit
    def nb_decode_table(nr, base, n):
        out = np.empty(n, np.float64)
        for c in range(n):
            out[c] = countmin._counter2value(np.uint16(c), np.uint16(nr), base)
        return out

    k = _Kernels()
    k.np = np
    k.countmin = countmin
    k.nb_seed = nb_seed
    k.nb_rand = nb_rand
    k.nb_powneg_table = nb_powneg_table
    k.nb_decode_table = nb_decode_table
    # warm up
    nb_seed(1)
    nb_rand(1)
    nb_powneg_table(1.5, 2)
    nb_decode_table(1, 1.5, 3)
    _K = k
    return k


def seed_numba(x):
    """Seed Numba's global generator (the one np.random.rand inside _rand draws from)."""
    kernels().nb_seed(int(x))


def numba_rand(n):
    """n draws from Numba's global generator, as a list of python floats."""
    return [float(x) for x in kernels().nb_rand(int(n))]


# ---------------------------------------------------------------------------- sketches
KINDS = {"log8": dict(umax=255, cls="CountMinLog8", wrap="wrap8"),
         "log16": dict(umax=65535, cls="CountMinLog16", wrap="wrap16")}


def make_sketch(kind, width, depth, max_count=None, num_reserved=None):
    """Construct the real object; ValueError from the constructor propagates."""
    cm = kernels().countmin
    cls = getattr(cm, KINDS[kind]["cls"])
    kw = {}
    if max_count is not None:
        kw["max_count"] = max_count
    if num_reserved is not None:
        kw["num_reserved"] = num_reserved
    return cls(width, depth, **kw)


class Config:
    """Everything the Coq model needs to know about one (kind, max_count, num_reserved)."""

    def __init__(self, kind, max_count, num_reserved):
        k = kernels()
        self.kind = kind
        self.umax = KINDS[kind]["umax"]
        sk = make_sketch(kind, 1, 1, max_count, num_reserved)
        self.max_count = int(sk.max_count)
        self.nr = int(sk.num_reserved)
        self.base = float(sk.base)
        assert int(sk.uint_maxval) == self.umax
        # base ** (-c') for c' = 0 .. umax - nr ; decode c for c = 0 .. umax + 1 (the index umax+1
        # is what _merge_log8 passes for clower + 1 at the ceiling; for log16 it wraps to 0)
        self.powneg = [float(x) for x in k.nb_powneg_table(self.base, self.umax - self.nr + 1)]
        n_dec = self.umax + 2 if kind == "log8" else self.umax + 1
        self.decode = [float(x) for x in k.nb_decode_table(self.nr, self.base, n_dec)]

    def key(self):
        return (self.kind, self.max_count, self.nr)

    def new(self, width, depth):
        sk = make_sketch(self.kind, width, depth, self.max_count, self.nr)
        assert float(sk.base) == self.base
        return sk

    # ---- Coq text
    def coq_args(self, width, depth, bucket="bk"):
        """argument string for run_ops / model functions after `width depth bucket`"""
        return f"{self.nr} {self.umax} {self.max_count} pn dc {KINDS[self.kind]['wrap']}"


# ---------------------------------------------------------------------------- rand control
def set_rand(sk, vals, pre=0, ptr=None):
    """rand_nums := 0.0 everywhere except vals written from position pre; rand_ptr := ptr (default pre).
    Matches CmsLog.mk_rs pre vals ptr."""
    assert pre + len(vals) <= BATCH
    sk.rand_nums[:] = 0.0
    if len(vals):
        sk.rand_nums[pre:pre + len(vals)] = vals
    sk.rand_ptr = pre if ptr is None else ptr


def snapshot(sk):
    """(rows, n_added, n_records, rand_ptr) — the observable state compared with CmsLog.snapshot."""
    return ([[int(x) for x in row] for row in sk.cms], int(sk.n_added_records[0]),
            int(sk.n_added_records[1]), int(sk.rand_ptr))


def set_table(sk, rows):
    np = kernels().np
    sk.cms[:, :] = np.array(rows, dtype=sk.cms.dtype)


def probe_buckets(cfg, width, depth, keys):
    """key -> [column in row r]: observed by adding the key once to an empty sketch of the same
    class and shape and reading which counter moved (the model takes the bucket map as an input)."""
    out = {}
    for k in keys:
        p = cfg.new(width, depth)
        set_rand(p, [])
        p.add(k)
        cols = []
        for r in range(depth):
            nz = [c for c in range(width) if int(p.cms[r, c]) != 0]
            if len(nz) != 1:
                raise AssertionError(f"probe: row {r} of key {k!r} moved {nz}")
            cols.append(nz[0])
        out[k] = cols
    return out


# ---------------------------------------------------------------------------- Coq printers
def fhex(x):
    """exact binary64 literal for Coq: (0x1.8p+3)%float"""
    x = float(x)
    if x != x or x in (float("inf"), float("-inf")):
        raise ValueError("non-finite float in a case file")
    return "(" + x.hex() + ")%float"


def flist(xs):
    return "[" + "; ".join(fhex(x) for x in xs) + "]"


def zlist(xs):
    return "[" + "; ".join(str(int(x)) for x in xs) + "]"


def zrows(rows):
    return "[" + "; ".join(zlist(r) for r in rows) + "]"


def coq_key(k):
    return zlist(k)


def coq_bucket(bmap):
    """Definition body of the bucket function from the probed map"""
    return "bucket_of [" + "; ".join(f"({coq_key(k)}, {zlist(cols)})" for k, cols in bmap.items()) + "]"


def coq_snap(s):
    rows, na, nrec, ptr = s
    return f"({zrows(rows)}, {na}, {nrec}, {ptr})"


# ---------------------------------------------------------------------------- operations
class Op:
    """One harness operation: apply(sk) on the real object, coq() as a CmsLog.lop term."""

    def __init__(self, kind, **kw):
        self.kind = kind
        self.__dict__.update(kw)

    def apply(self, sk):
        k = self.kind
        if k == "add":
            sk.add(self.key, self.v)
        elif k == "add1":                 # add(key) with the default multiplicity
            sk.add(self.key)
        elif k == "ngram":
            sk.add_ngram(self.key, self.n)
        elif k == "upd_list":
            sk.update(list(self.keys))
        elif k == "upd_dict":
            sk.update(dict(self.items))
        elif k == "upd_ngram":
            sk.update_ngram(list(self.keys), self.n)
        elif k == "merge":
            sk.merge(self.other)
        elif k == "set_table":
            set_table(sk, self.rows)
        elif k == "set_rand":
            set_rand(sk, self.vals, self.pre, self.ptr)
        else:
            raise ValueError(k)

    def coq(self):
        k = self.kind
        if k == "add":
            return f"OAdd {coq_key(self.key)} {self.v}"
        if k == "add1":
            return f"OAdd {coq_key(self.key)} 1"
        if k == "ngram":
            return f"ONgram {coq_key(self.key)} {self.n}"
        if k == "upd_list":
            return "OUpdList [" + "; ".join(coq_key(x) for x in self.keys) + "]"
        if k == "upd_dict":
            return "OUpdDict [" + "; ".join(f"({coq_key(a)}, {b})" for a, b in self.items) + "]"
        if k == "upd_ngram":
            return "OUpdNgram [" + "; ".join(coq_key(x) for x in self.keys) + f"] {self.n}"
        if k == "merge":
            rows, na, nrec, _ = self.other_snap
            return f"OMerge {zrows(rows)} {na} {nrec}"
        if k == "set_table":
            return f"OSetTable {zrows(self.rows)}"
        if k == "set_rand":
            fut = "[" + "; ".join(flist(b) for b in getattr(self, "fut", [])) + "]"
            return f"OSetRand {self.pre} {flist(self.vals)} {self.ptr if self.ptr is not None else self.pre} {fut}"
        raise ValueError(k)

    def json(self):
        d = {"op": self.kind}
        for a in ("key", "v", "n", "keys", "items", "rows", "vals", "pre", "ptr"):
            if hasattr(self, a):
                x = getattr(self, a)
                if isinstance(x, bytes):
                    x = list(x)
                elif a == "keys":
                    x = [list(b) for b in x]
                elif a == "items":
                    x = [[list(b), c] for b, c in x]
                elif a == "vals":
                    x = [float(y).hex() for y in x]
                d[a] = x
        if self.kind == "merge":
            d["other"] = self.other_snap[:3]
        return d


class Runner:
    """Applies ops to the real object and records the snapshot after every op.  A refill of rand_nums
    during an op is detected (the batch changed) and the new batch is recorded on the most recent
    set_rand op as a future batch (its first rand_ptr values; extended if later ops read further).
    Every op must consume fewer than 2048 draws (the generators guarantee it), so at most one refill
    happens per op."""

    def __init__(self, sk):
        self.sk = sk
        self.snaps = []
        self.last_set = None

    def step(self, op):
        np = kernels().np
        sk = self.sk
        if op.kind == "merge":
            op.other_snap = snapshot(op.other)
        before = sk.rand_nums.copy()
        op.apply(sk)
        last_set = self.last_set
        if op.kind == "set_rand":
            self.last_set = op
            op.fut = []
        elif not np.array_equal(before, sk.rand_nums):
            if last_set is None:
                raise AssertionError("refill before any set_rand: draws not under control")
            if last_set.fut:
                # a second refill in the same stretch: the previous batch was consumed completely
                last_set.fut[-1] = [float(x) for x in before]
            last_set.fut.append([float(x) for x in sk.rand_nums[:int(sk.rand_ptr)]])
        elif last_set is not None and last_set.fut and int(sk.rand_ptr) > len(last_set.fut[-1]):
            last_set.fut[-1] = [float(x) for x in sk.rand_nums[:int(sk.rand_ptr)]]
        snap = snapshot(sk)
        self.snaps.append(snap)
        return snap


def run_ops(sk, ops):
    """Apply ops to the real object; returns the snapshot after every op (see Runner)."""
    r = Runner(sk)
    for op in ops:
        r.step(op)
    return r.snaps


def hist_case(width, depth, bmap, ops, snaps):
    """Coq term for CmsLog.hist_case_ok: (width, depth, bucket map, ops, snapshots)"""
    return (f"({width}, {depth}, [" + "; ".join(f"({coq_key(k)}, {zlist(c)})" for k, c in bmap.items()) + "], ["
            + "; ".join(o.coq() for o in ops) + "], [" + "; ".join(coq_snap(x) for x in snaps) + "])")


# ---------------------------------------------------------------------------- tables for Coq
def _chunks(name, xs, n=2048):
    out = []
    names = []
    for i in range(0, len(xs), n):
        nm = f"{name}_{i // n}"
        names.append(nm)
        out.append(f"Definition {nm} : list float := {flist(xs[i:i + n])}.\n")
    return "".join(out), "[" + "; ".join(names) + "]"


def coq_table_defs(cfg):
    """Definitions pnt, dct : ftree (tries, evaluated once) from the implementation's tables"""
    a, an = _chunks("pn_l", cfg.powneg)
    b, bn = _chunks("dc_l", cfg.decode)
    return (a + b + f"Definition pnt : ftree := Eval vm_compute in ft_of_chunks {an}.\n"
            f"Definition dct : ftree := Eval vm_compute in ft_of_chunks {bn}.\n")


def coq_table_prelude(cfg, module=None):
    """Prelude text defining pn, dc : Z -> float.  module: name of a compiled table module
    (compile_tables) or None to inline the tables (log8)."""
    if module is None:
        return coq_table_defs(cfg) + "Definition pn := tabt_of pnt.\nDefinition dc := tabt_of dct.\n"
    return f"Require Import {module}.\nDefinition pn := tabt_of pnt.\nDefinition dc := tabt_of dct.\n"


def compile_tables(ctx, cfgs):
    """Compile one table module per configuration into ctx.dir (7 s for a log16 configuration, paid
    once instead of once per case shard).  Returns {cfg.key(): module name}."""
    import os
    import lib
    from concurrent.futures import ThreadPoolExecutor
    mods = {}
    todo = []
    for cfg in cfgs:
        name = f"Tab_{cfg.kind}_{cfg.max_count}_{cfg.nr}"
        mods[cfg.key()] = name
        path = os.path.join(ctx.dir, name + ".v")
        if not os.path.exists(path):
            with open(path, "w") as f:
                f.write("From Coq Require Import ZArith List Floats.PrimFloat.\n"
                        "From Sketchnu Require Import Machine CmsLog.\nImport ListNotations.\n")
                f.write(coq_table_defs(cfg))
            todo.append(name)

    def one(name):
        return name, lib.run(["coqc"] + lib.COQFLAGS + [name + ".v"], 900, cwd=ctx.dir)
    with ThreadPoolExecutor(max_workers=lib.PAR) as ex:
        for name, (rc, out, err) in ex.map(one, todo):
            if rc != 0:
                ctx.broken.append(f"table module {name} does not compile: {err.strip()[:300]}")
    return mods


def coq_jobs(ctx, imports, jobs, timeout=900):
    """Evaluate several case suites with different check functions / preludes in ONE pool of lib.PAR
    coqc processes (lib.coq_bad_cases runs one suite at a time).
    jobs: list of (tag, check_fn, cases, shard, prelude).  Returns {tag: (set of bad indices, error or None)}."""
    import os
    import re
    import lib
    from concurrent.futures import ThreadPoolExecutor
    files = []
    res = {}
    for tag, check_fn, cases, shard, prelude in jobs:
        res[tag] = (set(), [])
        for si in range(0, len(cases), shard):
            name = f"cases_{tag}_{si // shard}.v"
            with open(os.path.join(ctx.dir, name), "w") as f:
                f.write("From Coq Require Import String ZArith List Bool Floats.PrimFloat.\n")
                f.write(f"From Sketchnu Require Import {imports}.\n")
                f.write("Import ListNotations.\nOpen Scope Z_scope.\n")
                f.write(prelude + "\n")
                f.write("Definition cases := [\n")
                f.write(";\n".join(f"({i}, {c})" for i, c in enumerate(cases[si:si + shard], si)))
                f.write("\n].\n")
                f.write(f"Eval vm_compute in (bad_cases ({check_fn}) cases).\n")
            files.append((tag, name))

    def one(tn):
        import time
        t = time.time()
        r = lib.run(["coqc"] + lib.COQFLAGS + [tn[1]], timeout, cwd=ctx.dir)
        return tn, r, time.time() - t
    slow = []
    with ThreadPoolExecutor(max_workers=lib.PAR) as ex:
        for (tag, name), (rc, out, err), dt in ex.map(one, files):
            bad, errs = res[tag]
            if dt > 20:
                slow.append((name, round(dt, 1)))
            if rc != 0:
                errs.append(f"{name}: rc={rc} {err.strip()[:600]}")
                continue
            flat = " ".join(out.split())
            m = re.search(r"= \[(.*?)\]\s*:\s*list Z", flat)
            if not m:
                errs.append(f"{name}: unparsable output {flat[:300]}")
                continue
            body = m.group(1).strip()
            if body:
                bad |= {int(x) for x in re.findall(r"-?\d+", body)}
    if slow:
        lib.log("slow coq case files:", slow)
    return {tag: (bad, "; ".join(errs) if errs else None) for tag, (bad, errs) in res.items()}


# ---------------------------------------------------------------------------- exact arithmetic on tables
def pow_bounds(base, n, bits=160):
    """(lo, hi) Fractions with lo <= Fraction(base)**n <= hi, n >= 0, by square-and-multiply on
    dyadic intervals rounded outward to `bits` bits (no huge integers for n ~ 65535)."""
    b = Fraction(base)

    def rnd(x, up):
        if x == 0:
            return x
        e = x.numerator.bit_length() - x.denominator.bit_length() - bits
        scale = Fraction(2) ** e
        q = x / scale
        fl = q.numerator // q.denominator
        if up and fl != q:
            fl += 1
        return fl * scale
    lo = hi = Fraction(1)
    blo = bhi = b
    while n:
        if n & 1:
            lo, hi = rnd(lo * blo, False), rnd(hi * bhi, True)
        n >>= 1
        if n:
            blo, bhi = rnd(blo * blo, False), rnd(bhi * bhi, True)
    return lo, hi


def check_tables_exact(cfg, tol_bits=45, counters=None):
    """The DESIGN 3.4 conditions on the tables in exact rational arithmetic.  Returns a list of
    failure descriptions (empty = all hold):
      powneg 0 = 1; powneg strictly decreasing and positive; decode c = c for c <= nr+1;
      decode strictly increasing; |powneg(c+1)*base - powneg(c)| <= 2^-tol * powneg(c);
      |decode(c+1) - (base*(decode(c)-nr) + 1 + nr)| <= 2^-tol * (2*decode(c+1) - nr + 1/(base-1)) for c >= nr
      (error model of _counter2value: rounding at the magnitude of the value plus the cancellation
      in base**c' - 1 amplified by 1/(base-1); measured worst 2^-52 over the grid; a plain relative
      bound fails at 2^-39 for bases within 1e-5 of 1)."""
    bad = []
    F = Fraction
    b = F(cfg.base)
    eps = F(1, 2 ** tol_bits)
    pn, dc, nr, umax = cfg.powneg, cfg.decode, cfg.nr, cfg.umax
    if pn[0] != 1.0:
        bad.append("powneg 0 != 1.0")
    rng = range(len(pn) - 1) if counters is None else [c - nr for c in counters if nr <= c < umax]
    for i in rng:
        if not (0.0 < pn[i + 1] < pn[i]):
            bad.append(f"powneg not decreasing/positive at c'={i}")
        if abs(F(pn[i + 1]) * b - F(pn[i])) > eps * F(pn[i]):
            bad.append(f"powneg recurrence off at c'={i}")
        if len(bad) > 5:
            return bad
    for c in range(0, nr + 2):
        if dc[c] != float(c):
            bad.append(f"decode {c} != {c}")
            break
    rng = range(umax) if counters is None else [c for c in counters if c < umax]
    for c in rng:
        if not dc[c] < dc[c + 1]:
            bad.append(f"decode not increasing at c={c}")
        if c >= nr:
            rhs = b * (F(dc[c]) - nr) + 1 + nr
            if abs(F(dc[c + 1]) - rhs) * (b - 1) > eps * ((2 * F(dc[c + 1]) - nr) * (b - 1) + 1):
                bad.append(f"decode recurrence off at c={c}")
        if len(bad) > 5:
            return bad
    return bad


def ulp_neighbours(t):
    """(t - ulp, t, t + ulp) as floats"""
    return math.nextafter(t, -math.inf), t, math.nextafter(t, math.inf)


ONE_MINUS = 1.0 - 2.0 ** -53


# ---------------------------------------------------------------------------- generators
HOSTILE_KEYS = [b"", b"\x00", b"\x00\x00", b"a", b"a\x00", b"ab", b"abc", b"\xff", b"\x80\xff", b"abcd",
                b"abcdefgh", b"abcdefghi", b"0123456789abcdef", b"\x00" * 9, b"b", b"ba", b"aa", b"aaa"]


def gen_keys(rng, n):
    ks = rng.sample(HOSTILE_KEYS, min(n, len(HOSTILE_KEYS)))
    while len(ks) < n:
        ks.append(bytes(rng.getrandbits(8) for _ in range(rng.randrange(1, 6))))
    return ks


LOG8_GRID = [(4294967295, 15), (300, 0), (1000, 15), (1000, 250), (100000, 100), (2 ** 63, 15),
             (2 ** 64 - 1, 1), (5000, 200), (70000, 0), (10 ** 12, 128), (1000, 253), (400, 100)]
LOG16_GRID = [(4294967295, 1023), (100000, 0), (100000, 65000), (2 ** 63, 1023), (70000, 100), (10 ** 7, 65533)]


def configs(kind, tier, cache={}):
    """Config objects of the grid that the constructor accepts; rejected ones are returned separately."""
    grid = LOG8_GRID if kind == "log8" else LOG16_GRID
    if tier == "quick":
        grid = grid[:8] if kind == "log8" else grid[:4]
    ok, rejected = [], []
    for mc, nr in grid:
        key = (kind, mc, nr)
        if key not in cache:
            try:
                cache[key] = Config(kind, mc, nr)
            except ValueError as e:
                cache[key] = e
        if isinstance(cache[key], Exception):
            rejected.append((mc, nr, str(cache[key])))
        else:
            ok.append(cache[key])
    return ok, rejected


def draw_choices(cfg, rng, counters):
    """draw values that sit on the decision boundaries of the given counter values"""
    out = [0.0, ONE_MINUS]
    for c in counters:
        if cfg.nr <= c < cfg.umax:
            out.extend(ulp_neighbours(cfg.powneg[c - cfg.nr]))
    out = [x for x in out if 0.0 <= x < 1.0]
    return out


def gen_history(rng, cfg, keys, width, depth, nops, others=(), allow_set_table=False, big=True):
    """A random op list (first op is always a set_rand).  Multiplicities are small, or large only
    where the counter saturates within the zero padding of the batch."""
    umax, nr = cfg.umax, cfg.nr
    interesting = sorted({0, 1, max(nr - 1, 0), nr, nr + 1, nr + 2, umax - 2, umax - 1, umax})
    ops = []

    def new_rand():
        cs = [rng.choice(interesting) for _ in range(3)] + [rng.randrange(nr, umax + 1) for _ in range(3)]
        pool = draw_choices(cfg, rng, cs) + [rng.random() for _ in range(3)]
        m = rng.choice([0, 3, 8, 20])
        vals = [rng.choice(pool) for _ in range(m)]
        pre = rng.choice([0, 0, 5, BATCH - m, BATCH - m - 2 if BATCH - m - 2 >= 0 else 0])
        return Op("set_rand", vals=vals, pre=pre, ptr=pre)
    ops.append(new_rand())
    for _ in range(nops):
        r = rng.random()
        k = rng.choice(keys)
        if r < 0.35:
            v = rng.choice([0, 1, 1, 2, 3, rng.randrange(0, 40), min(nr, 1000), min(nr, 1000) + 1, min(nr, 1000) + 2])
            ops.append(Op("add", key=k, v=v))
        elif r < 0.42:
            ops.append(Op("add1", key=k))
        elif r < 0.50 and big and cfg.kind == "log8":
            # saturating add: at most umax draws, all zero padding after the explicit stretch
            ops.append(Op("set_rand", vals=[], pre=0, ptr=0))
            ops.append(Op("add", key=k, v=rng.choice([2 ** 40, 2 ** 32 + 1, 10 ** 4, 2 ** 50])))
            ops.append(new_rand())
        elif r < 0.60:
            kk = rng.choice(keys + [b"abcabcab", b"aaaaaa", b"\x00\x00\x00\x00"])
            ops.append(Op("ngram", key=kk, n=rng.choice([1, 2, 3, max(len(kk), 1), len(kk) + 1, len(kk) + 2])))
        elif r < 0.68:
            ops.append(Op("upd_list", keys=[rng.choice(keys) for _ in range(rng.randrange(0, 6))]))
        elif r < 0.76:
            items = {}
            for _ in range(rng.randrange(0, 5)):
                items[rng.choice(keys)] = rng.choice([1, 2, 5, rng.randrange(1, 30)])
            ops.append(Op("upd_dict", items=list(items.items())))
        elif r < 0.82:
            ops.append(Op("upd_ngram", keys=[rng.choice(keys) for _ in range(rng.randrange(0, 4))],
                          n=rng.choice([1, 2, 3])))
        elif r < 0.90 and others:
            ops.append(Op("merge", other=rng.choice(others)))
        elif r < 0.94 and allow_set_table:
            rows = [[rng.choice(interesting + [rng.randrange(0, umax + 1)]) for _ in range(width)]
                    for _ in range(depth)]
            ops.append(Op("set_table", rows=rows))
        else:
            ops.append(new_rand())
    return ops
