(* C05 — an add raises the key's estimate by its multiplicity and nothing else past it.
   Linear part: for EVERY state with counters in range (stronger than reachable states),
   every row-hash function, every key and every multiplicity v >= 0.
   Log part: see the C05_log_* theorems below (CmsLogProofs.v). *)
From Coq Require Import ZArith List.
From Sketchnu Require Import Machine CmsLinear CmsLinearProofs.
Import ListNotations.
Open Scope Z_scope.

Theorem C05_lin_self : forall depth bucket (s : sk) (k : key) (v : Z), Rng s -> 0 <= v ->
  query depth bucket (cls_add depth bucket s k v) k = Z.min (query depth bucket s k + Z.min v cap) cap.
Proof. exact CmsLinearProofs.C05_lin_self. Qed.
Print Assumptions C05_lin_self.

Theorem C05_lin_mono : forall depth bucket (s : sk) (k : key) (v : Z) (j : key), Rng s -> 0 <= v ->
  query depth bucket s j <= query depth bucket (cls_add depth bucket s k v) j.
Proof. exact CmsLinearProofs.C05_lin_mono. Qed.
Print Assumptions C05_lin_mono.

Theorem C05_lin_bound : forall depth bucket (s : sk) (k : key) (v : Z) (j : key), Rng s -> 0 <= v ->
  query depth bucket (cls_add depth bucket s k v) j <=
  Z.max (query depth bucket s j) (query depth bucket (cls_add depth bucket s k v) k).
Proof. exact CmsLinearProofs.C05_lin_bound. Qed.
Print Assumptions C05_lin_bound.

Theorem C05_lin_one_per_row : forall depth bucket (s : sk) (k : key) (v : Z) (r c : nat),
  c <> bucket r k -> cms (cls_add depth bucket s k v) r c = cms s r c.
Proof. exact CmsLinearProofs.C05_lin_one_per_row. Qed.
Print Assumptions C05_lin_one_per_row.

Theorem C05_lin_nadded : forall depth bucket (s : sk) (k : key) (v : Z), Rng s -> 0 <= v ->
  n_added (cls_add depth bucket s k v) = n_added s + Z.min v (cap - query depth bucket s k).
Proof. exact CmsLinearProofs.C05_lin_nadded. Qed.
Print Assumptions C05_lin_nadded.

Theorem C05_lin_nadded_uncut : forall depth bucket (s : sk) (k : key) (v : Z), Rng s -> 0 <= v ->
  query depth bucket s k + v <= cap -> n_added (cls_add depth bucket s k v) = n_added s + v.
Proof. exact CmsLinearProofs.C05_lin_nadded_uncut. Qed.
Print Assumptions C05_lin_nadded_uncut.

(* every reachable state (any history incl. merges and save/load) satisfies the hypothesis *)
Theorem C05_lin_reachable : forall width depth bucket (h : hist), Rng (eval width depth bucket h).
Proof. exact Rng_eval. Qed.
Print Assumptions C05_lin_reachable.

Example C05_lin_nonvacuous :
  let b : nat -> key -> nat := fun _ _ => 0%nat in
  let s := eval 1 2 b (HMerge (HAdd HEmpty [1] 7) (HAdd HEmpty [2] (cap - 10))) in
  query 2 b s [1] = cap - 3 /\ query 2 b (cls_add 2 b s [2] 5) [1] = cap /\
  n_added (cls_add 2 b s [2] 5) = n_added s + 3 /\ n_added (cls_add 2 b s [2] 2) = n_added s + 2.
Proof. vm_compute. repeat split; reflexivity. Qed.
