(* C05 — an add raises the key's estimate by its multiplicity and nothing else past it.
   Linear part: for EVERY state with counters in range (stronger than reachable states),
   every row-hash function, every key and every multiplicity v >= 0.
   Log part: see the C05_log_* theorems below (CmsLogProofs.v). *)
From Coq Require Import ZArith List.
From Coq Require Import Floats.PrimFloat.
From Sketchnu Require Import Machine CmsLinear CmsLinearProofs.
From Sketchnu Require CmsLog CmsLogProofs.
Import ListNotations.
Open Scope Z_scope.

Theorem C05_lin_self : forall depth bucket (s : sk) (k : key) (v : Z), Rng s -> 0 <= v ->
  query depth bucket (cls_add depth bucket s k v) k = Z.min (query depth bucket s k + Z.min v cap) cap.
Proof. exact CmsLinearProofs.C05_lin_self. Qed.
Print Assumptions C05_lin_self.

Theorem C05_lin_mono : forall depth bucket (s : sk) (k : key) (v : Z) (j : key), Rng s -> 0 <= v ->
  query depth bucket s j <= query depth bucket (cls_add depth bucket s k v) j.
Proof. exact CmsLinearProofs.C05_lin_mono. Qed.
Print Assumptions C05_lin_mono.

Theorem C05_lin_bound : forall depth bucket (s : sk) (k : key) (v : Z) (j : key), Rng s -> 0 <= v ->
  query depth bucket (cls_add depth bucket s k v) j <=
  Z.max (query depth bucket s j) (query depth bucket (cls_add depth bucket s k v) k).
Proof. exact CmsLinearProofs.C05_lin_bound. Qed.
Print Assumptions C05_lin_bound.

Theorem C05_lin_one_per_row : forall depth bucket (s : sk) (k : key) (v : Z) (r c : nat),
  c <> bucket r k -> cms (cls_add depth bucket s k v) r c = cms s r c.
Proof. exact CmsLinearProofs.C05_lin_one_per_row. Qed.
Print Assumptions C05_lin_one_per_row.

Theorem C05_lin_nadded : forall depth bucket (s : sk) (k : key) (v : Z), Rng s -> 0 <= v ->
  n_added (cls_add depth bucket s k v) = n_added s + Z.min v (cap - query depth bucket s k).
Proof. exact CmsLinearProofs.C05_lin_nadded. Qed.
Print Assumptions C05_lin_nadded.

Theorem C05_lin_nadded_uncut : forall depth bucket (s : sk) (k : key) (v : Z), Rng s -> 0 <= v ->
  query depth bucket s k + v <= cap -> n_added (cls_add depth bucket s k v) = n_added s + v.
Proof. exact CmsLinearProofs.C05_lin_nadded_uncut. Qed.
Print Assumptions C05_lin_nadded_uncut.

(* every reachable state (any history incl. merges and save/load) satisfies the hypothesis *)
Theorem C05_lin_reachable : forall width depth bucket (h : hist), Rng (eval width depth bucket h).
Proof. exact Rng_eval. Qed.
Print Assumptions C05_lin_reachable.

Example C05_lin_nonvacuous :
  let b : nat -> key -> nat := fun _ _ => 0%nat in
  let s := eval 1 2 b (HMerge (HAdd HEmpty [1] 7) (HAdd HEmpty [2] (cap - 10))) in
  query 2 b s [1] = cap - 3 /\ query 2 b (cls_add 2 b s [2] 5) [1] = cap /\
  n_added (cls_add 2 b s [2] 5) = n_added s + 3 /\ n_added (cls_add 2 b s [2] 2) = n_added s + 2.
Proof. vm_compute. repeat split; reflexivity. Qed.

(* ---------------- log8 / log16 ----------------
   For every table powneg (standing for base ** -c'), every draw source, every cast that is the
   identity on 0..umax (uint8 / uint16), every state with counters in 0..umax. *)
Import CmsLog.
Import CmsLogProofs.

Theorem C05_log_steps : forall depth bucket nr umax powneg castc,
  0 <= umax -> (forall x, 0 <= x <= umax -> castc x = x) ->
  forall (s : lsk) (k : key) (v : Z), lsk_ok umax s -> 0 <= v ->
  lquery depth bucket umax s k
    <= lquery depth bucket umax (lcls_add depth bucket nr umax powneg castc s k v) k
    <= Z.min (lquery depth bucket umax s k + v) umax.
Proof. exact CmsLogProofs.C05_log_steps. Qed.
Print Assumptions C05_log_steps.

Theorem C05_log_exact : forall depth bucket nr umax powneg castc,
  0 <= umax -> (forall x, 0 <= x <= umax -> castc x = x) -> nr < umax -> powneg 0 = f_one ->
  forall (s : lsk) (k : key) (v : Z), lsk_ok umax s -> rs_draws_ok (lrs s) -> 0 <= v ->
  lquery depth bucket umax s k + v <= nr + 1 ->
  lquery depth bucket umax (lcls_add depth bucket nr umax powneg castc s k v) k = lquery depth bucket umax s k + v.
Proof. exact CmsLogProofs.C05_log_exact. Qed.
Print Assumptions C05_log_exact.

Theorem C05_log_exact_estimate : forall depth bucket nr umax powneg decode castc,
  0 <= umax -> (forall x, 0 <= x <= umax -> castc x = x) -> nr < umax -> powneg 0 = f_one ->
  forall (s : lsk) (k : key) (v : Z), (forall c, 0 <= c <= nr + 1 -> decode c = z2f c) ->
  lsk_ok umax s -> rs_draws_ok (lrs s) -> 0 <= v -> lquery depth bucket umax s k + v <= nr + 1 ->
  lestimate depth bucket umax decode s k = z2f (lquery depth bucket umax s k) /\
  lestimate depth bucket umax decode (lcls_add depth bucket nr umax powneg castc s k v) k
    = z2f (lquery depth bucket umax s k + v).
Proof. exact CmsLogProofs.C05_log_exact_estimate. Qed.
Print Assumptions C05_log_exact_estimate.

Theorem C05_log_mono : forall depth bucket nr umax powneg castc,
  0 <= umax -> (forall x, 0 <= x <= umax -> castc x = x) ->
  forall (s : lsk) (k : key) (v : Z) (j : key), lsk_ok umax s -> 0 <= v ->
  lquery depth bucket umax s j <= lquery depth bucket umax (lcls_add depth bucket nr umax powneg castc s k v) j.
Proof. exact CmsLogProofs.C05_log_mono. Qed.
Print Assumptions C05_log_mono.

Theorem C05_log_bound : forall depth bucket nr umax powneg castc,
  0 <= umax -> (forall x, 0 <= x <= umax -> castc x = x) ->
  forall (s : lsk) (k : key) (v : Z) (j : key), lsk_ok umax s -> 0 <= v ->
  lquery depth bucket umax (lcls_add depth bucket nr umax powneg castc s k v) j <=
  Z.max (lquery depth bucket umax s j) (lquery depth bucket umax (lcls_add depth bucket nr umax powneg castc s k v) k).
Proof. exact CmsLogProofs.C05_log_bound. Qed.
Print Assumptions C05_log_bound.

Theorem C05_log_one_per_row : forall depth bucket nr umax powneg castc (s : lsk) (k : key) (v : Z) (r c : nat),
  c <> bucket r k -> lcms (lcls_add depth bucket nr umax powneg castc s k v) r c = lcms s r c.
Proof. exact CmsLogProofs.C05_log_one_per_row. Qed.
Print Assumptions C05_log_one_per_row.

Theorem C05_log_nadded : forall depth bucket nr umax powneg castc (s : lsk) (k : key) (v : Z),
  ln_added (lcls_add depth bucket nr umax powneg castc s k v) = ln_added s + v.
Proof. exact CmsLogProofs.C05_log_nadded. Qed.
Print Assumptions C05_log_nadded.

(* ---------------- source tie (linear) ----------------
   _add_linear (countmin.py l.331-345) as regenerated from the source AST on this run (generated/KernelsCms.v):
   gen_add_linear_pre is the straight-line part after the query, (min_count, value, uint_maxval, n_added_records[0]) ->
   None for the early return, else Some (value, new_count, n_added_records[0]); gen_add_linear_cell is the body of the
   update loop, (cms[row, buckets[row]], new_count) -> the cell afterwards.  KernelTieCmsAdd.add_assembled is the state
   built from these two and the (tied, C01_query_source_tie) query: unchanged on None, else every cell
   (row < depth, column = the row's bucket) replaced by gen_add_linear_cell and n_added by the third component *)
From Sketchnu Require KernelsCms KernelTieCmsAdd.
Theorem C05_add_source_tie :
  (forall mc v na : Z, 0 <= mc <= CmsLinear.cap -> 0 <= v <= CmsLinear.cap -> 0 <= na -> na + v < 2^64 ->
     KernelsCms.gen_add_linear_pre mc v CmsLinear.cap na =
     if mc =? CmsLinear.cap then None
     else let v' := Z.min v (CmsLinear.cap - mc) in Some (v', mc + v', na + v')) /\
  (forall old nc : Z, 0 <= nc <= CmsLinear.cap ->
     KernelsCms.gen_add_linear_cell old nc = if old <? nc then nc else old) /\
  (forall depth bucket (s : CmsLinear.sk) (k : key) (v : Z),
     CmsLinearProofs.Rng s -> 0 <= v <= CmsLinear.cap -> 0 <= CmsLinear.n_added s -> CmsLinear.n_added s + v < 2^64 ->
     CmsLinearProofs.sk_eq (CmsLinear.add_linear depth bucket s k v) (KernelTieCmsAdd.add_assembled depth bucket s k v)).
Proof. exact KernelTieCmsAdd.tie_add. Qed.
Print Assumptions C05_add_source_tie.

Example C05_add_source_tie_nonvacuous :
  KernelsCms.gen_add_linear_pre 3 5 CmsLinear.cap 10 = Some (5, 8, 15) /\
  KernelsCms.gen_add_linear_pre (CmsLinear.cap - 2) 5 CmsLinear.cap 10 = Some (2, CmsLinear.cap, 12) /\
  KernelsCms.gen_add_linear_pre CmsLinear.cap 5 CmsLinear.cap 10 = None /\
  map (fun on => KernelsCms.gen_add_linear_cell (fst on) (snd on)) [(3, 8); (8, 8); (9, 8)] = [8; 8; 9] /\
  let s := KernelTieCmsAdd.add_assembled 2 (fun r _ => r) CmsLinear.empty [97] 4 in
  (CmsLinear.cms s 0%nat 0%nat, CmsLinear.cms s 1%nat 1%nat, CmsLinear.cms s 1%nat 0%nat, CmsLinear.cms s 2%nat 2%nat, CmsLinear.n_added s)
  = (4, 4, 0, 0, 4).
Proof. vm_compute. repeat split; reflexivity. Qed.

(* ---------------- source tie (log) ----------------
   _query_log16 / _query_log8 (countmin.py l.859-864 / l.1456-1461) and _add_log16 / _add_log8 (l.937-955 / l.1534-1555)
   as regenerated from the source AST on this run (generated/KernelsLog.v, harness/pytrans_log.py).
   gen_query_logN_init / _step: the initial minimum and the body of the row loop (after the column was stored into
   buckets[row]); the model's lquery_t is the fold of the generated step over the rows from the generated initial value.
   gen_add_logN_n_added: n_added_records[0] after the first statement; gen_add_logN_post: (min_count, result of
   _log_counter) -> None for the early return, else Some new_count (log8: after the uint8 cast, vacuous below 2^8); gen_add_logN_cell: the
   body of the update loop, (cms[row, buckets[row]], new_count) -> the cell afterwards (truncated to the array's type).
   KernelTieLogAdd.add_logN_assembled is the state built from these, the query and the model's log_counter (whose loop body
   is tied in C06_log_counter_source_tie): table unchanged on None, else every cell (row < depth, column = the row's
   bucket) replaced by gen_add_logN_cell *)
From Sketchnu Require KernelsLog KernelTieLogQuery.
Theorem C05_log_query_source_tie :
  (forall umax : Z, 0 <= umax < 2^16 -> KernelsLog.gen_query_log16_init umax = umax) /\
  (forall umax : Z, 0 <= umax < 2^8 -> KernelsLog.gen_query_log8_init umax = umax) /\
  (forall acc c : Z, KernelsLog.gen_query_log16_step acc c = if c <? acc then c else acc) /\
  (forall acc c : Z, KernelsLog.gen_query_log8_step acc c = if c <? acc then c else acc) /\
  (forall depth bucket umax (t : CmsLog.ltable) (k : key), 0 <= umax < 2^16 ->
     CmsLog.lquery_t depth bucket umax t k =
     fold_left (fun acc r => KernelsLog.gen_query_log16_step acc (t r (bucket r k))) (seq 0 depth) (KernelsLog.gen_query_log16_init umax)) /\
  (forall depth bucket umax (t : CmsLog.ltable) (k : key), 0 <= umax < 2^8 ->
     CmsLog.lquery_t depth bucket umax t k =
     fold_left (fun acc r => KernelsLog.gen_query_log8_step acc (t r (bucket r k))) (seq 0 depth) (KernelsLog.gen_query_log8_init umax)).
Proof. exact KernelTieLogQuery.tie_query_log. Qed.
Print Assumptions C05_log_query_source_tie.

Example C05_log_query_source_tie_nonvacuous :
  (KernelsLog.gen_query_log16_init 65535, KernelsLog.gen_query_log8_init 255) = (65535, 255) /\
  fold_left (fun acc c => KernelsLog.gen_query_log8_step acc c) [7; 3; 9] (KernelsLog.gen_query_log8_init 255) = 3 /\
  fold_left (fun acc c => KernelsLog.gen_query_log16_step acc c) [700; 300; 900] (KernelsLog.gen_query_log16_init 65535) = 300.
Proof. vm_compute. repeat split; reflexivity. Qed.

From Sketchnu Require KernelTieLogAdd.
Theorem C05_log_add_source_tie :
  (forall na v : Z, 0 <= na -> 0 <= v -> na + v < 2^64 ->
     KernelsLog.gen_add_log16_n_added na v = na + v /\ KernelsLog.gen_add_log8_n_added na v = na + v) /\
  (forall mc nc : Z, KernelsLog.gen_add_log16_post mc nc = if nc =? mc then None else Some nc) /\
  (forall mc nc : Z, 0 <= nc < 2^8 -> KernelsLog.gen_add_log8_post mc nc = if nc =? mc then None else Some nc) /\
  (forall old nc : Z, 0 <= nc < 2^16 -> KernelsLog.gen_add_log16_cell old nc = if old <? nc then nc else old) /\
  (forall old nc : Z, 0 <= nc < 2^8 -> KernelsLog.gen_add_log8_cell old nc = if old <? nc then nc else old) /\
  (forall depth bucket nr umax powneg (s : CmsLog.lsk) (k : key) (v : Z),
     umax < 2^16 -> CmsLogProofs.lsk_ok umax s -> 0 <= v -> 0 <= CmsLog.ln_added s -> CmsLog.ln_added s + v < 2^64 ->
     CmsLogProofs.lsk_eq (CmsLog.add_log16 depth bucket nr umax powneg s k v)
                         (KernelTieLogAdd.add_log16_assembled depth bucket nr umax powneg s k v)) /\
  (forall depth bucket nr umax powneg (s : CmsLog.lsk) (k : key) (v : Z),
     umax < 2^8 -> CmsLogProofs.lsk_ok umax s -> 0 <= v -> 0 <= CmsLog.ln_added s -> CmsLog.ln_added s + v < 2^64 ->
     CmsLogProofs.lsk_eq (CmsLog.add_log8 depth bucket nr umax powneg s k v)
                         (KernelTieLogAdd.add_log8_assembled depth bucket nr umax powneg s k v)).
Proof. exact KernelTieLogAdd.tie_add_log. Qed.
Print Assumptions C05_log_add_source_tie.

Example C05_log_add_source_tie_nonvacuous :
  (KernelsLog.gen_add_log16_n_added 10 4, KernelsLog.gen_add_log8_n_added 10 4) = (14, 14) /\
  map (fun mn => KernelsLog.gen_add_log16_post (fst mn) (snd mn)) [(3, 3); (3, 5)] = [None; Some 5] /\
  map (fun mn => KernelsLog.gen_add_log8_post (fst mn) (snd mn)) [(3, 3); (3, 5)] = [None; Some 5] /\
  map (fun on => KernelsLog.gen_add_log8_cell (fst on) (snd on)) [(3, 8); (8, 8); (9, 8)] = [8; 8; 9] /\
  map (fun on => KernelsLog.gen_add_log16_cell (fst on) (snd on)) [(3, 800); (800, 800); (900, 800)] = [800; 800; 900] /\
  (* one add of 4 on the empty 2-row sketch, num_reserved = 15: reserved range, no draw *)
  let rs := {| CmsLog.rbatch := []; CmsLog.rptr := 0; CmsLog.rfuture := [] |} in
  let s := KernelTieLogAdd.add_log8_assembled 2 (fun r _ => r) 15 255 (fun _ => CmsLog.f_one) (CmsLog.lempty rs) [97] 4 in
  CmsLogProofs.lsk_ok 255 (CmsLog.lempty rs) /\
  (CmsLog.lcms s 0%nat 0%nat, CmsLog.lcms s 1%nat 1%nat, CmsLog.lcms s 1%nat 0%nat, CmsLog.lcms s 2%nat 2%nat, CmsLog.ln_added s)
  = (4, 4, 0, 0, 4).
Proof. split; [|split; [|split; [|split; [|split; [|split]]]]]; try (vm_compute; reflexivity). intros r c. vm_compute. split; discriminate. Qed.

(* ---------------- source tie (class-level add wrappers) ----------------
   CountMinLinear.add / CountMinLog16.add / CountMinLog8.add as regenerated from the source AST on this run
   (generated/KernelsApi.v): the multiplicity the wrapper hands to the kernel (linear: clamped at uint_maxval; log: unchanged,
   the kernel's result written back to self.rand_ptr) is the model's class glue *)
From Sketchnu Require KernelsApi KernelTieApiLinear.
Theorem C05_api_linear_source_tie :
  (forall v, KernelsApi.gen_api_linear_add_value v CmsLinear.cap = Some (Z.min v CmsLinear.cap)) /\
  KernelsApi.gen_api_linear_add_writes_back = false /\
  (forall depth bucket (s : CmsLinear.sk) (k : key) (v : Z),
     option_map (CmsLinear.add_linear depth bucket s k) (KernelsApi.gen_api_linear_add_value v CmsLinear.cap)
       = Some (CmsLinear.cls_add depth bucket s k v)).
Proof. exact KernelTieApiLinear.tie_api_linear. Qed.
Print Assumptions C05_api_linear_source_tie.

From Sketchnu Require KernelTieApiLog.
Theorem C05_api_log_source_tie :
  (forall v u, KernelsApi.gen_api_log16_add_value v u = Some v) /\ (forall v u, KernelsApi.gen_api_log8_add_value v u = Some v) /\
  KernelsApi.gen_api_log16_add_writes_back = true /\ KernelsApi.gen_api_log8_add_writes_back = true /\
  (forall depth bucket nr umax powneg castc (s : CmsLog.lsk) (k : key) (v u : Z),
     option_map (CmsLog.add_log depth bucket nr umax powneg castc s k) (KernelsApi.gen_api_log16_add_value v u)
       = Some (CmsLog.lcls_add depth bucket nr umax powneg castc s k v) /\
     option_map (CmsLog.add_log depth bucket nr umax powneg castc s k) (KernelsApi.gen_api_log8_add_value v u)
       = Some (CmsLog.lcls_add depth bucket nr umax powneg castc s k v)).
Proof. exact KernelTieApiLog.tie_api_log. Qed.
Print Assumptions C05_api_log_source_tie.

Example C05_api_source_tie_nonvacuous :
  map (fun v => KernelsApi.gen_api_linear_add_value v CmsLinear.cap) [0; 7; 2^32 - 1; 2^32; 2^40]
  = [Some 0; Some 7; Some (2^32 - 1); Some (2^32 - 1); Some (2^32 - 1)] /\
  KernelsApi.gen_api_log16_add_value (2^40) 65535 = Some (2^40) /\ KernelsApi.gen_api_log8_add_value 3 255 = Some 3.
Proof. vm_compute. repeat split; reflexivity. Qed.
