(* C02 — HyperLogLog state depends only on the set of distinct keys (union semantics).
   Only theorem statements; every proof is `exact <lemma>` from theories/HllProofs.v.
   Vocabulary (theories/Hll.v): nlz64, hll_idx, hll_rank, hll_add, hll_merge and the class
   methods are the transcription of hyperloglog.py; fasthash64 is the transcription of
   hashes.py (C11); hll_hist / hll_eval / hll_reg are histories of add / update(list) /
   update(dict) / add_ngram / update_ngram / merge at a fixed (p, seed) and their registers;
   hll_keys lists the keys at the leaves (n-gram operations contribute their windows). *)
From Coq Require Import ZArith List.
From Sketchnu Require Import Machine Consts Hashes Ngram Hll HllProofs.
From Sketchnu Require KernelsHll KernelTieHll.
Import ListNotations.
Open Scope Z_scope.

(* the branchy binary search of hyperloglog.py l.88-129 on every 64-bit word *)
Theorem C02_nlz64_spec : forall x, 0 <= x < 2^64 ->
  nlz64 x = if x =? 0 then 64 else 63 - Z.log2 x.
Proof. exact nlz64_spec. Qed.
Print Assumptions C02_nlz64_spec.

(* the precision range enforced by the constructor, as read from the source on this run *)
(* _n_leading_zeros64 as regenerated from the source AST on this run is the modelled function *)
Theorem C02_nlz64_source_tie : forall x, KernelsHll.gen_n_leading_zeros64 x = nlz64 x.
Proof. exact KernelTieHll.tie_nlz64. Qed.
Print Assumptions C02_nlz64_source_tie.

Theorem C02_p_range : hll_p_min = 7 /\ hll_p_max = 16 /\
  forall p seed, hll_p_min <= p <= hll_p_max /\ 0 <= seed < 2^64 -> hll_init p seed = Some (hll_new p seed).
Proof. exact (conj eq_refl (conj eq_refl hll_params_init)). Qed.
Print Assumptions C02_p_range.

(* index = low p bits; rank = 1 + leading zeros of the other 64-p bits; with all of Numba's
   uint8 / uint64 / int64 conversions written out in hll_idx / hll_rank *)
Theorem C02_idx_spec : forall p hv, 0 <= p < 63 -> hll_idx (2^p) hv = hv mod 2^p.
Proof. exact hll_idx_spec. Qed.
Print Assumptions C02_idx_spec.

Theorem C02_idx_range : forall p hv, hll_p_min <= p <= hll_p_max -> 0 <= hll_idx (2^p) hv < 2^p.
Proof. exact idx_range. Qed.
Print Assumptions C02_idx_range.

Theorem C02_rank_spec : forall p hv, 0 <= p < 63 -> 0 <= hv < 2^64 ->
  hll_rank p hv =
  (let bits := hv / 2^p in if bits =? 0 then 64 - p + 1 else (64 - p) - (Z.log2 bits + 1) + 1).
Proof. exact hll_rank_spec. Qed.
Print Assumptions C02_rank_spec.

Theorem C02_rank_range : forall p hv, hll_p_min <= p <= hll_p_max -> 0 <= hv < 2^64 ->
  1 <= hll_rank p hv <= 64 - p + 1 /\ 64 - p + 1 <= 58.
Proof. exact rank_range. Qed.
Print Assumptions C02_rank_range.

Theorem C02_rank_zero : forall p, hll_p_min <= p <= hll_p_max -> hll_rank p 0 = 64 - p + 1.
Proof. exact rank_zero. Qed.
Print Assumptions C02_rank_zero.

(* one _add: the register of the key's index becomes max(old, rank), nothing else moves,
   and the store into the uint8 array does not truncate *)
Theorem C02_add_spec : forall p seed, hll_p_min <= p <= hll_p_max -> 0 <= seed < 2^64 ->
  forall (r : regs) (k : key) (i : Z),
  0 <= r (spec_idx p (fasthash64 k seed)) <= 255 ->
  hll_add r seed p (2^p) k i =
  if i =? spec_idx p (fasthash64 k seed) then Z.max (r i) (spec_rank p (fasthash64 k seed)) else r i.
Proof. exact hll_add_spec. Qed.
Print Assumptions C02_add_spec.

(* each register is the max, over the keys whose hash has that index, of their rank; 0 when none *)
Theorem C02_registers : forall p seed h i,
  hll_p_min <= p <= hll_p_max /\ 0 <= seed < 2^64 -> hll_wf h ->
  hll_reg p seed h i =
  list_max0 (map (fun k => spec_rank p (fasthash64 k seed))
                 (filter (fun k => spec_idx p (fasthash64 k seed) =? i) (hll_keys h))).
Proof. exact registers_spec. Qed.
Print Assumptions C02_registers.

(* the same without side conditions on the n-gram sizes: keys listed by the kernels' own index loop *)
Theorem C02_registers_raw : forall p seed h i,
  hll_p_min <= p <= hll_p_max /\ 0 <= seed < 2^64 ->
  hll_reg p seed h i = spec_reg p seed (hll_keys_raw h) i.
Proof. exact registers_raw. Qed.
Print Assumptions C02_registers_raw.

Theorem C02_reg_range : forall p seed h i,
  hll_p_min <= p <= hll_p_max /\ 0 <= seed < 2^64 ->
  0 <= hll_reg p seed h i <= 64 - p + 1 /\ (~ (0 <= i < 2^p) -> hll_reg p seed h i = 0).
Proof. exact reg_range. Qed.
Print Assumptions C02_reg_range.

(* order, duplicates, the multiplicity argument, batching, the partition over sketches and
   the shape of the merge tree all disappear: only the SET of keys matters *)
Theorem C02_set_only : forall p seed h1 h2,
  hll_p_min <= p <= hll_p_max /\ 0 <= seed < 2^64 -> hll_wf h1 -> hll_wf h2 ->
  (forall k, In k (hll_keys h1) <-> In k (hll_keys h2)) ->
  forall i, hll_reg p seed h1 i = hll_reg p seed h2 i.
Proof. exact set_only. Qed.
Print Assumptions C02_set_only.

Theorem C02_set_only_raw : forall p seed h1 h2,
  hll_p_min <= p <= hll_p_max /\ 0 <= seed < 2^64 ->
  (forall k, In k (hll_keys_raw h1) <-> In k (hll_keys_raw h2)) ->
  forall i, hll_reg p seed h1 i = hll_reg p seed h2 i.
Proof. exact set_only_raw. Qed.
Print Assumptions C02_set_only_raw.

(* the registers are those of a fresh sketch fed each distinct key exactly once (any order) *)
Theorem C02_fresh_once : forall p seed h ks,
  hll_p_min <= p <= hll_p_max /\ 0 <= seed < 2^64 -> hll_wf h ->
  NoDup ks -> (forall k, In k ks <-> In k (hll_keys h)) ->
  forall i, hll_reg p seed h i = hll_reg p seed (hl_adds HlNew ks) i.
Proof. exact fresh_once. Qed.
Print Assumptions C02_fresh_once.

Theorem C02_fresh_nodup : forall p seed h,
  hll_p_min <= p <= hll_p_max /\ 0 <= seed < 2^64 -> hll_wf h ->
  forall i, hll_reg p seed h i = hll_reg p seed (hl_adds HlNew (nodup key_eq_dec (hll_keys h))) i.
Proof. exact fresh_nodup. Qed.
Print Assumptions C02_fresh_nodup.

(* query() reads nothing but registers 0..m-1 (its model is HllQuery.v, property C17):
   whatever is computed from them is equal too *)
Theorem C02_query : forall p seed h1 h2 (A : Type) (q : regs -> A),
  (forall r1 r2 : regs, (forall i, 0 <= i < 2^p -> r1 i = r2 i) -> q r1 = q r2) ->
  hll_p_min <= p <= hll_p_max /\ 0 <= seed < 2^64 -> hll_wf h1 -> hll_wf h2 ->
  (forall k, In k (hll_keys h1) <-> In k (hll_keys h2)) ->
  q (hll_registers (hll_eval p seed h1)) = q (hll_registers (hll_eval p seed h2)).
Proof. exact query_of_registers. Qed.
Print Assumptions C02_query.

(* the same for functions of the register list [r 0; ...; r (m-1)] ... *)
Theorem C02_query_list : forall p seed h1 h2 (A : Type) (f : list Z -> A),
  hll_p_min <= p <= hll_p_max /\ 0 <= seed < 2^64 -> hll_wf h1 -> hll_wf h2 ->
  (forall k, In k (hll_keys h1) <-> In k (hll_keys h2)) ->
  f (hll_reg_list (hll_registers (hll_eval p seed h1)) (2^p)) =
  f (hll_reg_list (hll_registers (hll_eval p seed h2)) (2^p)).
Proof. exact query_of_register_list. Qed.
Print Assumptions C02_query_list.

(* Instance for the model of query() itself (HllQuery.query_model : Z -> list Z -> float, property C17):
     take A := float and f := HllQuery.query_model p, i.e.
     exact (fun p seed h1 h2 => query_of_register_list p seed h1 h2 _ (HllQuery.query_model p)).
   It is not stated here only because Print Assumptions then lists the kernel's float
   primitives (they occur in the statement), and this file is kept closed under the global context. *)

(* _merge on arbitrary uint8 register files *)
Theorem C02_merge_comm : forall a b m i, 0 <= i < m -> hll_merge a b m i = hll_merge b a m i.
Proof. exact merge_comm. Qed.
Print Assumptions C02_merge_comm.

Theorem C02_merge_assoc : forall a b c m i,
  (forall j, 0 <= a j < 256) -> (forall j, 0 <= b j < 256) -> (forall j, 0 <= c j < 256) ->
  hll_merge (hll_merge a b m) c m i = hll_merge a (hll_merge b c m) m i.
Proof. exact merge_assoc. Qed.
Print Assumptions C02_merge_assoc.

Theorem C02_merge_idem : forall a m i, (forall j, 0 <= a j < 256) -> hll_merge a a m i = a i.
Proof. exact merge_idem. Qed.
Print Assumptions C02_merge_idem.

(* merge() between sketches of one history never raises, and on histories it is
   commutative, associative and idempotent *)
Theorem C02_hist_merge : forall p seed h1 h2 h3 i,
  hll_p_min <= p <= hll_p_max /\ 0 <= seed < 2^64 ->
  (exists s, cls_merge (hll_eval p seed h1) (hll_eval p seed h2) = Some s) /\
  hll_reg p seed (HlMerge h1 h2) i = hll_reg p seed (HlMerge h2 h1) i /\
  hll_reg p seed (HlMerge (HlMerge h1 h2) h3) i = hll_reg p seed (HlMerge h1 (HlMerge h2 h3)) i /\
  hll_reg p seed (HlMerge h1 h1) i = hll_reg p seed h1 i.
Proof.
  exact (fun p seed h1 h2 h3 i H =>
    conj (hist_merge_never_raises p seed h1 h2 H)
   (conj (hist_merge_comm p seed h1 h2 i H)
   (conj (hist_merge_assoc p seed h1 h2 h3 i H) (hist_merge_idem p seed h1 i H)))).
Qed.
Print Assumptions C02_hist_merge.

(* update(list), update(dict), add_ngram, update_ngram are loops of single adds and the
   multiplicity argument is ignored (HyperLogLog rows of C12): the desugared history has the
   same state, as a record, and the same keys *)
Theorem C02_desugar : forall p seed h,
  hll_eval p seed (hll_desugar h) = hll_eval p seed h /\
  hll_keys_raw (hll_desugar h) = hll_keys_raw h /\
  (forall s k n, cls_add_ngram s k n = cls_update s (ngram_windows k n)) /\
  (forall s ks n, cls_update_ngram s ks n = cls_update s (flat_map (fun k => ngram_windows k n) ks)) /\
  (forall s k v, cls_add s k v = cls_add s k 1).
Proof.
  exact (fun p seed h => conj (hll_desugar_eval p seed h) (conj (hll_desugar_keys h)
         (conj cls_add_ngram_update (conj cls_update_ngram_update cls_add_value)))).
Qed.
Print Assumptions C02_desugar.

(* ---------------- non-vacuity ---------------- *)
(* the empty key has hash 0 under seed 0 and drives register 0 to 64-p+1 *)
Example C02_empty_key_nonvacuous :
  fasthash64 [] 0 = 0 /\
  map (fun p => hll_reg p 0 (HlAdd HlNew [] 1) 0) [7; 12; 16] = [58; 53; 49] /\
  map nlz64 [0; 1; 2; 3; 2^31; 2^32; 2^62; 2^63; 2^64 - 1] = [64; 63; 62; 62; 32; 31; 1; 0; 0].
Proof. repeat split; vm_compute; reflexivity. Qed.

(* the same 4-key set (3 calls on one side use add, add with a count, add_ngram in two sketches
   that are merged; the other side a dict, a list with a repeat, another order): equal, non-zero registers *)
Definition exA : hll_hist := HlMerge (HlAdd (HlAdd HlNew [97] 1) [98] 5) (HlNgram HlNew [99;100;101] 2).
Definition exB : hll_hist := HlUpdate (HlUpdateDict (HlAdd HlNew [100;101] 0) [([98],3)]) [[99;100]; [97]; [98]].
Example C02_set_only_nonvacuous :
  (hll_p_min <= 7 <= hll_p_max /\ 0 <= 0 < 2^64) /\ hll_wf exA /\ hll_wf exB /\
  hll_keys exA = [[97]; [98]; [99;100]; [100;101]] /\
  hll_keys exB = [[100;101]; [98]; [99;100]; [97]; [98]] /\
  hll_show (hll_registers (hll_eval 7 0 exA)) 128 = [(11, 1); (70, 2); (91, 1); (118, 4)] /\
  hll_show (hll_registers (hll_eval 7 0 exB)) 128 = [(11, 1); (70, 2); (91, 1); (118, 4)].
Proof. repeat split; vm_compute; try reflexivity; discriminate. Qed.

(* three keys built to share register 5 under seed 2^64-1 with ranks 1, 58 and 44: the max wins
   in every order, and without the rank-58 key the register is 44 *)
Definition kr1 : key := [235; 119; 199; 249; 241; 46; 88; 42].
Definition kr58 : key := [130; 126; 147; 143; 241; 35; 46; 27].
Definition kr44 : key := [114; 166; 228; 237; 251; 198; 159; 83; 122].
Example C02_max_rank_nonvacuous :
  map (fun k => fasthash64 k (2^64 - 1)) [kr1; kr58; kr44] = [2^63 + 5; 5; 2^20 + 5] /\
  map (fun ks => hll_show (hll_registers (hll_eval 7 (2^64 - 1) (HlUpdate HlNew ks))) 128)
      [[kr1; kr58; kr44]; [kr44; kr1; kr58]; [kr58; kr44; kr1]; [kr1; kr44]; [kr1]]
  = [[(5, 58)]; [(5, 58)]; [(5, 58)]; [(5, 44)]; [(5, 1)]] /\
  hll_show (hll_registers (hll_eval 7 (2^64 - 1)
     (HlMerge (HlAdd HlNew kr44 1) (HlMerge (HlAdd HlNew kr58 1) (HlAdd HlNew kr1 1))))) 128 = [(5, 58)].
Proof. repeat split; vm_compute; reflexivity. Qed.

(* ---------------- source ties ----------------
   _add (hyperloglog.py l.191-199, everything after hash_val = fasthash64(key, seed)) as regenerated from the source
   AST on this run (generated/KernelsHllAdd.v): (hash_val, p, m, registers[reg_idx]) -> (reg_idx, new register).
   The generated definition follows the uniform 64-bit register rule; hll_idx / hll_rank write out Numba's mixed
   int64 / uint64 typing; they agree on the constructor's precision range, m = 2^p and 64-bit hash values *)
From Sketchnu Require KernelsHllAdd KernelTieHllAdd.
Theorem C02_add_source_tie :
  (forall hv p old : Z, hll_p_min <= p <= hll_p_max -> 0 <= hv < 2^64 ->
     KernelsHllAdd.gen_hll_add hv p (2^p) old = (hll_idx (2^p) hv, wrap8 (Z.max old (hll_rank p hv)))) /\
  (forall (registers : regs) (seed p : Z) (k : key) (i : Z), hll_p_min <= p <= hll_p_max -> 0 <= seed < 2^64 ->
     hll_add registers seed p (2^p) k i =
     let hv := fasthash64 k seed in
     let idx := fst (KernelsHllAdd.gen_hll_add hv p (2^p) 0) in
     if i =? idx then snd (KernelsHllAdd.gen_hll_add hv p (2^p) (registers idx)) else registers i).
Proof. exact KernelTieHllAdd.tie_hll_add_all. Qed.
Print Assumptions C02_add_source_tie.

(* the body of _merge's loop (l.259): (registers[i], other_registers[i]) -> registers[i] *)
Theorem C02_merge_source_tie :
  (forall x y : Z, KernelsHllAdd.gen_hll_merge_cell x y = wrap8 (Z.max x y)) /\
  (forall (a b : regs) (m i : Z),
     hll_merge a b m i = if andb (0 <=? i) (i <? m) then KernelsHllAdd.gen_hll_merge_cell (a i) (b i) else a i).
Proof. exact KernelTieHllAdd.tie_hll_merge_all. Qed.
Print Assumptions C02_merge_source_tie.

Example C02_source_tie_nonvacuous :
  KernelsHllAdd.gen_hll_add (2^63 + 5) 7 128 0 = (5, 1) /\ KernelsHllAdd.gen_hll_add 5 7 128 3 = (5, 58) /\
  KernelsHllAdd.gen_hll_add (2^20 + 5) 7 128 60 = (5, 60) /\ KernelsHllAdd.gen_hll_add (2^64 - 1) 16 65536 0 = (65535, 1) /\
  KernelsHllAdd.gen_hll_merge_cell 3 9 = 9 /\ KernelsHllAdd.gen_hll_merge_cell 9 3 = 9.
Proof. vm_compute. repeat split; reflexivity. Qed.

(* ---------------- source tie (class-level add wrapper) ----------------
   HyperLogLog.add as regenerated from the source AST on this run (generated/KernelsApi.v): the multiplicity does not
   reach the kernel (C02: the state is unaffected by the multiplicity argument) *)
From Sketchnu Require KernelsApi KernelTieApiHll.
Theorem C02_api_source_tie :
  (forall v u, KernelsApi.gen_api_hll_add_value v u = None) /\ KernelsApi.gen_api_hll_add_writes_back = false /\
  (forall (s : hll) (k : key) (v w : Z), cls_add s k v = cls_add s k w).
Proof. exact KernelTieApiHll.tie_api_hll. Qed.
Print Assumptions C02_api_source_tie.
