(* C07 — HyperLogLog estimate within the HLL++ error envelope (partial by nature): the
   deterministic clauses.  The envelope itself is a statistical test (harness/checks/C07.py).
   Only theorem statements; every proof is `exact <lemma>` from theories/HllQueryProofs.v. *)
From Coq Require Import ZArith List Bool Floats.PrimFloat Reals.
From Sketchnu Require Import Machine Consts HllTables HllQuery HllQueryProofs.
From Sketchnu Require Hll.
Import ListNotations.
Open Scope Z_scope.

(* the empty sketch answers exactly 0.0, through the linear-counting branch, for every precision
   (finite domain p in 7..16, by computation on the model: n_zero = m, ln_model 1 = +0) *)
Theorem C07_empty : forall p, 7 <= p <= 16 ->
  regs_okb p (zeros (hllq_m p)) = true /\
  query_regime p (zeros (hllq_m p)) = LC /\
  query_model p (zeros (hllq_m p)) = 0%float.
Proof. exact query_empty. Qed.
Print Assumptions C07_empty.

(* the number of occupied registers never exceeds the number of distinct keys: for every index
   function, every rank function, every register-file size and every key sequence (generic
   register model: each key raises exactly one register) *)
Theorem C07_occupied_le_n : forall (idx : key -> nat) (rank : key -> Z) (n : nat) (ks : list key),
  count_nz (add_keys idx rank (repeat 0 n) ks) <= Z.of_nat (length (nodup keyq_eq_dec ks)).
Proof. exact occupied_le_n. Qed.
Print Assumptions C07_occupied_le_n.

(* the same over the register model of Hll.v (transcription of _add/_merge/update/add_ngram with
   fasthash64): for every history, the number of non-zero registers among registers[0..2^p-1] is
   at most the number of distinct keys at the leaves of the history *)
Theorem C07_occupied_le_n_hll : forall p seed (h : Hll.hll_hist),
  hll_p_min <= p <= hll_p_max /\ 0 <= seed < 2 ^ 64 ->
  length (hllq_reg_list p seed h) = Z.to_nat (2 ^ p) /\
  count_nz (hllq_reg_list p seed h) <= Z.of_nat (length (nodup keyq_eq_dec (Hll.hll_keys_raw h))).
Proof. exact occupied_le_n_hll. Qed.
Print Assumptions C07_occupied_le_n_hll.

(* linear counting m ln(m/(m-k)) is monotone in the number k of occupied registers (reals):
   with C07_occupied_le_n, while the linear-counting branch is taken the estimate never exceeds
   the linear-counting value for n occupied registers *)
Theorem C07_lc_monotone : forall m a b : R,
  (0 <= a)%R -> (a <= b)%R -> (b < m)%R ->
  (m * ln (m / (m - a)) <= m * ln (m / (m - b)))%R.
Proof. exact lc_monotone. Qed.
Print Assumptions C07_lc_monotone.

(* non-vacuity: three keys, two of them sharing a register, on 8 registers *)
Example C07_occupied_nonvacuous :
  let idx := fun k : key => match k with [] => 0%nat | b :: _ => Z.to_nat (b mod 8) end in
  let rank := fun k : key => 1 + zlen k in
  let ks := [[3]; [11; 0]; [5]; [3]] in
  add_keys idx rank (repeat 0 8%nat) ks = [0; 0; 0; 3; 0; 2; 0; 0] /\
  count_nz (add_keys idx rank (repeat 0 8%nat) ks) = 2 /\
  length (nodup keyq_eq_dec ks) = 3%nat.
Proof. vm_compute. repeat split; reflexivity. Qed.

Example C07_lc_nonvacuous : (0 <= 3)%R /\ (3 <= 100)%R /\ (100 < 128)%R.
Proof. repeat split; apply Rlt_le || idtac; try apply (IZR_lt 3 100); try apply (IZR_lt 0 3); try apply (IZR_lt 100 128); reflexivity. Qed.

Example C07_occupied_hll_nonvacuous :
  let h := Hll.HlMerge (Hll.HlUpdate Hll.HlNew [[1]; [2; 3]; [1]]) (Hll.HlNgram Hll.HlNew [7; 8; 9; 10] 3) in
  (hll_p_min <= 7 <= hll_p_max /\ 0 <= 5 < 2 ^ 64) /\
  count_nz (hllq_reg_list 7 5 h) = 4 /\ length (nodup keyq_eq_dec (Hll.hll_keys_raw h)) = 4%nat.
Proof. vm_compute. repeat split; try reflexivity; discriminate. Qed.

(* ---------------- source tie ----------------
   the empty sketch through the code as regenerated from hyperloglog.py's AST on this run
   (generated/KernelsHllQuery.v): the generated _query body calling the generated _linear_counting (np.log := ln_model)
   and the generated _estimation_function (`a ** b` := any pow with pow 2.0 (-float64(r)) = 2^-r for r = 0..255; the
   loop := fold_left), on m = 2^p, threshold[p-7], the generated alpha and the table rows of precision p, returns
   exactly +0.0 on the all-zero register file *)
From Sketchnu Require KernelsHllQuery KernelTieHllQuery.
Theorem C07_empty_source_tie : forall pow : float -> float -> float,
  (forall r, 0 <= r < 256 -> pow 2%float (- f_of_Z r)%float = pow2neg r) ->
  forall p, 7 <= p <= 16 ->
  KernelsHllQuery.gen_query (list Z) (list float) count_nz interp (KernelsHllQuery.gen_linear_counting ln_model)
            (fun registers m alpha =>
               KernelsHllQuery.gen_estimation_final alpha m
                 (fold_left (KernelsHllQuery.gen_estimation_step pow) registers KernelsHllQuery.gen_estimation_init))
            (zeros (hllq_m p)) (hllq_m p) (hll_threshold p) (KernelsHllQuery.gen_alpha (hllq_m p)) (hll_raw p) (hll_bias p)
  = 0%float.
Proof. exact KernelTieHllQuery.tie_hllq_query_empty. Qed.
Print Assumptions C07_empty_source_tie.

Example C07_empty_source_tie_nonvacuous :
  (forall r, 0 <= r < 256 -> KernelTieHllQuery.pow_model 2%float (- f_of_Z r)%float = pow2neg r) /\
  KernelsHllQuery.gen_query (list Z) (list float) count_nz interp (KernelsHllQuery.gen_linear_counting ln_model)
            (fun registers m alpha =>
               KernelsHllQuery.gen_estimation_final alpha m
                 (fold_left (KernelsHllQuery.gen_estimation_step KernelTieHllQuery.pow_model) registers
                            KernelsHllQuery.gen_estimation_init))
            (zeros 128) 128 (hll_threshold 7) (KernelsHllQuery.gen_alpha 128) (hll_raw 7) (hll_bias 7) = 0%float /\
  KernelsHllQuery.gen_query (list Z) (list float) count_nz interp (KernelsHllQuery.gen_linear_counting ln_model)
            (fun registers m alpha =>
               KernelsHllQuery.gen_estimation_final alpha m
                 (fold_left (KernelsHllQuery.gen_estimation_step KernelTieHllQuery.pow_model) registers
                            KernelsHllQuery.gen_estimation_init))
            (expand_rle [(1, 1); (0, 127)]) 128 (hll_threshold 7) (KernelsHllQuery.gen_alpha 128) (hll_raw 7) (hll_bias 7)
  = 0x1.010157588de69p+0%float.
Proof. split; [exact KernelTieHllQuery.tie_hllq_pow_satisfiable|]. vm_compute. split; reflexivity. Qed.
