(* C13 — query(k, threshold) is the exact, fresh top-k of the stored counts.
   Only theorem statements; every proof is `exact <lemma>` from theories/HHProofs.v.
   State = (tables, n_added, n_records, candidate_set, n_added_sort, threshold_sort); reachable =
   produced by a well formed history of add / add_ngram / merge / save-load / query / generate_candidate_set.
   gen_cands t thr is the insertion ordered list built by the two loops of generate_candidate_set,
   most_common k the stable descending sort cut at k (None = all). *)
From Coq Require Import ZArith List Lia Sorted Floats.PrimFloat Uint63.
From Sketchnu Require Import Machine BitLemmas Consts HH HHProofs.
Import ListNotations.
Open Scope Z_scope.

Theorem C13_cache_inv : forall width depth max_key_len bucket default_thr,
  (forall r k, (bucket r k < width)%nat) -> (max_key_len <= 255)%nat ->
  forall st, reachable width depth max_key_len bucket default_thr st ->
  n_added_sort st = n_added st -> cand st = gen_cands width depth max_key_len bucket (tab st) (thr_sort st).
Proof. exact C13_cache_inv_lemma. Qed.
Print Assumptions C13_cache_inv.

(* the cache is never stale: the answer is computed from the current tables *)
Theorem C13_fresh : forall width depth max_key_len bucket default_thr,
  (forall r k, (bucket r k < width)%nat) -> (max_key_len <= 255)%nat ->
  forall st k thr, reachable width depth max_key_len bucket default_thr st ->
  snd (hh_query width depth max_key_len bucket default_thr st k thr)
  = most_common k (gen_cands width depth max_key_len bucket (tab st) (thr_of default_thr st thr)).
Proof. exact C13_fresh_lemma. Qed.
Print Assumptions C13_fresh.

Theorem C13_sorted : forall width depth max_key_len bucket default_thr st k thr,
  StronglySorted (fun p q => snd p >= snd q) (snd (hh_query width depth max_key_len bucket default_thr st k thr)).
Proof. exact C13_sorted_lemma. Qed.
Print Assumptions C13_sorted.

Theorem C13_len : forall width depth max_key_len bucket default_thr st n thr, 0 <= n ->
  Z.of_nat (length (snd (hh_query width depth max_key_len bucket default_thr st (Some n) thr))) <= n.
Proof. exact C13_len_lemma. Qed.
Print Assumptions C13_len.

Theorem C13_nodup : forall width depth max_key_len bucket default_thr,
  (forall r k, (bucket r k < width)%nat) -> (max_key_len <= 255)%nat ->
  forall st k thr, reachable width depth max_key_len bucket default_thr st ->
  NoDup (map fst (snd (hh_query width depth max_key_len bucket default_thr st k thr))).
Proof. exact C13_nodup_lemma. Qed.
Print Assumptions C13_nodup.

Theorem C13_counts : forall width depth max_key_len bucket default_thr,
  (forall r k, (bucket r k < width)%nat) -> (max_key_len <= 255)%nat ->
  forall st k thr x n, reachable width depth max_key_len bucket default_thr st ->
  In (x, n) (snd (hh_query width depth max_key_len bucket default_thr st k thr)) ->
  n = hh_get depth max_key_len bucket st x /\ n >= thr_of default_thr st thr /\ n > 0.
Proof. exact C13_counts_lemma. Qed.
Print Assumptions C13_counts.

Theorem C13_prefix : forall width depth max_key_len bucket default_thr st n thr,
  snd (hh_query width depth max_key_len bucket default_thr st (Some n) thr)
  = firstn (Z.to_nat n) (snd (hh_query width depth max_key_len bucket default_thr st None thr)).
Proof. exact C13_prefix_lemma. Qed.
Print Assumptions C13_prefix.

Theorem C13_complete : forall width depth max_key_len bucket default_thr,
  (forall r k, (bucket r k < width)%nat) -> (max_key_len <= 255)%nat ->
  forall st thr x, reachable width depth max_key_len bucket default_thr st ->
  hh_get depth max_key_len bucket st x >= Z.max (thr_of default_thr st thr) 1 ->
  In (ident max_key_len x, hh_get depth max_key_len bucket st x)
     (snd (hh_query width depth max_key_len bucket default_thr st None thr)).
Proof. exact C13_complete_lemma. Qed.
Print Assumptions C13_complete.

(* default threshold: np.uint32 of the integer part of phi * n_added; no wrap while that is below 2^32 *)
Theorem C13_default_thr : forall default_thr st,
  thr_of default_thr st None = wrap32 (default_thr (n_added st)) /\
  (0 <= default_thr (n_added st) < 2^32 -> thr_of default_thr st None = default_thr (n_added st)).
Proof. exact default_thr_lemma. Qed.
Print Assumptions C13_default_thr.

(* the executable instance used by the correspondence check is the binary64 product, truncated *)
Example C13_default_thr_float : forall phi n,
  float_default_thr phi n = float_trunc (PrimFloat.mul phi (PrimFloat.of_uint63 (Uint63.of_Z n))).
Proof. reflexivity. Qed.
Example C13_default_thr_values :
  let st n := mkSk (fun _ _ => empty_cell 2) n 0 [] 0 0 in
  (thr_of (float_default_thr (0x1.3333333333333p-2)%float) (st 17) None,
   thr_of (float_default_thr (0x1.5555555555555p-2)%float) (st 9) None,
   thr_of (float_default_thr 1%float) (st 12884901884) None) = (5, 3, 4294967292).
Proof. vm_compute. reflexivity. Qed.

(* non-vacuity: query, add with multiplicity 0 (cache stays valid: hit path), query, add (stale: miss path) *)
Definition C13_h2 : hist :=
  HAdd (HQuery (HAdd (HQuery (HAdd (HAdd HEmpty [1] 3) [2] 5) (Some 1)) [9] 0) (Some 1)) [1] 4.
Example C13_nonvacuous :
  let b := fun (r : nat) (k : key) => Z.to_nat ((le_decode k + Z.of_nat r) mod 2) in
  let dt := fun n => n / 2 in
  reachable 2 2 2 b dt (eval 2 2 2 b dt C13_h2) /\
  let s := eval 2 2 2 b dt C13_h2 in
  (n_added s, n_added_sort s, cand s) = (12, 8, [([2], 5); ([1], 3)]) /\
  snd (hh_query 2 2 2 b dt s (Some 2) (Some 1)) = [([1], 7); ([2], 5)] /\
  snd (hh_query 2 2 2 b dt s None None) = [([1], 7)] /\
  (hh_get 2 2 b s [1], hh_get 2 2 b s [2]) = (7, 5).
Proof.
  cbv zeta. split; [exists C13_h2; split; [cbn; repeat split; lia|reflexivity]|].
  vm_compute. repeat split; reflexivity.
Qed.
