(* C09 — merging count-min sketches adds the counts cell by cell, as documented.
   Linear part (any two states with counters in range).  Log part: C09_log_* (CmsLogProofs.v). *)
From Coq Require Import ZArith List.
From Sketchnu Require Import Machine CmsLinear CmsLinearProofs.
Import ListNotations.
Open Scope Z_scope.

Theorem C09_lin_cell : forall (a b : sk) (r c : nat), Rng a -> Rng b ->
  cms (merge a b) r c = Z.min (cms a r c + cms b r c) cap.
Proof. exact CmsLinearProofs.C09_lin_cell. Qed.
Print Assumptions C09_lin_cell.

Theorem C09_lin_counters : forall a b,
  n_added (merge a b) = n_added a + n_added b /\ n_records (merge a b) = n_records a + n_records b.
Proof. exact CmsLinearProofs.C09_lin_counters. Qed.
Print Assumptions C09_lin_counters.

Theorem C09_lin_comm : forall a b r c, Rng a -> Rng b -> cms (merge a b) r c = cms (merge b a) r c.
Proof. exact CmsLinearProofs.C09_lin_comm. Qed.
Print Assumptions C09_lin_comm.

Theorem C09_lin_empty : forall a r c, Rng a -> cms (merge a empty) r c = cms a r c.
Proof. exact CmsLinearProofs.C09_lin_empty. Qed.
Print Assumptions C09_lin_empty.

Theorem C09_lin_ge : forall a b r c, Rng a -> Rng b -> Z.max (cms a r c) (cms b r c) <= cms (merge a b) r c.
Proof. exact CmsLinearProofs.C09_lin_ge. Qed.
Print Assumptions C09_lin_ge.

Theorem C09_lin_est : forall depth bucket a b (k : key), Rng a -> Rng b ->
  Z.min (query depth bucket a k + query depth bucket b k) cap <= query depth bucket (merge a b) k.
Proof. exact CmsLinearProofs.C09_lin_est. Qed.
Print Assumptions C09_lin_est.

(* the merged value is a function of the two operands only: b is an argument, never a result
   (that the implementation leaves b's arrays untouched is checked bit for bit on every run) *)
Theorem C09_lin_reachable : forall width depth bucket h, Rng (eval width depth bucket h).
Proof. exact Rng_eval. Qed.
Print Assumptions C09_lin_reachable.

Example C09_lin_nonvacuous :
  let a := {| cms := fun _ _ => cap - 1; n_added := 5; n_records := 1 |} in
  let b := {| cms := fun _ c => Z.of_nat c; n_added := 7; n_records := 2 |} in
  Rng a /\ cms (merge a b) 0%nat 0%nat = cap - 1 /\ cms (merge a b) 0%nat 1%nat = cap /\ cms (merge a b) 0%nat 2%nat = cap /\ n_added (merge a b) = 12.
Proof. split; [intros r c; cbn; rewrite cap_val; split; discriminate|]. vm_compute. repeat split; reflexivity. Qed.
