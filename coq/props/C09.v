(* C09 — merging count-min sketches adds the counts cell by cell, as documented.
   Linear part (any two states with counters in range).  Log part: C09_log_* (CmsLogProofs.v). *)
From Coq Require Import ZArith List.
From Coq Require Import Floats.PrimFloat.
From Sketchnu Require Import Machine CmsLinear CmsLinearProofs.
From Sketchnu Require CmsLog CmsLogProofs CmsLogFloat.
Import ListNotations.
Open Scope Z_scope.

Theorem C09_lin_cell : forall (a b : sk) (r c : nat), Rng a -> Rng b ->
  cms (merge a b) r c = Z.min (cms a r c + cms b r c) cap.
Proof. exact CmsLinearProofs.C09_lin_cell. Qed.
Print Assumptions C09_lin_cell.

Theorem C09_lin_counters : forall a b,
  n_added (merge a b) = n_added a + n_added b /\ n_records (merge a b) = n_records a + n_records b.
Proof. exact CmsLinearProofs.C09_lin_counters. Qed.
Print Assumptions C09_lin_counters.

Theorem C09_lin_comm : forall a b r c, Rng a -> Rng b -> cms (merge a b) r c = cms (merge b a) r c.
Proof. exact CmsLinearProofs.C09_lin_comm. Qed.
Print Assumptions C09_lin_comm.

Theorem C09_lin_empty : forall a r c, Rng a -> cms (merge a empty) r c = cms a r c.
Proof. exact CmsLinearProofs.C09_lin_empty. Qed.
Print Assumptions C09_lin_empty.

Theorem C09_lin_ge : forall a b r c, Rng a -> Rng b -> Z.max (cms a r c) (cms b r c) <= cms (merge a b) r c.
Proof. exact CmsLinearProofs.C09_lin_ge. Qed.
Print Assumptions C09_lin_ge.

Theorem C09_lin_est : forall depth bucket a b (k : key), Rng a -> Rng b ->
  Z.min (query depth bucket a k + query depth bucket b k) cap <= query depth bucket (merge a b) k.
Proof. exact CmsLinearProofs.C09_lin_est. Qed.
Print Assumptions C09_lin_est.

(* the merged value is a function of the two operands only: b is an argument, never a result
   (that the implementation leaves b's arrays untouched is checked bit for bit on every run) *)
Theorem C09_lin_reachable : forall width depth bucket h, Rng (eval width depth bucket h).
Proof. exact Rng_eval. Qed.
Print Assumptions C09_lin_reachable.

Example C09_lin_nonvacuous :
  let a := {| cms := fun _ _ => cap - 1; n_added := 5; n_records := 1 |} in
  let b := {| cms := fun _ c => Z.of_nat c; n_added := 7; n_records := 2 |} in
  Rng a /\ cms (merge a b) 0%nat 0%nat = cap - 1 /\ cms (merge a b) 0%nat 1%nat = cap /\ cms (merge a b) 0%nat 2%nat = cap /\ n_added (merge a b) = 12.
Proof. split; [intros r c; cbn; rewrite cap_val; split; discriminate|]. vm_compute. repeat split; reflexivity. Qed.

(* ---------------- log8 / log16 ----------------
   decode stands for _counter2value at the integer counters (read from the implementation and checked, DESIGN 3.4). *)
Import CmsLog.

Theorem C09_log_counters : forall nr umax max_count decode castc (a b : lsk),
  ln_added (merge_log nr umax max_count decode castc a b) = ln_added a + ln_added b /\
  ln_records (merge_log nr umax max_count decode castc a b) = ln_records a + ln_records b /\
  lrs (merge_log nr umax max_count decode castc a b) = lrs a.
Proof. exact CmsLogProofs.C09_log_counters. Qed.
Print Assumptions C09_log_counters.

(* once the decoded sum reaches max_count the result is the maximum counter *)
Theorem C09_log_ceiling : forall nr umax max_count decode castc (a b : Z),
  let v := (decode a + decode b)%float in
  (v <=? z2f nr)%float = false -> (u64_to_float max_count <=? v)%float = true ->
  merge_cell nr umax max_count decode castc a b = umax.
Proof. exact CmsLogProofs.C09_log_ceiling. Qed.
Print Assumptions C09_log_ceiling.

(* inside the reserved range the result is the (exact) sum *)
Theorem C09_log_reserved_shape : forall nr umax max_count decode castc (a b : Z),
  let v := (decode a + decode b)%float in
  (v <=? z2f nr)%float = true -> merge_cell nr umax max_count decode castc a b = castc (f2z_trunc v).
Proof. exact CmsLogProofs.C09_log_reserved_shape. Qed.
Print Assumptions C09_log_reserved_shape.

(* per-configuration reflection: if the boolean grid check over ALL (umax+1)^2 counter pairs of a concrete
   configuration evaluates to true (the harness evaluates it by vm_compute on the tables read from the
   implementation), then for every pair: never below either input, within range, commutative, exact sum in
   the reserved range, empty operand changes nothing *)
Theorem C09_log_grid : forall nr umax max_count decode castc,
  merge_grid_b nr umax max_count decode castc = true ->
  forall a b : Z, 0 <= a <= umax -> 0 <= b <= umax ->
  let m := merge_cell nr umax max_count decode castc a b in
  Z.max a b <= m <= umax /\ Z.min (a + b) (nr + 1) <= m /\
  m = merge_cell nr umax max_count decode castc b a /\ (a + b <= nr -> m = a + b) /\ (b = 0 -> m = a).
Proof. exact CmsLogProofs.merge_grid_sound. Qed.
Print Assumptions C09_log_grid.

(* nearest: between the reserved range and the ceiling the chosen counter's decoded value is at least as
   close to the decoded sum as any other counter's, for every pair of a configuration whose grid check holds *)
Theorem C09_log_nearest_grid : forall nr umax max_count decode castc,
  merge_nearest_grid_b nr umax max_count decode castc = true ->
  forall a b c : Z, 0 <= a <= umax -> 0 <= b <= umax -> 0 <= c <= umax ->
  let v := (decode a + decode b)%float in
  (v <=? z2f nr)%float = false -> (u64_to_float max_count <=? v)%float = false ->
  (abs (decode (merge_cell nr umax max_count decode castc a b) - v) <=? abs (decode c - v))%float = true.
Proof. exact CmsLogProofs.merge_nearest_grid_sound. Qed.
Print Assumptions C09_log_nearest_grid.

(* general float-level facts (CmsLogFloat.v: standard-library FloatAxioms / Uint63 axioms and, through Flocq's
   PrimFloat bridge, the real-number axioms), for EVERY table, not per configuration *)
Theorem C09_log_comm : forall nr umax max_count decode castc (a b : Z),
  merge_cell nr umax max_count decode castc a b = merge_cell nr umax max_count decode castc b a.
Proof. exact CmsLogFloat.C09_log_comm. Qed.
Print Assumptions C09_log_comm.

Theorem C09_log_reserved : forall nr umax max_count decode castc,
  0 <= nr < 2^52 -> (forall c, 0 <= c <= nr -> decode c = z2f c) ->
  forall a b : Z, 0 <= a -> 0 <= b -> a + b <= nr ->
  merge_cell nr umax max_count decode castc a b = castc (a + b).
Proof. exact CmsLogFloat.C09_log_reserved. Qed.
Print Assumptions C09_log_reserved.

(* a LINEAR-size boolean check of the decode table (finite values, identity on the reserved range, strictly
   increasing, sane ceiling) implies for all (umax+1)^2 pairs: never below either input, within range, at least
   min(a+b, nr+1), exact sum in the reserved range - this covers log16 configurations too *)
Theorem C09_log_tables_sound : forall nr umax max_count decode castc,
  (forall x, 0 <= x <= umax -> castc x = x) ->
  CmsLog.float_tables_ok_b nr umax max_count decode = true ->
  0 <= nr < umax /\ umax < 2^16 /\
  CmsLogProofs.merge_ge_ok nr umax max_count decode castc /\
  CmsLogProofs.merge_lower_ok nr umax max_count decode castc /\
  (forall a b, 0 <= a <= umax -> 0 <= b <= umax -> a + b <= nr -> merge_cell nr umax max_count decode castc a b = a + b).
Proof. exact CmsLogFloat.float_tables_sound. Qed.
Print Assumptions C09_log_tables_sound.

(* ---------------- source tie (linear) ----------------
   the body of _merge_linear's loop over the cells (countmin.py l.455-458) and its two counter updates (l.460-461),
   as regenerated from the source AST on this run (generated/KernelsCms.v; parameters: the two cells read, uint_maxval;
   result: the cell written, truncated to the array's uint32), are the modelled merge_cell / counter sums *)
From Sketchnu Require KernelsCms KernelTieCmsMerge.
Theorem C09_lin_source_tie :
  (forall mine other : Z, 0 <= mine <= CmsLinear.cap -> 0 <= other <= CmsLinear.cap ->
     KernelsCms.gen_merge_linear_cell mine other CmsLinear.cap = CmsLinear.merge_cell mine other) /\
  (forall x y : Z, 0 <= x -> 0 <= y -> x + y < 2^64 ->
     KernelsCms.gen_merge_linear_n_added x y = x + y /\ KernelsCms.gen_merge_linear_n_records x y = x + y).
Proof. exact (conj KernelTieCmsMerge.tie_merge_linear_cell KernelTieCmsMerge.tie_merge_linear_counters). Qed.
Print Assumptions C09_lin_source_tie.

(* the merged state assembled from the generated pieces, cell by cell *)
Theorem C09_lin_source_tie_state : forall a b : CmsLinear.sk, CmsLinearProofs.Rng a -> CmsLinearProofs.Rng b ->
  0 <= CmsLinear.n_added a -> 0 <= CmsLinear.n_added b -> CmsLinear.n_added a + CmsLinear.n_added b < 2^64 ->
  0 <= CmsLinear.n_records a -> 0 <= CmsLinear.n_records b -> CmsLinear.n_records a + CmsLinear.n_records b < 2^64 ->
  (forall r c, CmsLinear.cms (CmsLinear.merge a b) r c =
               KernelsCms.gen_merge_linear_cell (CmsLinear.cms a r c) (CmsLinear.cms b r c) CmsLinear.cap) /\
  CmsLinear.n_added (CmsLinear.merge a b) = KernelsCms.gen_merge_linear_n_added (CmsLinear.n_added a) (CmsLinear.n_added b) /\
  CmsLinear.n_records (CmsLinear.merge a b) = KernelsCms.gen_merge_linear_n_records (CmsLinear.n_records a) (CmsLinear.n_records b).
Proof. exact KernelTieCmsMerge.tie_merge_linear. Qed.
Print Assumptions C09_lin_source_tie_state.

Example C09_lin_source_tie_nonvacuous :
  map (fun mo => KernelsCms.gen_merge_linear_cell (fst mo) (snd mo) CmsLinear.cap)
      [(0, 0); (3, 4); (CmsLinear.cap - 1, 1); (CmsLinear.cap - 1, 2); (CmsLinear.cap, CmsLinear.cap); (0, CmsLinear.cap)]
  = [0; 7; CmsLinear.cap; CmsLinear.cap; CmsLinear.cap; CmsLinear.cap] /\
  KernelsCms.gen_merge_linear_n_added 5 7 = 12 /\ KernelsCms.gen_merge_linear_n_records 1 2 = 3.
Proof. vm_compute. repeat split; reflexivity. Qed.

(* ---------------- source tie (log) ----------------
   the body of _merge_log16 / _merge_log8's loop over the cells (countmin.py l.1111-1129 / l.1710-1728) and the two
   counter updates, as regenerated from the source AST on this run (generated/KernelsLog.v, harness/pytrans_log.py):
   gen_merge_logN_cell (c2v oracle for _counter2value, logq oracle for the expression with np.log, base, the two cells
   read, max_count, uint_maxval, num_reserved) -> the cell written, float arithmetic and comparisons in PrimFloat.
   With c2v := the decode table (KernelTieLogMerge.c2v_of) it is the model's merge_cell UNDER the modelling assumption of
   DESIGN 3.4, stated as the hypothesis log_landsN for the decoded sum of the two cells: whenever that sum reaches the
   rounding branch, uintN(logq v) + num_reserved is the table's lower neighbour clower_of v.  gen_merge_logN_logq is the
   np.log expression itself (flog = np.log), equal to the hand transcription KernelTieLogMerge.logq_source *)
From Sketchnu Require KernelsLog KernelTieLogMerge.
Theorem C09_log_source_tie : forall (nr umax max_count : Z) (decode : Z -> float) (logq : float -> float) (base : float),
  (forall mine other : Z, 0 <= nr < 2^16 -> 0 <= umax < 2^16 -> 0 <= mine < 2^16 -> 0 <= other < 2^16 ->
     KernelTieLogMerge.log_lands16 nr umax max_count decode logq (decode mine + decode other)%float ->
     KernelsLog.gen_merge_log16_cell (KernelTieLogMerge.c2v_of decode) logq base mine other max_count umax nr =
     CmsLog.merge_cell16 nr umax max_count decode mine other) /\
  (forall mine other : Z, 0 <= nr < 2^8 -> 0 <= umax < 2^8 -> 0 <= mine < 2^16 -> 0 <= other < 2^16 ->
     KernelTieLogMerge.log_lands8 nr umax max_count decode logq (decode mine + decode other)%float ->
     KernelsLog.gen_merge_log8_cell (KernelTieLogMerge.c2v_of decode) logq base mine other max_count umax nr =
     CmsLog.merge_cell8 nr umax max_count decode mine other) /\
  (forall x y : Z, 0 <= x -> 0 <= y -> x + y < 2^64 ->
     KernelsLog.gen_merge_log16_n_added x y = x + y /\ KernelsLog.gen_merge_log16_n_records x y = x + y /\
     KernelsLog.gen_merge_log8_n_added x y = x + y /\ KernelsLog.gen_merge_log8_n_records x y = x + y) /\
  (forall (flog : float -> float) (v : float),
     (0 <= nr < 2^16 -> KernelsLog.gen_merge_log16_logq flog base nr v = KernelTieLogMerge.logq_source flog base nr v) /\
     (0 <= nr < 2^8 -> KernelsLog.gen_merge_log8_logq flog base nr v = KernelTieLogMerge.logq_source flog base nr v)).
Proof.
  intros nr umax max_count decode logq base.
  exact (conj (KernelTieLogMerge.tie_merge_log16_cell nr umax max_count decode logq base)
        (conj (KernelTieLogMerge.tie_merge_log8_cell nr umax max_count decode logq base)
        (conj KernelTieLogMerge.tie_merge_log_counters
              (fun flog v => KernelTieLogMerge.tie_merge_log_logq flog base nr v)))).
Qed.
Print Assumptions C09_log_source_tie.

(* the merged state assembled from the generated pieces, cell by cell *)
Theorem C09_log_source_tie_state : forall nr umax max_count decode logq base (a b : CmsLog.lsk),
  0 <= nr < 2^8 -> 0 <= umax < 2^8 ->
  (forall r c, 0 <= CmsLog.lcms a r c < 2^16) -> (forall r c, 0 <= CmsLog.lcms b r c < 2^16) ->
  (forall r c, KernelTieLogMerge.log_lands8 nr umax max_count decode logq
                 (decode (CmsLog.lcms a r c) + decode (CmsLog.lcms b r c))%float) ->
  0 <= CmsLog.ln_added a -> 0 <= CmsLog.ln_added b -> CmsLog.ln_added a + CmsLog.ln_added b < 2^64 ->
  0 <= CmsLog.ln_records a -> 0 <= CmsLog.ln_records b -> CmsLog.ln_records a + CmsLog.ln_records b < 2^64 ->
  let m := CmsLog.merge_log nr umax max_count decode wrap8 a b in
  (forall r c, CmsLog.lcms m r c =
     KernelsLog.gen_merge_log8_cell (KernelTieLogMerge.c2v_of decode) logq base (CmsLog.lcms a r c) (CmsLog.lcms b r c) max_count umax nr) /\
  CmsLog.ln_added m = KernelsLog.gen_merge_log8_n_added (CmsLog.ln_added a) (CmsLog.ln_added b) /\
  CmsLog.ln_records m = KernelsLog.gen_merge_log8_n_records (CmsLog.ln_records a) (CmsLog.ln_records b).
Proof. exact KernelTieLogMerge.tie_merge_log8. Qed.
Print Assumptions C09_log_source_tie_state.

Theorem C09_log16_source_tie_state : forall nr umax max_count decode logq base (a b : CmsLog.lsk),
  0 <= nr < 2^16 -> 0 <= umax < 2^16 ->
  (forall r c, 0 <= CmsLog.lcms a r c < 2^16) -> (forall r c, 0 <= CmsLog.lcms b r c < 2^16) ->
  (forall r c, KernelTieLogMerge.log_lands16 nr umax max_count decode logq
                 (decode (CmsLog.lcms a r c) + decode (CmsLog.lcms b r c))%float) ->
  0 <= CmsLog.ln_added a -> 0 <= CmsLog.ln_added b -> CmsLog.ln_added a + CmsLog.ln_added b < 2^64 ->
  0 <= CmsLog.ln_records a -> 0 <= CmsLog.ln_records b -> CmsLog.ln_records a + CmsLog.ln_records b < 2^64 ->
  let m := CmsLog.merge_log nr umax max_count decode wrap16 a b in
  (forall r c, CmsLog.lcms m r c =
     KernelsLog.gen_merge_log16_cell (KernelTieLogMerge.c2v_of decode) logq base (CmsLog.lcms a r c) (CmsLog.lcms b r c) max_count umax nr) /\
  CmsLog.ln_added m = KernelsLog.gen_merge_log16_n_added (CmsLog.ln_added a) (CmsLog.ln_added b) /\
  CmsLog.ln_records m = KernelsLog.gen_merge_log16_n_records (CmsLog.ln_records a) (CmsLog.ln_records b).
Proof. exact KernelTieLogMerge.tie_merge_log16. Qed.
Print Assumptions C09_log16_source_tie_state.

(* base 2, num_reserved = 2, uint_maxval = 6, max_count = 17: decode = 0 1 2 3 5 9 17; flog = floor(log2 x), exact, so the
   np.log expression is floor(log2(v - 1)): on all 49 pairs the hypothesis log_lands holds and the generated cell
   function (both widths, logq := the generated np.log expression) is the model's merge_cell *)
Example C09_log_source_tie_nonvacuous :
  let dc := fun c => CmsLog.z2f (if c <=? 2 then c else 2 ^ (c - 2) + 1) in
  let flog := fun x => CmsLog.z2f (Uint63.to_Z (snd (frshiftexp x)) - 2102) in
  let two := (0x1p+1)%float in
  let pairs := list_prod (CmsLog.zrange 0 7) (CmsLog.zrange 0 7) in
  map dc (CmsLog.zrange 0 7) = map CmsLog.z2f [0; 1; 2; 3; 5; 9; 17] /\
  forallb (fun ab =>
     let v := (dc (fst ab) + dc (snd ab))%float in
     let lq8 := KernelsLog.gen_merge_log8_logq flog two 2 in
     let lq16 := KernelsLog.gen_merge_log16_logq flog two 2 in
     ((if (PrimFloat.leb v (CmsLog.z2f 2) || PrimFloat.leb (CmsLog.u64_to_float 17) v) then true
      else (wrap8 (CmsLog.f2z_trunc (lq8 v)) + 2 =? CmsLog.clower_of 2 6 dc v) &&
           (wrap16 (CmsLog.f2z_trunc (lq16 v)) + 2 =? CmsLog.clower_of 2 6 dc v)) &&
     (KernelsLog.gen_merge_log8_cell (KernelTieLogMerge.c2v_of dc) lq8 two (fst ab) (snd ab) 17 6 2 =?
      CmsLog.merge_cell8 2 6 17 dc (fst ab) (snd ab)) &&
     (KernelsLog.gen_merge_log16_cell (KernelTieLogMerge.c2v_of dc) lq16 two (fst ab) (snd ab) 17 6 2 =?
      CmsLog.merge_cell16 2 6 17 dc (fst ab) (snd ab)))%bool) pairs = true /\
  map (fun ab => KernelsLog.gen_merge_log8_cell (KernelTieLogMerge.c2v_of dc) (KernelsLog.gen_merge_log8_logq flog two 2) two
                   (fst ab) (snd ab) 17 6 2) [(0, 0); (1, 1); (2, 1); (3, 3); (4, 3); (4, 4); (5, 4); (5, 5); (6, 0)]
  = [0; 2; 3; 4; 5; 5; 6; 6; 6] /\
  (KernelsLog.gen_merge_log16_n_added 5 7, KernelsLog.gen_merge_log8_n_records 1 2) = (12, 3).
Proof. vm_compute. repeat split; reflexivity. Qed.
