(* C15 — merging incompatible sketches is refused and changes nothing.
   Only theorem statements; every proof is `exact <lemma>` from theories/GuardProofs.v.
   guard_linear/log16/log8/hll/hh are the attribute lists read from the five merge() methods of
   /repo on this run (generated/Consts.v); `kernel` is any merge kernel. *)
From Coq Require Import ZArith List Bool.
From Coq Require String.
Import String.StringSyntax.
From Sketchnu Require Import Machine Consts Persist Guard GuardProofs.
Import ListNotations.
Open Scope string_scope.
Open Scope Z_scope.

Theorem C15_guard_complete :
  incl required_linear guard_linear /\ incl required_log guard_log16 /\ incl required_log guard_log8
  /\ incl required_hll guard_hll /\ incl required_hh guard_hh.
Proof. exact guard_complete. Qed.
Print Assumptions C15_guard_complete.

Theorem C15_guard_names_known :
  forallb known_name (guard_linear ++ guard_log16 ++ guard_log8 ++ guard_hll ++ guard_hh) = true
  /\ incl guard_linear required_linear /\ incl guard_log16 required_log /\ incl guard_log8 required_log
  /\ incl guard_hll required_hll /\ incl guard_hh required_hh.
Proof. exact guard_names_known. Qed.
Print Assumptions C15_guard_names_known.

Theorem C15_refuse : forall (kernel : sketch -> sketch -> sketch) (a b : sketch),
  same_family a b = true -> compatible a b = false -> merge kernel a b = (MErr TypeError, a, b).
Proof. exact refuse. Qed.
Print Assumptions C15_refuse.

Theorem C15_accept : forall (kernel : sketch -> sketch -> sketch) (a b : sketch),
  same_family a b = true -> compatible a b = true -> merge kernel a b = (MOk, kernel a b, b).
Proof. exact accept. Qed.
Print Assumptions C15_accept.

Theorem C15_iff : forall a b : sketch,
  same_family a b = true ->
  (compatible a b = true <-> class_of a = class_of b /\ key_params a = key_params b).
Proof. exact compatible_iff. Qed.
Print Assumptions C15_iff.

Theorem C15_cms_never_attribute_error : forall a b : sketch,
  is_cms (class_of a) = true -> is_cms (class_of b) = true ->
  guard_eval (guard_of (class_of a)) a b = GCompat \/ guard_eval (guard_of (class_of a)) a b = GRefuse.
Proof. exact cms_guard_total. Qed.
Print Assumptions C15_cms_never_attribute_error.

Theorem C15_mixed_cms : forall (kernel : sketch -> sketch -> sketch) (a b : sketch),
  is_cms (class_of a) = true -> is_cms (class_of b) = true -> class_of a <> class_of b ->
  merge kernel a b = (MErr TypeError, a, b).
Proof. exact mixed_cms. Qed.
Print Assumptions C15_mixed_cms.

Theorem C15_cross_family : forall (kernel : sketch -> sketch -> sketch) (a b : sketch),
  same_family a b = false ->
  merge kernel a b = (MErr TypeError, a, b) \/ merge kernel a b = (MErr AttributeError, a, b).
Proof. exact cross_family. Qed.
Print Assumptions C15_cross_family.

(* non-vacuity: compatible pairs of every class merge; one refused pair per parameter kind and per
   counter-type pair; the short circuit is what keeps log16.merge(linear) a TypeError *)
Example C15_nonvacuous :
  map (fun p => merge_code (fst p) (snd p)) [(g_lin, g_lin); (g_l16, g_l16); (g_l8, g_l8); (g_hll, g_hll); (g_hh, g_hh_phi)]
    = [0; 0; 0; 0; 0]
  /\ map (fun p => merge_code (fst p) (snd p))
       [(g_lin, g_lin_w); (g_l16, g_l16_nr); (g_hll, g_hll_seed); (g_lin, g_l16); (g_l16, g_lin); (g_l16, g_l8); (g_l8, g_l16)]
     = [1; 1; 1; 1; 1; 1; 1]
  /\ attr g_lin "max_count" = AMissing /\ In "max_count" guard_log16
  /\ guard_eval guard_log16 g_l16 g_lin = GRefuse
  /\ merge_code g_lin g_hh = 2 /\ merge_code g_hh g_lin = 2 /\ merge_code g_hll g_lin = 2 /\ merge_code g_lin_w g_hh = 1.
Proof. exact guard_examples. Qed.
