(* C18 — counters saturate at their ceiling; they never wrap around.
   Linear count-min part here; heavy-hitter and log-counter parts are the C18_hh_* / C18_log_* theorems. *)
From Coq Require Import ZArith List.
From Sketchnu Require Import Machine CmsLinear CmsLinearProofs.
Import ListNotations.
Open Scope Z_scope.

Theorem C18_lin_ceiling : cap = 2^32 - 1.
Proof. exact cap_val. Qed.
Print Assumptions C18_lin_ceiling.

(* every counter of every reachable sketch stays in [0, 2^32-1]: no uint32 expression wraps *)
Theorem C18_lin_range : forall width depth bucket (h : hist) r c,
  0 <= cms (eval width depth bucket h) r c <= cap.
Proof. intros. apply Rng_eval. Qed.
Print Assumptions C18_lin_range.

Theorem C18_lin_sticky_add : forall depth bucket (s : sk) (k j : key) (v : Z), Rng s -> 0 <= v ->
  query depth bucket s k = cap -> query depth bucket (cls_add depth bucket s j v) k = cap.
Proof. exact CmsLinearProofs.C18_lin_sticky_add. Qed.
Print Assumptions C18_lin_sticky_add.

Theorem C18_lin_sticky_merge : forall depth bucket (a b : sk) (k : key), Rng a -> Rng b ->
  query depth bucket a k = cap \/ query depth bucket b k = cap -> query depth bucket (merge a b) k = cap.
Proof.
  intros depth bucket a b k Ha Hb [H|H].
  - exact (CmsLinearProofs.C18_lin_sticky_merge depth bucket a b k Ha Hb H).
  - exact (CmsLinearProofs.C18_lin_sticky_merge_r depth bucket a b k Ha Hb H).
Qed.
Print Assumptions C18_lin_sticky_merge.

Theorem C18_lin_mono_add : forall depth bucket (s : sk) (k : key) (v : Z) (j : key), Rng s -> 0 <= v ->
  query depth bucket s j <= query depth bucket (cls_add depth bucket s k v) j.
Proof. exact CmsLinearProofs.C05_lin_mono. Qed.
Print Assumptions C18_lin_mono_add.

Theorem C18_lin_mono_merge : forall depth bucket (a b : sk) (k : key), Rng a -> Rng b ->
  query depth bucket a k <= query depth bucket (merge a b) k.
Proof. exact CmsLinearProofs.C18_lin_mono_merge. Qed.
Print Assumptions C18_lin_mono_merge.

Example C18_lin_nonvacuous :
  let b : nat -> key -> nat := fun _ _ => 0%nat in
  let s := eval 1 1 b (HAdd (HAdd HEmpty [1] (cap - 1)) [2] 1) in
  query 1 b s [1] = cap /\ query 1 b (cls_add 1 b s [3] 7) [1] = cap /\ query 1 b (merge s s) [2] = cap.
Proof. vm_compute. repeat split; reflexivity. Qed.
