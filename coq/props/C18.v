(* C18 — counters saturate at their ceiling; they never wrap around.
   Linear count-min part here; heavy-hitter and log-counter parts are the C18_hh_* / C18_log_* theorems. *)
From Coq Require Import ZArith List.
From Coq Require Import Floats.PrimFloat.
From Sketchnu Require Import Machine CmsLinear CmsLinearProofs.
From Coq Require Import Reals.
From Sketchnu Require CmsLog CmsLogProofs HH HHProofs LogLaw Consts KernelsCountmin KernelTieCountmin.
Import ListNotations.
Open Scope Z_scope.

Theorem C18_lin_ceiling : cap = 2^32 - 1.
Proof. exact cap_val. Qed.
Print Assumptions C18_lin_ceiling.

(* every counter of every reachable sketch stays in [0, 2^32-1]: no uint32 expression wraps *)
Theorem C18_lin_range : forall width depth bucket (h : hist) r c,
  0 <= cms (eval width depth bucket h) r c <= cap.
Proof. intros. apply Rng_eval. Qed.
Print Assumptions C18_lin_range.

Theorem C18_lin_sticky_add : forall depth bucket (s : sk) (k j : key) (v : Z), Rng s -> 0 <= v ->
  query depth bucket s k = cap -> query depth bucket (cls_add depth bucket s j v) k = cap.
Proof. exact CmsLinearProofs.C18_lin_sticky_add. Qed.
Print Assumptions C18_lin_sticky_add.

Theorem C18_lin_sticky_merge : forall depth bucket (a b : sk) (k : key), Rng a -> Rng b ->
  query depth bucket a k = cap \/ query depth bucket b k = cap -> query depth bucket (merge a b) k = cap.
Proof.
  intros depth bucket a b k Ha Hb [H|H].
  - exact (CmsLinearProofs.C18_lin_sticky_merge depth bucket a b k Ha Hb H).
  - exact (CmsLinearProofs.C18_lin_sticky_merge_r depth bucket a b k Ha Hb H).
Qed.
Print Assumptions C18_lin_sticky_merge.

Theorem C18_lin_mono_add : forall depth bucket (s : sk) (k : key) (v : Z) (j : key), Rng s -> 0 <= v ->
  query depth bucket s j <= query depth bucket (cls_add depth bucket s k v) j.
Proof. exact CmsLinearProofs.C05_lin_mono. Qed.
Print Assumptions C18_lin_mono_add.

Theorem C18_lin_mono_merge : forall depth bucket (a b : sk) (k : key), Rng a -> Rng b ->
  query depth bucket a k <= query depth bucket (merge a b) k.
Proof. exact CmsLinearProofs.C18_lin_mono_merge. Qed.
Print Assumptions C18_lin_mono_merge.

Example C18_lin_nonvacuous :
  let b : nat -> key -> nat := fun _ _ => 0%nat in
  let s := eval 1 1 b (HAdd (HAdd HEmpty [1] (cap - 1)) [2] 1) in
  query 1 b s [1] = cap /\ query 1 b (cls_add 1 b s [3] 7) [1] = cap /\ query 1 b (merge s s) [2] = cap.
Proof. vm_compute. repeat split; reflexivity. Qed.

(* ---------------- log8 / log16 ---------------- *)
Import CmsLog.
Import CmsLogProofs.

(* _log_counter returns at once at the ceiling: no increment, no draw *)
Theorem C18_log_counter_ceiling : forall nr umax powneg c rs v, umax <= c -> log_counter nr umax powneg c rs v = (c, rs).
Proof. exact CmsLogProofs.C18_log_counter_ceiling. Qed.
Print Assumptions C18_log_counter_ceiling.

Theorem C18_log_range_add : forall depth bucket nr umax powneg castc,
  0 <= umax -> (forall x, 0 <= x <= umax -> castc x = x) ->
  forall (s : lsk) (k : key) (v : Z), lsk_ok umax s -> 0 <= v ->
  lsk_ok umax (lcls_add depth bucket nr umax powneg castc s k v).
Proof. exact CmsLogProofs.C18_log_range_add. Qed.
Print Assumptions C18_log_range_add.

Theorem C18_log_sticky_add : forall depth bucket nr umax powneg castc,
  0 <= umax -> (forall x, 0 <= x <= umax -> castc x = x) ->
  forall (s : lsk) (k j : key) (v : Z), lsk_ok umax s -> 0 <= v ->
  lquery depth bucket umax s k = umax ->
  lquery depth bucket umax (lcls_add depth bucket nr umax powneg castc s j v) k = umax.
Proof. exact CmsLogProofs.C18_log_sticky_add. Qed.
Print Assumptions C18_log_sticky_add.

Theorem C18_log_mono_add : forall depth bucket nr umax powneg castc,
  0 <= umax -> (forall x, 0 <= x <= umax -> castc x = x) ->
  forall (s : lsk) (k : key) (v : Z) (j : key), lsk_ok umax s -> 0 <= v ->
  lquery depth bucket umax s j <= lquery depth bucket umax (lcls_add depth bucket nr umax powneg castc s k v) j.
Proof. exact CmsLogProofs.C18_log_mono_add. Qed.
Print Assumptions C18_log_mono_add.

(* merges: for a configuration whose merge rule never goes below either input (merge_ge_ok, established per
   configuration by the reflected grid check C09_log_grid on the real tables) *)
Theorem C18_log_mono_merge : forall depth bucket nr umax max_count decode castc (a b : lsk) (k : key),
  merge_ge_ok nr umax max_count decode castc -> lsk_ok umax a -> lsk_ok umax b ->
  lquery depth bucket umax a k <= lquery depth bucket umax (merge_log nr umax max_count decode castc a b) k /\
  lquery depth bucket umax b k <= lquery depth bucket umax (merge_log nr umax max_count decode castc a b) k.
Proof. exact CmsLogProofs.C18_log_mono_merge. Qed.
Print Assumptions C18_log_mono_merge.

Theorem C18_log_sticky_merge : forall depth bucket nr umax max_count decode castc (a b : lsk) (k : key),
  merge_ge_ok nr umax max_count decode castc -> lsk_ok umax a -> lsk_ok umax b ->
  lquery depth bucket umax a k = umax \/ lquery depth bucket umax b k = umax ->
  lquery depth bucket umax (merge_log nr umax max_count decode castc a b) k = umax.
Proof. exact CmsLogProofs.C18_log_sticky_merge. Qed.
Print Assumptions C18_log_sticky_merge.

Theorem C18_log_grid_gives_ge : forall nr umax max_count decode castc,
  merge_grid_b nr umax max_count decode castc = true -> merge_ge_ok nr umax max_count decode castc.
Proof. exact CmsLogProofs.merge_grid_ge_ok. Qed.
Print Assumptions C18_log_grid_gives_ge.

(* ---------------- heavy hitters ---------------- *)
Theorem C18_hh_ceiling : Consts.hh_cap = 2^32 - 1.
Proof. reflexivity. Qed.
Print Assumptions C18_hh_ceiling.

Theorem C18_hh_range : forall (width depth max_key_len : nat) (bucket : nat -> key -> nat) (default_thr : Z -> Z),
  (forall r k, (bucket r k < width)%nat) -> (max_key_len <= 255)%nat ->
  forall (h : HH.hist) (r c : nat), HH.wf h ->
  0 <= HH.cnt (HH.tab (HH.eval width depth max_key_len bucket default_thr h) r c) <= Consts.hh_cap.
Proof. exact HHProofs.hh_range. Qed.
Print Assumptions C18_hh_range.

(* a key that fills its cell alone has count min(true count, 2^32-1) ... *)
Theorem C18_hh_alone : forall (width depth max_key_len : nat) (bucket : nat -> key -> nat) (default_thr : Z -> Z),
  (forall r k, (bucket r k < width)%nat) -> (max_key_len <= 255)%nat ->
  forall (h : HH.hist) (r : nat) (x : list Z), HH.wf h -> (r < depth)%nat -> (length x <= max_key_len)%nat ->
  HHProofs.alone max_key_len bucket h r x ->
  let cl := HH.tab (HH.eval width depth max_key_len bucket default_thr h) r (bucket r x) in
  HH.cnt cl = Z.min (HH.truth max_key_len h x) Consts.hh_cap /\ (0 < HH.cnt cl -> HH.stored cl = x).
Proof. exact HHProofs.hh_alone. Qed.
Print Assumptions C18_hh_alone.

(* ... and it only grows under further adds and merges *)
Theorem C18_hh_alone_mono_add : forall (width depth max_key_len : nat) (bucket : nat -> key -> nat) (default_thr : Z -> Z),
  (forall r k, (bucket r k < width)%nat) -> (max_key_len <= 255)%nat ->
  forall (h : HH.hist) (k : key) (v : Z) (r : nat) (x : list Z),
  HH.wf (HH.HAdd h k v) -> (r < depth)%nat -> (length x <= max_key_len)%nat ->
  HHProofs.alone max_key_len bucket (HH.HAdd h k v) r x ->
  HH.cnt (HH.tab (HH.eval width depth max_key_len bucket default_thr h) r (bucket r x)) <=
  HH.cnt (HH.tab (HH.eval width depth max_key_len bucket default_thr (HH.HAdd h k v)) r (bucket r x)).
Proof. exact HHProofs.hh_alone_mono_add. Qed.
Print Assumptions C18_hh_alone_mono_add.

Theorem C18_hh_alone_mono_merge : forall (width depth max_key_len : nat) (bucket : nat -> key -> nat) (default_thr : Z -> Z),
  (forall r k, (bucket r k < width)%nat) -> (max_key_len <= 255)%nat ->
  forall (h1 h2 : HH.hist) (r : nat) (x : list Z),
  HH.wf (HH.HMerge h1 h2) -> (r < depth)%nat -> (length x <= max_key_len)%nat ->
  HHProofs.alone max_key_len bucket (HH.HMerge h1 h2) r x ->
  HH.cnt (HH.tab (HH.eval width depth max_key_len bucket default_thr h1) r (bucket r x)) <=
  HH.cnt (HH.tab (HH.eval width depth max_key_len bucket default_thr (HH.HMerge h1 h2)) r (bucket r x)).
Proof. exact HHProofs.hh_alone_mono_merge. Qed.
Print Assumptions C18_hh_alone_mono_merge.

(* ---------------- the base equation (over the reals) ----------------
   _func(b) = b^K - M*b + (M-1) with K = umax - num_reserved, M = max_count - num_reserved: a root b > 1 is
   exactly a base whose maximum counter decodes to max_count; the repaired _funcprime is its derivative;
   for K = 1 there is no root (such configurations must be rejected). *)
Theorem C18_base_equation : forall (b M nr : R) (K : nat), (1 < b)%R -> (1 <= K)%nat ->
  (LogLaw.func M K b = 0 <-> nr + (b ^ K - 1) / (b - 1) = nr + M)%R.
Proof. exact LogLaw.base_equation. Qed.
Print Assumptions C18_base_equation.

Theorem C18_root_is_ceiling : forall (b : R) (nr umax max_count : Z), (1 < b)%R -> nr < umax ->
  (LogLaw.func (IZR max_count - IZR nr) (Z.to_nat (umax - nr)) b = 0 <-> LogLaw.val b nr umax = IZR max_count)%R.
Proof. exact LogLaw.root_is_ceiling. Qed.
Print Assumptions C18_root_is_ceiling.

Theorem C18_funcprime_is_derivative : forall (M : R) (K : nat) (b : R),
  derivable_pt_lim (LogLaw.func M K) b (LogLaw.funcprime M K b).
Proof. exact LogLaw.funcprime_is_derivative. Qed.
Print Assumptions C18_funcprime_is_derivative.

Theorem C18_K1_unsolvable : forall M b : R, (1 < b)%R -> M <> 1%R -> LogLaw.func M 1 b <> 0%R.
Proof. exact LogLaw.K1_unsolvable. Qed.
Print Assumptions C18_K1_unsolvable.

(* the same two facts on the functions REGENERATED FROM THE SOURCE on this run (generated/Kernels.v, float64 read
   as reals): _func is the modelled polynomial and _funcprime is its derivative - reverting the F3 repair, or any
   other edit of these two functions, breaks this obligation *)
Theorem C18_func_source_tie : forall (b : R) (mc nr um : Z), nr <= um ->
  KernelsCountmin.gen_func b mc nr um = LogLaw.func (IZR mc - IZR nr) (Z.to_nat (um - nr)) b.
Proof. exact KernelTieCountmin.tie_func. Qed.
Print Assumptions C18_func_source_tie.

Theorem C18_funcprime_source_is_derivative : forall (b : R) (mc nr um : Z), nr < um ->
  derivable_pt_lim (fun x => KernelsCountmin.gen_func x mc nr um) b (KernelsCountmin.gen_funcprime b mc nr um).
Proof. exact KernelTieCountmin.gen_funcprime_is_derivative. Qed.
Print Assumptions C18_funcprime_source_is_derivative.

(* ---------------- source tie (log counters: the two saturation sites) ----------------
   on the definitions regenerated from the source AST on this run (generated/KernelsLog.v, harness/pytrans_log.py):
   the loop body of _log_counter returns early, leaving the counter alone, as soon as counter >= uint_maxval (countmin.py
   l.226-227), whatever the draw and the power function; and the body of _merge_log16 / _merge_log8's cell loop stores
   uint_maxval when the decoded sum is above num_reserved and >= max_count (l.1117-1118 / l.1716-1717), whatever the
   logarithm does (c2v := the decode table) *)
From Sketchnu Require KernelsLog KernelTieLogCounter.
Theorem C18_log_counter_source_tie :
  forall (fpow : float -> float -> float) (base r : float) (nr umax c : Z),
    0 <= umax < 2^16 -> umax <= c < 2^16 -> KernelsLog.gen_log_counter_step fpow base r c nr umax = None.
Proof. exact (fun fpow base r nr umax c => KernelTieLogCounter.tie_log_counter_ceiling fpow base nr umax r c). Qed.
Print Assumptions C18_log_counter_source_tie.

Example C18_log_counter_source_tie_nonvacuous :
  map (fun c => KernelsLog.gen_log_counter_step (fun _ _ => nan) nan nan c 15 255) [255; 256; 65535] = [None; None; None] /\
  KernelsLog.gen_log_counter_step (fun _ _ => nan) nan nan 14 15 255 = Some (15, 0).
Proof. vm_compute. split; reflexivity. Qed.

From Sketchnu Require KernelTieLogMerge.
Theorem C18_log_merge_source_tie :
  forall (nr umax max_count : Z) (decode : Z -> float) (logq : float -> float) (base : float) (mine other : Z),
    let v := (decode mine + decode other)%float in
    0 <= mine < 2^16 -> 0 <= other < 2^16 ->
    PrimFloat.leb v (CmsLog.z2f nr) = false -> PrimFloat.leb (CmsLog.u64_to_float max_count) v = true ->
    (0 <= nr < 2^16 -> 0 <= umax < 2^16 ->
     KernelsLog.gen_merge_log16_cell (KernelTieLogMerge.c2v_of decode) logq base mine other max_count umax nr = umax) /\
    (0 <= nr < 2^8 -> 0 <= umax < 2^8 ->
     KernelsLog.gen_merge_log8_cell (KernelTieLogMerge.c2v_of decode) logq base mine other max_count umax nr = umax).
Proof. exact KernelTieLogMerge.tie_merge_log_saturates. Qed.
Print Assumptions C18_log_merge_source_tie.

Example C18_log_merge_source_tie_nonvacuous :
  let dc := fun c => CmsLog.z2f (if c <=? 2 then c else 2 ^ (c - 2) + 1) in
  let junk := fun _ : float => nan in
  (PrimFloat.leb (dc 6 + dc 0) (CmsLog.z2f 2), PrimFloat.leb (CmsLog.u64_to_float 17) (dc 6 + dc 0)) = (false, true) /\
  map (fun ab => KernelsLog.gen_merge_log8_cell (KernelTieLogMerge.c2v_of dc) junk nan (fst ab) (snd ab) 17 6 2) [(6, 0); (5, 5); (6, 6)]
  = [6; 6; 6] /\
  map (fun ab => KernelsLog.gen_merge_log16_cell (KernelTieLogMerge.c2v_of dc) junk nan (fst ab) (snd ab) 17 6 2) [(6, 0); (5, 5); (6, 6)]
  = [6; 6; 6].
Proof. vm_compute. repeat split; reflexivity. Qed.

(* ---------------- source tie (class-level add wrappers) ----------------
   the clamp at uint_maxval that CountMinLinear.add and HeavyHitters.add apply to the multiplicity before the kernel's
   uint32 parameter truncates it, as regenerated from the source AST on this run (generated/KernelsApi.v): without it a
   multiplicity >= 2^32 wraps instead of saturating *)
From Sketchnu Require KernelsApi KernelTieApiLinear.
Theorem C18_api_linear_source_tie :
  forall v, KernelsApi.gen_api_linear_add_value v CmsLinear.cap = Some (Z.min v CmsLinear.cap).
Proof. exact KernelTieApiLinear.tie_api_linear_value. Qed.
Print Assumptions C18_api_linear_source_tie.
From Sketchnu Require KernelTieApiHH.
Theorem C18_api_hh_source_tie :
  forall v, KernelsApi.gen_api_hh_add_value v Consts.hh_cap = Some (Z.min v Consts.hh_cap).
Proof. exact KernelTieApiHH.tie_api_hh_value. Qed.
Print Assumptions C18_api_hh_source_tie.
