(* C10 — save/load reproduces the sketch exactly, for every sketch type.
   Only theorem statements; every proof is `exact <lemma>` from theories/PersistProofs.v.
   base_ok is the outcome of _find_base as a function of (max_count, num_reserved, uint_maxval):
   the theorems hold for every such function.  Float members are carried as binary64 bit patterns. *)
From Coq Require Import ZArith List Bool.
From Coq Require String.
Import String.StringSyntax.
From Sketchnu Require Import Machine Consts Persist PersistProofs.
Import ListNotations.
Open Scope string_scope.
Open Scope Z_scope.

Theorem C10_roundtrip : forall (base_ok : Z -> Z -> Z -> bool) (s : sketch) (shm : bool),
  wf base_ok s -> load base_ok (class_of s) shm (save s) = Ok s.
Proof. exact roundtrip. Qed.
Print Assumptions C10_roundtrip.

Theorem C10_hh_args : forall x phi : Z,
  0 <= x < two53 -> to_u64 F64 (f64bits_of_Z x) = Ok x /\ to_f64 F64 phi = Ok phi.
Proof. exact hh_args. Qed.
Print Assumptions C10_hh_args.

Theorem C10_hh_bounds : forall (base_ok : Z -> Z -> Z -> bool) w d mkl phi lhh cnt kl na nr,
  wf base_ok (SHH w d mkl phi lhh cnt kl na nr) -> 0 < mkl <= 255 /\ 0 < w < two53 /\ 0 < d < two53.
Proof. exact hh_mkl_bound. Qed.
Print Assumptions C10_hh_bounds.

Theorem C10_hh_args_bound_needed : to_u64 F64 (f64bits_of_Z (two53 + 1)) = Ok two53.
Proof. exact hh_args_needs_bound. Qed.
Print Assumptions C10_hh_args_bound_needed.

Theorem C10_phi_accepted : forall b : Z,
  0 <= b < two64 ->
  (f64_le_zero b || f64_gt_one b = false <-> (0 < b <= f64_one_bits) \/ f64_is_nan b = true).
Proof. exact phi_accepted_iff. Qed.
Print Assumptions C10_phi_accepted.

Theorem C10_copyto_shortcut_sound : forall (sh : list Z) (a : arr),
  Forall (fun d => 0 <= d) sh -> a_shape a = sh -> Z.of_nat (length (a_data a)) = prodZ sh ->
  match align_shape sh (a_shape a) with Some s' => bcast sh s' (a_data a) | None => None end = broadcast sh a.
Proof. exact broadcast_shortcut_sound. Qed.
Print Assumptions C10_copyto_shortcut_sound.

Theorem C10_dispatch : forall (base_ok : Z -> Z -> Z -> bool) (s : sketch) (shm : bool),
  is_cms (class_of s) = true ->
  module_load base_ok shm (save s) = load base_ok (class_of s) shm (save s).
Proof. exact dispatch. Qed.
Print Assumptions C10_dispatch.

Theorem C10_reject : forall (base_ok : Z -> Z -> Z -> bool) (s : sketch) (c : klass) (shm : bool),
  is_cms c = true -> is_cms (class_of s) = true -> c <> class_of s ->
  load base_ok c shm (save s) = Err TypeError.
Proof. exact reject. Qed.
Print Assumptions C10_reject.

Theorem C10_foreign_file : forall (base_ok : Z -> Z -> Z -> bool) (s : sketch) (c : klass) (shm : bool),
  is_cms c = true -> is_cms (class_of s) = false ->
  load base_ok c shm (save s) = Err KeyError /\ module_load base_ok shm (save s) = Err KeyError.
Proof. exact foreign_file_keyerror. Qed.
Print Assumptions C10_foreign_file.

Theorem C10_continue : forall (base_ok : Z -> Z -> Z -> bool) (Op : Type) (step : sketch -> Op -> sketch)
    (s s' : sketch) (shm : bool),
  wf base_ok s -> load base_ok (class_of s) shm (save s) = Ok s' ->
  forall ops : list Op, fold_left step ops s' = fold_left step ops s.
Proof. exact continue. Qed.
Print Assumptions C10_continue.

Theorem C10_chain : forall (base_ok : Z -> Z -> Z -> bool) (Op : Type) (step : sketch -> Op -> sketch)
    (s : sketch) (shm : bool) (ops : list Op),
  wf base_ok s -> wf base_ok (fold_left step ops s) ->
  bind (load base_ok (class_of s) shm (save s))
       (fun s1 => let s2 := fold_left step ops s1 in load base_ok (class_of s2) shm (save s2))
  = Ok (fold_left step ops s).
Proof. exact chain. Qed.
Print Assumptions C10_chain.

(* non-vacuity: width = depth = 1 at the counter ceiling with n_added = 2^64-1; log16/log8 with
   non-default max_count / num_reserved (254 = largest accepted); HyperLogLog seed 2^64-1;
   the F5 regression (HeavyHitters width 1, default phi = 1.0) loads; phi = 0.25;
   module-level dispatch; a cross-class TypeError; the dtype fall-through returning None *)
(* the integer-arithmetic binary64 encoder of Persist.v agrees with Coq's kernel floats
   (PrimFloat.of_uint63, evaluated, no float axioms) on 28 boundary integers around 2^53, 2^54, 2^62, 2^63 *)
Example C10_f64_model_matches_kernel_floats :
  forallb (fun x => match prim_bits_of_Z x with Some b => b =? f64bits_of_Z x | None => false end) f64_probe = true.
Proof. exact f64bits_matches_primfloat. Qed.

Example C10_nonvacuous :
  forallb (wfb any_base) ex_all = true /\
  forallb (fun s => result_eqb (load any_base (class_of s) true (save s)) (Ok s)) ex_all = true /\
  forallb (fun s => result_eqb (module_load any_base false (save s)) (Ok s)) [ex_lin; ex_log16; ex_log8] = true /\
  load any_base KLog8 false (save ex_log16) = Err TypeError /\
  module_load any_base false [("dtype", mk_arr U64 [] [0])] = RetNone.
Proof. exact examples_wf_and_load. Qed.
