(* C04 — a key that dominates one of its cells is always reported.
   Only theorem statements; every proof is `exact <lemma>` from theories/HHProofs.v.
   No-saturation hypothesis as in the property text: the mass of the cell is below 2^32. *)
From Coq Require Import ZArith List Lia.
From Sketchnu Require Import Machine Consts HH HHProofs.
Import ListNotations.
Open Scope Z_scope.

(* the three cell lemmas of the mechanism, on (stored key, count) pairs: aphi x c = +count if c stores x, else -count *)
Theorem phi_add_same : forall x c v,
  0 <= snd c -> 0 <= v -> snd c + v <= hh_cap -> aphi x (a_add c x v) = aphi x c + v.
Proof. exact HHProofs.phi_add_same. Qed.
Print Assumptions phi_add_same.
Theorem phi_add_other : forall x c k v,
  0 <= snd c <= hh_cap -> 0 <= v -> k <> x -> aphi x c - v <= aphi x (a_add c k v).
Proof. exact HHProofs.phi_add_other. Qed.
Print Assumptions phi_add_other.
Theorem phi_merge_superadd : forall x a b,
  0 <= snd a -> 0 <= snd b -> snd a + snd b <= hh_cap -> aphi x a + aphi x b <= aphi x (a_merge a b).
Proof. exact HHProofs.phi_merge_superadd. Qed.
Print Assumptions phi_merge_superadd.

(* the code's cell operations are these abstract ones on well formed cells *)
Theorem C04_cell_add_abs : forall max_key_len, (max_key_len <= 255)%nat -> forall cl x v,
  cell_wf max_key_len cl -> (length x <= max_key_len)%nat -> 0 <= v <= hh_cap ->
  cell_wf max_key_len (cell_add cl (pad max_key_len x) (zlen x) v) /\
  abs (cell_add cl (pad max_key_len x) (zlen x) v) = a_add (abs cl) x v.
Proof. exact cell_add_abs. Qed.
Print Assumptions C04_cell_add_abs.
Theorem C04_cell_merge_abs : forall max_key_len, (max_key_len <= 255)%nat -> forall a b,
  cell_wf max_key_len a -> cell_wf max_key_len b ->
  cell_wf max_key_len (cell_merge a b) /\ abs (cell_merge a b) = a_merge (abs a) (abs b).
Proof. exact cell_merge_abs. Qed.
Print Assumptions C04_cell_merge_abs.

Theorem C04_cell : forall width depth max_key_len bucket default_thr,
  (forall r k, (bucket r k < width)%nat) -> (max_key_len <= 255)%nat ->
  forall h x r, wf h -> (r < depth)%nat -> mass max_key_len bucket h r (bucket r x) < 2^32 ->
  2 * truth max_key_len h x - mass max_key_len bucket h r (bucket r x)
  <= phi x (tab (eval width depth max_key_len bucket default_thr h) r (bucket r x)).
Proof. exact C04_cell_lemma. Qed.
Print Assumptions C04_cell.

(* for every row r, hence for the maximum over the rows *)
Theorem C04_getitem : forall width depth max_key_len bucket default_thr,
  (forall r k, (bucket r k < width)%nat) -> (max_key_len <= 255)%nat ->
  forall h k r, wf h -> (r < depth)%nat ->
  let x := ident max_key_len k in
  mass max_key_len bucket h r (bucket r x) < 2^32 ->
  0 < 2 * truth max_key_len h x - mass max_key_len bucket h r (bucket r x) ->
  hh_get depth max_key_len bucket (eval width depth max_key_len bucket default_thr h) k
  >= 2 * truth max_key_len h x - mass max_key_len bucket h r (bucket r x).
Proof. exact C04_getitem_lemma. Qed.
Print Assumptions C04_getitem.

Theorem C04_query : forall width depth max_key_len bucket default_thr,
  (forall r k, (bucket r k < width)%nat) -> (max_key_len <= 255)%nat ->
  forall h k r thr, wf h -> (r < depth)%nat ->
  let x := ident max_key_len k in
  let st := eval width depth max_key_len bucket default_thr h in
  mass max_key_len bucket h r (bucket r x) < 2^32 ->
  2 * truth max_key_len h x - mass max_key_len bucket h r (bucket r x) >= Z.max (thr_of default_thr st thr) 1 ->
  exists n, In (x, n) (snd (hh_query width depth max_key_len bucket default_thr st None thr)) /\
            n >= 2 * truth max_key_len h x - mass max_key_len bucket h r (bucket r x) /\
            n = hh_get depth max_key_len bucket st k.
Proof. exact C04_query_lemma. Qed.
Print Assumptions C04_query.

(* finite k: the key is among the first k as soon as at most k candidates count at least as much *)
Theorem C04_query_topk : forall width depth max_key_len bucket default_thr,
  (forall r k, (bucket r k < width)%nat) -> (max_key_len <= 255)%nat ->
  forall h k r kk thr, wf h -> (r < depth)%nat ->
  let x := ident max_key_len k in
  let st := eval width depth max_key_len bucket default_thr h in
  mass max_key_len bucket h r (bucket r x) < 2^32 ->
  2 * truth max_key_len h x - mass max_key_len bucket h r (bucket r x) >= Z.max (thr_of default_thr st thr) 1 ->
  (length (filter (fun q => snd q >=? hh_get depth max_key_len bucket st k)
                  (gen_cands width depth max_key_len bucket (tab st) (thr_of default_thr st thr))) <= Z.to_nat kk)%nat ->
  In (x, hh_get depth max_key_len bucket st k)
     (snd (hh_query width depth max_key_len bucket default_thr st (Some kk) thr)).
Proof. exact C04_query_topk_lemma. Qed.
Print Assumptions C04_query_topk.

(* a key with more than half of everything added is reported first, with count >= 2f - N *)
Theorem C04_majority : forall width depth max_key_len bucket default_thr,
  (forall r k, (bucket r k < width)%nat) -> (max_key_len <= 255)%nat ->
  forall h x thr, wf h -> (0 < depth)%nat -> total h < 2^32 ->
  let st := eval width depth max_key_len bucket default_thr h in
  2 * truth max_key_len h x > total h ->
  thr_of default_thr st thr <= 2 * truth max_key_len h x - total h ->
  exists n, hd_error (snd (hh_query width depth max_key_len bucket default_thr st (Some 1) thr)) = Some (x, n) /\
            n >= 2 * truth max_key_len h x - total h /\ n = hh_get depth max_key_len bucket st x.
Proof. exact C04_majority_lemma. Qed.
Print Assumptions C04_majority.

(* non-vacuity: width 1 (every key shares the cell), two sketches merged, alias key b"b\0" vs b"b" *)
Definition C04_h1 : hist :=
  HMerge (HAdd (HAdd (HAdd HEmpty [97] 5) [98;0] 2) [97] 1) (HAdd (HAdd HEmpty [98] 1) [97] 4).
Example C04_nonvacuous :
  wf C04_h1 /\
  let b := fun (_ : nat) (_ : key) => O in
  let dt := fun n => n / 2 in
  let s := eval 1 2 2 b dt C04_h1 in
  (truth 2 C04_h1 [97], mass 2 b C04_h1 0 0, total C04_h1, hh_get 2 2 b s [97], phi [97] (tab s 0%nat 0%nat), thr_of dt s None)
  = (10, 13, 13, 7, 7, 6) /\
  snd (hh_query 1 2 2 b dt s (Some 1) None) = [([97], 7)].
Proof. split; [cbn; repeat split; lia|]. vm_compute. split; reflexivity. Qed.

(* the cell operations of C04_cell_add_abs / C04_cell_merge_abs are the bodies of the row loop of _add and of the cell
   loop of _merge as regenerated from the source AST on this run (generated/KernelsHH.v; key arrays instantiated with
   the model's padded arrays, the array comparison with keqb; cell_triple c = (ckey c, cnt c, klen c)) *)
From Sketchnu Require KernelsHH KernelTieHH.
Theorem C04_add_source_tie :
  forall (cl : cell) (arr : key) (key_len value : Z), 0 <= cnt cl <= hh_cap -> 0 <= value <= hh_cap ->
    KernelsHH.gen_hh_add_cell key keqb (ckey cl) (cnt cl) (klen cl) arr key_len value hh_cap
    = KernelTieHH.cell_triple (cell_add cl arr key_len value).
Proof. exact KernelTieHH.tie_hh_add. Qed.
Print Assumptions C04_add_source_tie.

Theorem C04_merge_source_tie :
  forall a b : cell, 0 <= cnt a <= hh_cap -> 0 <= klen b < 256 ->
    KernelsHH.gen_hh_merge_cell key keqb (ckey a) (cnt a) (klen a) (ckey b) (cnt b) (klen b) hh_cap
    = KernelTieHH.cell_triple (cell_merge a b).
Proof. exact KernelTieHH.tie_hh_merge. Qed.
Print Assumptions C04_merge_source_tie.
