(* C19 — a failing callback or dead worker never silently corrupts or hangs parallel_add.
   Only theorem statements; every proof is `exact <lemma>` from theories/MergingProofs.v.
   Vocabulary (theories/Merging.v):
     outcome        per queue item: Ok ops n (the callback applied ops and returned n) |
                    RaiseBefore (raised before touching the sketches) | RaiseAfter ops (raised after
                    applying ops); handle is the try/except of helpers._worker l.187-197;
     worker_loop    the while loop of _worker (l.183-231), structural on the queue contents;
     eff_items / ok_items   per item: what took effect / what it did if it succeeded ([] otherwise);
     hll_pa / cms_pa        parallel_add over a schedule (see props/C08.v);
     monitor / pa_tail / pa_run   the exit-code loop l.356-376 and the rest of parallel_add l.379-428 as
                    a trace of events; log_put on a closed queue raises (CPython's Queue.put).
   Proved: callback faults.  Observed only (real spawned runs): a worker process that dies makes
   Process.exitcode non-zero, kill()/join() return, wall-clock termination. *)
From Coq Require Import ZArith List Bool Permutation.
From Sketchnu Require Import Machine Consts Hashes Ngram Hll HllProofs CmsLinear CmsLinearProofs CmsLinearHarness Merging MergingProofs.
Import ListNotations.
Open Scope Z_scope.

(* ---------------- the worker loop under callback faults ---------------- *)
(* it consumes exactly the items in front of its pill, leaves the rest of the queue alone and
   returns; what every item did (all of an Ok item, the written part of a RaiseAfter item, nothing
   of a RaiseBefore item) is applied in order *)
Theorem C19_terminates : forall (St Ops : Type) (apply : St -> Ops -> St) (add_records : St -> Z -> St)
    (items : list (outcome Ops)) (rest : list (qitem Ops)) (st : St) (n : Z),
  worker_loop St Ops apply add_records (map Item items ++ Pill :: rest) st n =
  Some (add_records (fold_left apply (flat_map (effect Ops) items) st) (n + zsum (map (recs Ops) items)), rest).
Proof. exact worker_loop_items. Qed.
Print Assumptions C19_terminates.

(* without a pill it does not return (in_queue.get() blocks) *)
Theorem C19_needs_pill : forall (St Ops : Type) (apply : St -> Ops -> St) (add_records : St -> Z -> St)
    (items : list (outcome Ops)) (st : St) (n : Z),
  worker_loop St Ops apply add_records (map Item items) st n = None.
Proof. exact worker_loop_blocks. Qed.
Print Assumptions C19_needs_pill.

(* n_records, added once at the pill, is the sum of n over the Ok items only *)
Theorem C19_nrecords : forall (St Ops : Type) (apply : St -> Ops -> St) (add_records : St -> Z -> St)
    (outs : list (outcome Ops)) (order : list nat) (st0 : St),
  worker St Ops apply add_records (worker_queue Ops outs order) st0 =
  Some (add_records (fold_left apply (flat_map (effect Ops) (sched_items Ops outs order)) st0)
                    (zsum (map (recs Ops) (filter (is_ok Ops) (sched_items Ops outs order)))), []).
Proof. exact worker_nrecords_ok_only. Qed.
Print Assumptions C19_nrecords.

(* every Ok item's ops are among the ops the worker applied *)
Theorem C19_ok_ops_applied : forall (Ops : Type) (items : list (outcome Ops)) (o : outcome Ops) (ops : Ops) (n : Z),
  In o items -> o = Ok ops n -> In ops (flat_map (effect Ops) items).
Proof. exact ok_ops_applied. Qed.
Print Assumptions C19_ok_ops_applied.

(* ---------------- every other item's full contribution is in the result ---------------- *)
(* linear count-min, any outcomes, any schedule: n_records counts the Ok items only; every key's
   estimate is at least min(its count over the Ok items, cap) and at most the row mass of what
   actually took effect *)
Theorem C19_others_intact : forall (width depth : nat) (bucket : nat -> key -> nat)
    (outs : list (outcome cms_item)) (sched : list (list nat)),
  (forall r k, (bucket r k < width)%nat) ->
  sched <> [] /\ Permutation (concat sched) (seq 0 (length outs)) ->
  Forall (fun o => 0 <= recs cms_item o) outs -> zsum (map (recs cms_item) outs) < 2^64 ->
  Forall item_wf (eff_items outs) ->
  exists s, cms_pa depth bucket outs sched = Some s /\
    n_records s = zsum (map (recs cms_item) (filter (is_ok cms_item) outs)) /\
    forall k,
      truth (cms_seq_hist (ok_items outs)) k <= truth (cms_seq_hist (eff_items outs)) k /\
      Z.min (truth (cms_seq_hist (ok_items outs)) k) cap <= query depth bucket s k /\
      forall r, (r < depth)%nat ->
        query depth bucket s k <= Z.min cap (mass bucket (cms_seq_hist (eff_items outs)) r (bucket r k)).
Proof. exact C19_cms_thm. Qed.
Print Assumptions C19_others_intact.

(* the result is eval of the merge tree over the histories of what took effect *)
Theorem C19_result_is_history : forall (width depth : nat) (bucket : nat -> key -> nat)
    (outs : list (outcome cms_item)) (sched : list (list nat)),
  sched <> [] /\ Permutation (concat sched) (seq 0 (length outs)) ->
  Forall (fun o => 0 <= recs cms_item o) outs -> zsum (map (recs cms_item) outs) < 2^64 ->
  exists T, pm hist HMerge (map (cms_worker_hist (eff_items outs)) sched) = Some T /\
            cms_pa depth bucket outs sched =
              Some (with_records (eval width depth bucket T) (zsum (map (recs cms_item) outs))).
Proof. exact cms_pa_spec. Qed.
Print Assumptions C19_result_is_history.

(* HyperLogLog: the registers are those of one sketch fed everything that took effect; every
   key of every Ok item is in it *)
Theorem C19_hll_intact : forall (p seed : Z) (outs : list (outcome (list key))) (sched : list (list nat)),
  hll_p_min <= p <= hll_p_max /\ 0 <= seed < 2^64 ->
  sched <> [] /\ Permutation (concat sched) (seq 0 (length outs)) ->
  exists s, hll_pa p seed outs sched = Some s /\
    (forall i, hll_registers s i = hll_reg p seed (hll_seq_hist (eff_items outs)) i) /\
    (forall i, hll_reg p seed (hll_seq_hist (ok_items outs)) i <= hll_registers s i).
Proof. exact hll_pa_ok_items. Qed.
Print Assumptions C19_hll_intact.

(* ---------------- the monitor loop ---------------- *)
Theorem C19_monitor : forall codes : list (option Z),
  monitor_decision codes = Abort <-> exists c, In c codes /\ c <> None /\ c <> Some 0.
Proof. exact monitor_decision_abort. Qed.
Print Assumptions C19_monitor.

Theorem C19_monitor_done : forall codes : list (option Z),
  monitor_decision codes = Done <-> forall c, In c codes -> c = Some 0.
Proof. exact monitor_decision_done. Qed.
Print Assumptions C19_monitor_done.

(* the loop does not end while some worker is still running *)
Theorem C19_monitor_waits : forall (n : nat) (polls : list (list (option Z) * bool)),
  Forall (fun p => existsb is_none (fst p) = true) polls -> monitor n polls pa_start = None.
Proof. exact (fun n polls H => monitor_waits n polls pa_start H Inv_start). Qed.
Print Assumptions C19_monitor_waits.

(* a pass that reads a non-zero exit code: both queues are closed (and the close events are on
   the trace) before any merge is started, and the next log_queue.put raises: parallel_add ends
   with an exception and never reaches parallel_merging *)
Theorem C19_abort_closes : forall (n : nat) (kinds : list nat) (pre : list (list (option Z) * bool))
    (codes : list (option Z)) (fill_alive : bool) (post : list (list (option Z) * bool)) (res : pa_result),
  kinds <> [] ->
  Forall (fun p => existsb is_none (fst p) = true) pre -> monitor_decision codes = Abort ->
  pa_run n kinds (pre ++ (codes, fill_alive) :: post) = Some res ->
  exists st, res = Raised st /\ queue_closed st = true /\ log_closed st = true /\
             In EvCloseQueue (trace st) /\ In EvCloseLogQueue (trace st) /\
             forall k, ~ In (EvMerge k) (trace st).
Proof. exact abort_raises_before_merge. Qed.
Print Assumptions C19_abort_closes.

(* with the log queue closed the tail raises at its first log_queue.put *)
Theorem C19_closed_raises : forall (n : nat) (kinds : list nat) (st : pa_state),
  log_closed st = true -> kinds <> [] ->
  pa_tail n kinds st = Raised (emit (EvJoinFill :: map EvJoinWorker (seq 0 n)) st).
Proof. exact pa_tail_closed. Qed.
Print Assumptions C19_closed_raises.

(* no bad exit code ever read: nothing is killed or closed, every requested kind is merged, in
   the order cms, hh, hll, and parallel_add returns *)
Theorem C19_no_fault_returns : forall (n : nat) (kinds : list nat) (polls : list (list (option Z) * bool))
    (res : pa_result),
  Forall (fun p => existsb is_bad (fst p) = false) polls ->
  pa_run n kinds polls = Some res ->
  exists st, res = Returned st /\ log_closed st = false /\ queue_closed st = false /\
             filter is_merge_ev (trace st) = map EvMerge kinds.
Proof. exact no_fault_returns. Qed.
Print Assumptions C19_no_fault_returns.

(* ---------------- non-vacuity ---------------- *)
(* a fault pattern on one worker: item 0 fine (2 records), item 1 raises before, item 2 raises after
   writing one of its adds, item 3 fine (5 records); the pill is followed by another worker's pill *)
Definition ex_outs : list (outcome cms_item) :=
  [Ok [([97], 3); ([98], 1)] 2; RaiseBefore; RaiseAfter [([98], 2)]; Ok [([99], 4)] 5].
Definition ex_bucket : nat -> key -> nat :=
  fun r k => match r with O => 0%nat | _ => if keqb k [97] then 1%nat else 0%nat end.
Example C19_worker_nonvacuous :
  option_map (fun r => (tabulate 2 2 (cms (fst r)), n_added (fst r), n_records (fst r), snd r))
    (worker sk cms_item (cms_apply 2 ex_bucket) cms_add_records
            (map Item ex_outs ++ [Pill; Pill]) empty)
  = Some ([[7; 0]; [7; 3]], 10, 7, [Pill]) /\
  worker sk cms_item (cms_apply 2 ex_bucket) cms_add_records (map Item ex_outs) empty = None /\
  map (recs cms_item) ex_outs = [2; 0; 0; 5] /\
  ok_items ex_outs = [[([97], 3); ([98], 1)]; []; []; [([99], 4)]] /\
  eff_items ex_outs = [[([97], 3); ([98], 1)]; []; [([98], 2)]; [([99], 4)]].
Proof. repeat split; vm_compute; reflexivity. Qed.

(* the same pattern on three workers (one idle): hypotheses hold, the estimates of the keys of the
   successful items are at least their counts 3, 1, 4 *)
Definition ex_sched : list (list nat) := [[2; 0]; []; [3; 1]]%nat.
Example C19_sched_nonvacuous : ex_sched <> [] /\ Permutation (concat ex_sched) (seq 0 (length ex_outs)).
Proof.
  split; [discriminate|]. cbn.
  apply (Permutation_cons_app [0; 1]%nat [3]%nat 2%nat). cbn. apply perm_skip. apply perm_swap.
Qed.
Example C19_others_intact_nonvacuous :
  (forall r k, (ex_bucket r k < 2)%nat) /\
  Forall (fun o => 0 <= recs cms_item o) ex_outs /\ zsum (map (recs cms_item) ex_outs) < 2^64 /\
  Forall item_wf (eff_items ex_outs) /\
  option_map (fun s => (n_added s, n_records s, map (query 2 ex_bucket s) [[97]; [98]; [99]]))
             (cms_pa 2 ex_bucket ex_outs ex_sched) = Some (10, 7, [3; 7; 7]) /\
  map (truth (cms_seq_hist (ok_items ex_outs))) [[97]; [98]; [99]] = [3; 1; 4] /\
  map (truth (cms_seq_hist (eff_items ex_outs))) [[97]; [98]; [99]] = [3; 3; 4].
Proof.
  split; [intros r k; unfold ex_bucket; destruct r; [|destruct (keqb k [97])]; repeat constructor|].
  split; [repeat constructor; cbn; discriminate|].
  split; [vm_compute; reflexivity|].
  split; [repeat constructor; cbn; discriminate|].
  repeat split; vm_compute; reflexivity.
Qed.

(* monitor: first pass everybody running, second pass worker 1 has exit code 3 while worker 0 still
   runs, third pass the killed workers show -9: both queues closed, an exception, no merge;
   and a clean run with cms and hll requested returns after two merges *)
Example C19_monitor_nonvacuous :
  monitor_decision [None; Some 3] = Abort /\ monitor_decision [Some 0; None] = Wait /\
  monitor_decision [Some 0; Some 0] = Done /\ monitor_decision [Some 0; Some (-9)] = Abort /\
  (match pa_run 2 [0; 2]%nat [([None; None], true); ([None; Some 3], true); ([Some (-9); Some 3], false)] with
   | Some (Raised st) => (queue_closed st, log_closed st, length (filter is_merge_ev (trace st)),
                          existsb (event_eqb EvCloseLogQueue) (trace st))
   | _ => (false, false, 99%nat, false)
   end) = (true, true, 0%nat, true) /\
  (match pa_run 2 [0; 2]%nat [([None; None], true); ([None; Some 0], false); ([Some 0; Some 0], false)] with
   | Some (Returned st) => (log_closed st, filter is_merge_ev (trace st))
   | _ => (true, [])
   end) = (false, [EvMerge 0; EvMerge 2]) /\
  pa_run 2 [0]%nat [([None; None], true); ([None; Some 0], true)] = None.
Proof. repeat split; vm_compute; reflexivity. Qed.

(* ====================================================================== *)
(* heavy hitters (theories/HH.v, MergingHH.v): from here on truth, mass, n_records are HH.v's *)
(* ====================================================================== *)
From Sketchnu Require Import HH HHProofs MergingHH MergingHHProofs.

(* any outcomes, any schedule: n_records counts the Ok items only; hh[k] never exceeds the count of
   k over what took effect (which is at least its count over the successful items), and keeps
   C04's per-row guarantee 2f - (row mass) with respect to what took effect *)
Theorem C19_hh_others_intact : forall (width depth max_key_len : nat) (bucket : nat -> key -> nat) (default_thr : Z -> Z),
  (forall r k, (bucket r k < width)%nat) -> (max_key_len <= 255)%nat ->
  forall (outs : list (outcome cms_item)) (sched : list (list nat)),
  sched <> [] /\ Permutation (concat sched) (seq 0 (length outs)) ->
  Forall (fun o => 0 <= recs cms_item o) outs -> zsum (map (recs cms_item) outs) < 2^64 ->
  Forall hh_item_wf (eff_items outs) ->
  exists s, hh_pa width depth max_key_len bucket outs sched = Some s /\
    n_records s = zsum (map (recs cms_item) (filter (is_ok cms_item) outs)) /\
    forall k, let x := ident max_key_len k in
      truth max_key_len (hh_seq_hist (ok_items outs)) x <= truth max_key_len (hh_seq_hist (eff_items outs)) x /\
      hh_get depth max_key_len bucket s k <= truth max_key_len (hh_seq_hist (eff_items outs)) x /\
      forall r, (r < depth)%nat ->
        mass max_key_len bucket (hh_seq_hist (eff_items outs)) r (bucket r x) < 2^32 ->
        0 < 2 * truth max_key_len (hh_seq_hist (eff_items outs)) x
            - mass max_key_len bucket (hh_seq_hist (eff_items outs)) r (bucket r x) ->
        hh_get depth max_key_len bucket s k >=
        2 * truth max_key_len (hh_seq_hist (eff_items outs)) x
        - mass max_key_len bucket (hh_seq_hist (eff_items outs)) r (bucket r x).
Proof. exact C19_hh_thm. Qed.
Print Assumptions C19_hh_others_intact.

(* the result is eval of the HH merge tree over the histories of what took effect *)
Theorem C19_hh_result_is_history : forall (width depth max_key_len : nat) (bucket : nat -> key -> nat) (default_thr : Z -> Z)
    (outs : list (outcome cms_item)) (sched : list (list nat)),
  sched <> [] /\ Permutation (concat sched) (seq 0 (length outs)) ->
  Forall (fun o => 0 <= recs cms_item o) outs -> zsum (map (recs cms_item) outs) < 2^64 ->
  exists T, pm hist HMerge (map (hh_worker_hist (eff_items outs)) sched) = Some T /\
            hh_pa width depth max_key_len bucket outs sched =
              Some (hh_with_records (eval width depth max_key_len bucket default_thr T) (zsum (map (recs cms_item) outs))).
Proof. exact hh_pa_spec. Qed.
Print Assumptions C19_hh_result_is_history.

(* the fault pattern of ex_outs on three workers, width 1: key a keeps 3 of the 10 that took effect *)
Example C19_hh_nonvacuous :
  let b := fun (_ : nat) (_ : key) => O in
  (forall r k, (b r k < 1)%nat) /\ Forall hh_item_wf (eff_items ex_outs) /\
  option_map (fun s => (n_added s, n_records s, map (hh_get 2 4 b s) [[97]; [98]; [99]]))
             (hh_pa 1 2 4 b ex_outs ex_sched) = Some (10, 7, [0; 0; 4]) /\
  map (truth 4 (hh_seq_hist (eff_items ex_outs))) [[97]; [98]; [99]] = [3; 3; 4] /\
  map (truth 4 (hh_seq_hist (ok_items ex_outs))) [[97]; [98]; [99]] = [3; 1; 4].
Proof.
  cbv zeta. split; [intros; constructor|]. split; [repeat constructor; cbn; try discriminate; reflexivity|].
  repeat split; vm_compute; reflexivity.
Qed.

(* ---------------- source tie ----------------
   C19_needs_pill: a worker returns only at a pill.  The number of pills _fill_queue puts on the queue after all the
   items, as regenerated from the source AST on this run (generated/KernelsHelpers.v), is one per worker *)
From Sketchnu Require KernelsHelpers KernelTieHelpers.
Theorem C19_pills_source_tie : forall n_workers : Z, KernelsHelpers.gen_fill_pills n_workers = n_workers.
Proof. exact KernelTieHelpers.tie_fill_pills. Qed.
Print Assumptions C19_pills_source_tie.

Example C19_pills_source_tie_nonvacuous : map KernelsHelpers.gen_fill_pills [1; 4] = [1; 4].
Proof. vm_compute. reflexivity. Qed.
