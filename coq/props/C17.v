(* C17 — query() is the documented HyperLogLog++ estimator of the registers.
   Only theorem statements; every proof is `exact <lemma>` from theories/HllQueryProofs.v.
   Comparisons written (a <? b)%float / (a <=? b)%float are the binary64 comparisons of the code. *)
From Coq Require Import ZArith List Bool Floats.PrimFloat.
From Sketchnu Require Import Machine Consts HllTables HllQuery HllQueryProofs.
Import ListNotations.
Open Scope Z_scope.

(* 10 thresholds, 10 rows of 200 raw estimates and of 200 biases; precisions 7..16 *)
Theorem C17_tables_shape :
  hll_p_min = 7 /\ hll_p_max = 16 /\
  length sub_algorithm_threshold = 10%nat /\ length raw_estimate = 10%nat /\ length bias_data = 10%nat /\
  Forall (fun r => length r = 200%nat) raw_estimate /\ Forall (fun r => length r = 200%nat) bias_data.
Proof. exact tables_shape. Qed.
Print Assumptions C17_tables_shape.

(* every shipped raw-estimate row is strictly increasing (finite domain: p in 7..16, the 199
   adjacent pairs of each row of the regenerated HllTables.v; proved by computation) *)
Theorem C17_raw_increasing : forall p, 7 <= p <= 16 -> strictly_increasing (hll_raw p).
Proof. exact raw_increasing. Qed.
Print Assumptions C17_raw_increasing.

(* the tables begin where linear counting stops and reach the 5m switch (finite domain p in 7..16;
   inequalities read off the shipped numbers and frozen):
   threshold < m;  threshold <= raw[0] - bias[0] <= threshold + 2^-36;  threshold < raw[0];
   5m <= raw[199] <= 5m + m/256 + 1 *)
Theorem C17_begin_at_threshold : forall p, 7 <= p <= 16 ->
  let m := hllq_m p in
  let thr := f_of_Z (hll_threshold p) in
  let first := (nth 0 (hll_raw p) nan - nth 0 (hll_bias p) nan)%float in
  let last_raw := nth 199 (hll_raw p) nan in
  0 < hll_threshold p < m /\
  (thr <=? first)%float = true /\ (first - thr <=? 0x1p-36)%float = true /\
  (thr <? nth 0 (hll_raw p) nan)%float = true /\
  (f_of_Z (5 * m) <=? last_raw)%float = true /\
  (last_raw <=? f_of_Z (5 * m + m / 256 + 1))%float = true.
Proof. exact begin_at_threshold. Qed.
Print Assumptions C17_begin_at_threshold.

(* branch structure of _query l.146-161: which estimator is returned.  nzero = number of zero
   registers, lc = linear-counting value, raw = alpha m^2 / sum 2^-r.  The strictness of each
   comparison and the literals 0 and 5 (read from the source into Consts.v) are pinned. *)
Theorem C17_regime_spec :
  hll_raw_mult = 5 /\ hll_zero_cmp = 0 /\
  forall (m thr nzero : Z) (lc raw : float), 0 <= nzero ->
    (regime m thr nzero lc raw = LC <->
       nzero > 0 /\ (f_of_Z thr <? lc)%float = false) /\
    (regime m thr nzero lc raw = Corrected <->
       (nzero > 0 /\ (f_of_Z thr <? lc)%float = true) \/
       (nzero = 0 /\ (raw <=? f_of_Z (5 * m))%float = true)) /\
    (regime m thr nzero lc raw = Raw <->
       nzero = 0 /\ (raw <=? f_of_Z (5 * m))%float = false).
Proof. exact regime_spec. Qed.
Print Assumptions C17_regime_spec.

(* query_model returns, for the branch chosen by regime, linear counting / raw minus the
   interpolated bias of the row of this precision / raw *)
Theorem C17_query_by_regime : forall p regs,
  let m := hllq_m p in
  let nz := m - count_nz regs in
  let lc := linear_counting m nz in
  let raw := estimation_function regs m (alpha_model m) in
  query_regime p regs = regime m (hll_threshold p) nz lc raw /\
  query_model p regs =
    match query_regime p regs with
    | LC => lc
    | Corrected => (raw - interp raw (hll_raw p) (hll_bias p))%float
    | Raw => raw
    end.
Proof. exact query_model_by_regime. Qed.
Print Assumptions C17_query_by_regime.

Theorem C17_n_zero_range : forall p regs,
  Z.of_nat (length regs) = hllq_m p -> 0 <= hllq_m p - count_nz regs <= hllq_m p.
Proof. exact n_zero_nonneg. Qed.
Print Assumptions C17_n_zero_range.

(* alpha = 0.7213 / (1 + 1.079 / m) evaluated in binary64; the two literals re-read from the
   source are the binary64 numbers nearest to 7213/10000 and 1079/1000 (exact integer check) *)
Theorem C17_alpha :
  is_binary64_of_ratio hll_alpha_num 7213 10000 = true /\
  is_binary64_of_ratio hll_alpha_den 1079 1000 = true /\
  hll_alpha_one = 1%float /\
  forall m, alpha_model m =
            (0x1.714e3bcd35a86p-1 / (1 + 0x1.14395810624ddp+0 / f_of_Z m))%float.
Proof. exact alpha_spec. Qed.
Print Assumptions C17_alpha.

(* np.interp as modelled: for strictly increasing knots, fp[0] below the first knot, fp[last]
   above the last one and at it, and on [xp[j], xp[j+1]) the segment value, which is fp[j] at the
   knot and NumPy's two-point form slope*(x - xp[j]) + fp[j] otherwise.
   Uses the stdlib specification of the binary64 comparisons (FloatAxioms.ltb_spec, leb_spec). *)
Theorem C17_interp_spec : forall xp fp x,
  strictly_increasing xp -> length xp = length fp -> (2 <= length xp)%nat -> is_nan x = false ->
  let n := length xp in
  ((x <? nth 0 xp nan)%float = true -> interp x xp fp = nth 0 fp nan) /\
  ((nth (n - 1) xp nan <? x)%float = true -> interp x xp fp = nth (n - 1) fp nan) /\
  (forall j, (S j < n)%nat ->
     (nth j xp nan <=? x)%float = true -> (x <? nth (S j) xp nan)%float = true ->
     interp x xp fp =
     interp_segment x (nth j xp nan) (nth (S j) xp nan) (nth j fp nan) (nth (S j) fp nan)) /\
  ((nth (n - 1) xp nan <=? x)%float = true -> (nth (n - 1) xp nan <? x)%float = false ->
   interp x xp fp = nth (n - 1) fp nan).
Proof. exact interp_spec. Qed.
Print Assumptions C17_interp_spec.

(* instantiated on the shipped rows: for every p in 7..16 and every non-NaN x *)
Theorem C17_interp_tables : forall p x, 7 <= p <= 16 -> is_nan x = false ->
  let xp := hll_raw p in
  let fp := hll_bias p in
  ((x <? nth 0 xp nan)%float = true -> interp x xp fp = nth 0 fp nan) /\
  ((nth 199 xp nan <? x)%float = true -> interp x xp fp = nth 199 fp nan) /\
  (forall j, (S j < 200)%nat ->
     (nth j xp nan <=? x)%float = true -> (x <? nth (S j) xp nan)%float = true ->
     interp x xp fp =
     interp_segment x (nth j xp nan) (nth (S j) xp nan) (nth j fp nan) (nth (S j) fp nan)) /\
  ((nth 199 xp nan <=? x)%float = true -> (nth 199 xp nan <? x)%float = false ->
   interp x xp fp = nth 199 fp nan).
Proof. exact interp_tables. Qed.
Print Assumptions C17_interp_tables.

Theorem C17_interp_segment : forall x x0 x1 y0 y1,
  ((x0 =? x)%float = true -> interp_segment x x0 x1 y0 y1 = y0) /\
  ((x0 =? x)%float = false ->
   is_nan ((y1 - y0) / (x1 - x0) * (x - x0) + y0)%float = false ->
   interp_segment x x0 x1 y0 y1 = ((y1 - y0) / (x1 - x0) * (x - x0) + y0)%float).
Proof. exact interp_segment_spec. Qed.
Print Assumptions C17_interp_segment.

(* non-vacuity: each regime is reached by a concrete register file (p = 7, 128 registers), the
   interpolation hypotheses hold of a shipped row, and an interior point uses the two-point form *)
(* the model indexes the tables by p - 7; the offset in HyperLogLog.__init__ is re-read from the source *)
Theorem C17_table_offset : Consts.hll_table_offset = 7%Z.
Proof. exact table_offset_ok. Qed.
Print Assumptions C17_table_offset.

Example C17_regimes_nonvacuous :
  map (fun rle => query_regime 7 (expand_rle rle))
      [[(0, 100); (1, 28)]; [(0, 20); (1, 60); (2, 48)]; [(1, 60); (2, 68)]; [(9, 128)]]
  = [LC; Corrected; Corrected; Raw] /\
  forallb (fun rle => regs_okb 7 (expand_rle rle))
      [[(0, 100); (1, 28)]; [(0, 20); (1, 60); (2, 48)]; [(1, 60); (2, 68)]; [(9, 128)]] = true.
Proof. vm_compute. split; reflexivity. Qed.

Example C17_interp_nonvacuous :
  incrb (hll_raw 10) = true /\ length (hll_raw 10) = length (hll_bias 10) /\
  (nth 3 (hll_raw 10) nan <=? 1310)%float = true /\ (1310 <? nth 4 (hll_raw 10) nan)%float = true /\
  is_nan 1310 = false /\
  interp 1310 (hll_raw 10) (hll_bias 10) =
  ((nth 4 (hll_bias 10) nan - nth 3 (hll_bias 10) nan) / (nth 4 (hll_raw 10) nan - nth 3 (hll_raw 10) nan)
   * (1310 - nth 3 (hll_raw 10) nan) + nth 3 (hll_bias 10) nan)%float.
Proof. vm_compute. repeat split; reflexivity. Qed.

(* ---------------- source ties ----------------
   The float kernels of query() as regenerated from hyperloglog.py's AST on this run (generated/KernelsHllQuery.v,
   harness/pytrans_hllq.py) are the pieces of the model the theorems above are about.  float64 is PrimFloat; an integer
   converted to float64 (explicitly, or as the uint64 `threshold` compared with a float64) is f_of_Z; everything the
   code calls is an argument of the generated definition.

   _linear_counting (l.68) with np.log as the argument np_log: the formula, for every np_log; with the model's
   logarithm plugged in it is linear_counting *)
From Sketchnu Require KernelsHllQuery KernelTieHllQuery.
Theorem C17_linear_counting_source_tie :
  (forall (np_log : float -> float) (m n_zero : Z),
     KernelsHllQuery.gen_linear_counting np_log m n_zero = (f_of_Z m * np_log (f_of_Z m / f_of_Z n_zero))%float) /\
  (forall m n_zero : Z, KernelsHllQuery.gen_linear_counting ln_model m n_zero = linear_counting m n_zero).
Proof. exact KernelTieHllQuery.tie_hllq_linear_counting_all. Qed.
Print Assumptions C17_linear_counting_source_tie.

(* _estimation_function (l.81-84): the accumulator's initial value, the loop body `total += 2.0 ** (-float64(r))` and
   the result expression, with `a ** b` as the argument pow.  Reading, stated as the hypothesis: pow 2.0 (-float64(r))
   is the exact power of two 2^-r (pow2neg r) for the 256 values a uint8 register can hold.  Then the fold of the
   generated body over the registers is sum_pow2neg and the generated result is estimation_function *)
Theorem C17_estimation_source_tie : forall pow : float -> float -> float,
  (forall r, 0 <= r < 256 -> pow 2%float (- f_of_Z r)%float = pow2neg r) ->
  KernelsHllQuery.gen_estimation_init = 0%float /\
  (forall (total : float) (r : Z), 0 <= r < 256 ->
     KernelsHllQuery.gen_estimation_step pow total r = (total + pow2neg r)%float) /\
  (forall regs : list Z, Forall (fun r => 0 <= r < 256) regs ->
     fold_left (KernelsHllQuery.gen_estimation_step pow) regs KernelsHllQuery.gen_estimation_init = sum_pow2neg regs) /\
  (forall (alpha : float) (m : Z) (total : float), 0 <= m < 2^31 ->
     KernelsHllQuery.gen_estimation_final alpha m total = (alpha * f_of_Z (m * m) / total)%float) /\
  (forall (regs : list Z) (m : Z) (alpha : float), Forall (fun r => 0 <= r < 256) regs -> 0 <= m < 2^31 ->
     KernelsHllQuery.gen_estimation_final alpha m
       (fold_left (KernelsHllQuery.gen_estimation_step pow) regs KernelsHllQuery.gen_estimation_init)
     = estimation_function regs m alpha).
Proof. exact KernelTieHllQuery.tie_hllq_estimation_all. Qed.
Print Assumptions C17_estimation_source_tie.

(* the hypothesis on pow is satisfiable: pow_model b e = 2^-r when b = 2.0 and e = -float64(r), r = 0..255 (table
   search), NaN elsewhere *)
Theorem C17_estimation_source_tie_pow_satisfiable :
  forall r, 0 <= r < 256 -> KernelTieHllQuery.pow_model 2%float (- f_of_Z r)%float = pow2neg r.
Proof. exact KernelTieHllQuery.tie_hllq_pow_satisfiable. Qed.
Print Assumptions C17_estimation_source_tie_pow_satisfiable.

(* _query (l.144-163), the whole body: for every array type and every choice of the four functions it calls
   (np.count_nonzero, np.interp, _linear_counting, _estimation_function) the value returned is the one selected by
   `regime` (C17_regime_spec) from the results of those calls; the 64-bit wraps of `m - uint64(count)` and `5 * m` are
   vacuous for 0 <= count <= m <= 2^60.  With the model's functions plugged in it is query_model *)
Theorem C17_query_source_tie :
  (forall (A8 AF : Type) (np_count_nonzero : A8 -> Z) (np_interp : float -> AF -> AF -> float)
          (f_linear_counting : Z -> Z -> float) (f_estimation_function : A8 -> Z -> float -> float)
          (registers : A8) (m threshold : Z) (alpha : float) (raw_estimate bias_data : AF),
     0 <= np_count_nonzero registers <= m -> m <= 2^60 ->
     KernelsHllQuery.gen_query A8 AF np_count_nonzero np_interp f_linear_counting f_estimation_function
               registers m threshold alpha raw_estimate bias_data =
     let n_zero := m - np_count_nonzero registers in
     let lc := f_linear_counting m n_zero in
     let est := f_estimation_function registers m alpha in
     match regime m threshold n_zero lc est with
     | LC => lc
     | Corrected => (est - np_interp est raw_estimate bias_data)%float
     | Raw => est
     end) /\
  (forall p regs, 7 <= p <= 16 -> Z.of_nat (length regs) = hllq_m p ->
     KernelsHllQuery.gen_query (list Z) (list float) count_nz interp linear_counting estimation_function
               regs (hllq_m p) (hll_threshold p) (alpha_model (hllq_m p)) (hll_raw p) (hll_bias p) = query_model p regs).
Proof. exact KernelTieHllQuery.tie_hllq_query_all. Qed.
Print Assumptions C17_query_source_tie.

(* HyperLogLog.__init__ l.336: the expression assigned to self.alpha, as a function of self.m *)
Theorem C17_alpha_source_tie : forall m, KernelsHllQuery.gen_alpha m = alpha_model m.
Proof. exact KernelTieHllQuery.tie_hllq_alpha. Qed.
Print Assumptions C17_alpha_source_tie.

(* everything plugged together: the generated _query body calling the generated _linear_counting (np.log := ln_model)
   and the generated _estimation_function (loop := fold_left over the register list), on the constants the
   constructor stores for precision p (m = 2^p, threshold, the generated alpha, the two table rows), is query_model *)
Theorem C17_query_model_source_tie : forall pow : float -> float -> float,
  (forall r, 0 <= r < 256 -> pow 2%float (- f_of_Z r)%float = pow2neg r) ->
  forall p regs, 7 <= p <= 16 -> regs_okb p regs = true ->
  KernelsHllQuery.gen_query (list Z) (list float) count_nz interp (KernelsHllQuery.gen_linear_counting ln_model)
            (fun registers m alpha =>
               KernelsHllQuery.gen_estimation_final alpha m
                 (fold_left (KernelsHllQuery.gen_estimation_step pow) registers KernelsHllQuery.gen_estimation_init))
            regs (hllq_m p) (hll_threshold p) (KernelsHllQuery.gen_alpha (hllq_m p)) (hll_raw p) (hll_bias p)
  = query_model p regs.
Proof. exact KernelTieHllQuery.tie_hllq_query_model. Qed.
Print Assumptions C17_query_model_source_tie.

(* non-vacuity, by evaluating the generated definitions: the three regimes (the register files of
   C17_regimes_nonvacuous, p = 7, threshold 80) through the generated pieces only, and each piece on a small input *)
Example C17_source_tie_nonvacuous :
  let q := fun regs =>
    KernelsHllQuery.gen_query (list Z) (list float) count_nz interp (KernelsHllQuery.gen_linear_counting ln_model)
      (fun registers m alpha =>
         KernelsHllQuery.gen_estimation_final alpha m
           (fold_left (KernelsHllQuery.gen_estimation_step KernelTieHllQuery.pow_model) registers
                      KernelsHllQuery.gen_estimation_init))
      regs 128 (hll_threshold 7) (KernelsHllQuery.gen_alpha 128) (hll_raw 7) (hll_bias 7) in
  map (fun rle => q (expand_rle rle))
      [[(0, 100); (1, 28)]; [(0, 20); (1, 60); (2, 48)]; [(1, 60); (2, 68)]; [(9, 128)]]
  = [0x1.f991c6cb3b379p+4%float; 0x1.3ac67801465adp+7%float; 0x1.d0d8e63dad78cp+7%float; 0x1.6e37ef20b947ap+15%float] /\
  KernelsHllQuery.gen_linear_counting (fun x => x) 128 32 = 512%float /\
  KernelsHllQuery.gen_linear_counting ln_model 128 128 = 0%float /\
  KernelsHllQuery.gen_estimation_step KernelTieHllQuery.pow_model 1 2 = 1.25%float /\
  KernelsHllQuery.gen_estimation_final 0.5 128 64 = 128%float /\
  KernelsHllQuery.gen_alpha 128 = 0x1.6e37ef20b947ap-1%float /\
  hll_threshold 7 = 80.
Proof. vm_compute. repeat split; reflexivity. Qed.
