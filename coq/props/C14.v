(* C14 — rows use different hash functions: the provable core of "depth buys exp(-depth)".
   (The statistical clauses of the property are tested, not proved; see harness/checks/C14.py.) *)
From Coq Require Import ZArith List String.
From Sketchnu Require Import Machine Consts Hashes HashSpec HashProofs HashInj.
Import ListNotations.
Open Scope Z_scope.

(* the column every kernel uses for row r is fasthash64(key, seed = r) mod width, and it is in range *)
Theorem C14_row_seed : forall (width r : nat) (k : key),
  hash_bucket width r k = Z.to_nat (fasthash64 k (Z.of_nat r) mod Z.of_nat width).
Proof. intros. reflexivity. Qed.
Print Assumptions C14_row_seed.

Theorem C14_column_in_range : forall width r k,
  (0 < width)%nat -> Z.of_nat r < 2^64 -> (hash_bucket width r k < width)%nat.
Proof. exact hash_bucket_lt. Qed.
Print Assumptions C14_column_in_range.

(* the five kernels that map a key to its counters (three count-min query kernels, heavy-hitter _add and
   _max_count) compute the column with exactly this expression inside their loop over the rows: re-read from the
   source on every run *)
From Sketchnu Require RowHashSites.
Theorem C14_row_seed_in_source :
  let e := "for row in range(depth): fasthash64(key, row) % width"%string in
  Consts.rowhash_query_linear = e /\ Consts.rowhash_query_log16 = e /\ Consts.rowhash_query_log8 = e /\
  Consts.rowhash_hh_add = e /\ Consts.rowhash_hh_max_count = e.
Proof. exact RowHashSites.rowhash_sites_ok. Qed.
Print Assumptions C14_row_seed_in_source.

(* for a fixed key, seed -> fasthash64 key seed is injective on [0, 2^64) *)
Theorem C14_seed_bijective : forall (k : key) (s1 s2 : Z),
  bytes k -> zlen k < 2^64 -> 0 <= s1 < 2^64 -> 0 <= s2 < 2^64 ->
  fasthash64 k s1 = fasthash64 k s2 -> s1 = s2.
Proof. exact fasthash64_seed_inj. Qed.
Print Assumptions C14_seed_bijective.

(* two different rows never apply the same hash function, for any key *)
Theorem C14_rows_differ : forall (k : key) (r1 r2 : nat),
  bytes k -> zlen k < 2^64 -> Z.of_nat r1 < 2^64 -> Z.of_nat r2 < 2^64 -> r1 <> r2 ->
  fasthash64 k (Z.of_nat r1) <> fasthash64 k (Z.of_nat r2).
Proof. exact rows_differ. Qed.
Print Assumptions C14_rows_differ.

(* each mixing step is a bijection of the 64-bit state (the mechanism behind the above) *)
Theorem C14_mix_bijective : forall x y, 0 <= x < 2^64 -> 0 <= y < 2^64 -> fh_mix x = fh_mix y -> x = y.
Proof. exact fh_mix_inj. Qed.
Print Assumptions C14_mix_bijective.

Example C14_nonvacuous :
  bytes [97; 98; 99] /\ fasthash64 [97; 98; 99] 0 <> fasthash64 [97; 98; 99] 1 /\
  hash_bucket 16 0 [97; 98; 99] <> hash_bucket 16 3 [97; 98; 99].
Proof. split; [apply BitLemmas.bytesb_spec; reflexivity|]. split; vm_compute; discriminate. Qed.
