(* C01 — linear count-min: true <= estimate <= collision bound on every history.
   Statements only; proofs are `exact` of lemmas in theories/CmsLinearProofs.v. *)
From Coq Require Import ZArith List Lia.
From Sketchnu Require Import Machine Ngram CmsLinear CmsLinearProofs CmsLinearHarness.
From Sketchnu Require HashBucket.
Import ListNotations.
Open Scope Z_scope.

(* the ceiling read from the source on this run is 2^32 - 1 *)
Theorem C01_cap : cap = 2^32 - 1.
Proof. exact cap_val. Qed.
Print Assumptions C01_cap.

(* every public entry point is a sequence of single adds (so the histories below cover
   add / update(list) / update(dict) / add_ngram / update_ngram / merge / save+load) *)
Theorem C01_api_is_core : forall width depth bucket (h : ahist),
  aeval width depth bucket h = eval width depth bucket (desugar h).
Proof. exact aeval_desugar. Qed.
Print Assumptions C01_api_is_core.

Theorem C01_lower : forall (width depth : nat) (bucket : nat -> key -> nat),
  (forall r k, (bucket r k < width)%nat) ->
  forall (h : ahist) (k : key), awf h ->
  Z.min (truth (desugar h) k) cap <= query depth bucket (aeval width depth bucket h) k.
Proof. exact C01_api_lower. Qed.
Print Assumptions C01_lower.

Theorem C01_upper : forall (width depth : nat) (bucket : nat -> key -> nat) (h : ahist) (k : key) (r : nat),
  awf h -> (r < depth)%nat ->
  query depth bucket (aeval width depth bucket h) k <= Z.min cap (mass bucket (desugar h) r (bucket r k)).
Proof. exact C01_api_upper. Qed.
Print Assumptions C01_upper.

Theorem C01_exact : forall (width depth : nat) (bucket : nat -> key -> nat),
  (forall r k, (bucket r k < width)%nat) ->
  forall (h : ahist) (k : key) (r : nat), awf h -> (r < depth)%nat ->
  (forall j, bucket r j = bucket r k -> j <> k -> truth (desugar h) j = 0) ->
  query depth bucket (aeval width depth bucket h) k = Z.min (truth (desugar h) k) cap.
Proof. exact C01_api_exact. Qed.
Print Assumptions C01_exact.

(* the same three on core histories (adds / merges / save-load trees) *)
Theorem C01_core : forall (width depth : nat) (bucket : nat -> key -> nat),
  (forall r k, (bucket r k < width)%nat) ->
  forall (h : hist) (k : key), wf h ->
  Z.min (truth h k) cap <= query depth bucket (eval width depth bucket h) k /\
  (forall r, (r < depth)%nat ->
     query depth bucket (eval width depth bucket h) k <= Z.min cap (mass bucket h r (bucket r k))).
Proof.
  intros width depth bucket Hb h k Hw. split.
  - exact (CmsLinearProofs.C01_lower width depth bucket Hb h k Hw).
  - intros r Hr. exact (CmsLinearProofs.C01_upper width depth bucket h k r Hw Hr).
Qed.
Print Assumptions C01_core.

(* instantiated with the hash the kernels really use (column = fasthash64(key, row) mod width, C14) *)
Theorem C01_with_fasthash : forall (width depth : nat), (0 < width)%nat ->
  forall (h : ahist) (k : key), awf h ->
  let b := HashBucket.hash_bucket width in
  Z.min (truth (desugar h) k) cap <= query depth b (aeval width depth b h) k /\
  (forall r, (r < depth)%nat -> query depth b (aeval width depth b h) k <= Z.min cap (mass b (desugar h) r (b r k))).
Proof.
  intros width depth Hw h k Hh b. split.
  - exact (C01_api_lower width depth b (fun r k => HashBucket.hash_bucket_lt_all width r k Hw) h k Hh).
  - intros r Hr. exact (C01_api_upper width depth b h k r Hh Hr).
Qed.
Print Assumptions C01_with_fasthash.

(* non-vacuity: a width-1 sketch where three keys share every counter, a merge, a save/load,
   multiplicity 2^40: hypotheses hold and the bounds are the expected numbers *)
Definition ex_b : nat -> key -> nat := fun _ _ => 0%nat.
Definition ex_h : ahist :=
  ASaveLoad (AMerge (AAdd (AAdd AEmpty [97] 3) [98] 2) (AUpdateList (ANgram AEmpty [97;98;99] 1) [[97]; []])).
Example C01_nonvacuous :
  awf ex_h /\ (forall r k, (ex_b r k < 1)%nat) /\
  truth (desugar ex_h) [97] = 5 /\ mass ex_b (desugar ex_h) 0 0 = 10 /\
  query 2 ex_b (aeval 1 2 ex_b ex_h) [97] = 10 /\
  query 1 ex_b (aeval 1 1 ex_b (AAdd AEmpty [1] (2^40))) [1] = cap.
Proof.
  split; [cbn; intuition (try lia)|]. split; [intros; unfold ex_b; constructor|].
  repeat split; vm_compute; reflexivity.
Qed.

(* ---------------- source tie ----------------
   _query_linear (countmin.py l.275-281) as regenerated from the source AST on this run (generated/KernelsCms.v):
   the initial value of the running minimum and the body of the row loop (parameters: the running minimum and the
   cell cms[row, buckets[row]]) are what the modelled query iterates over the rows 0..depth-1 *)
From Sketchnu Require KernelsCms KernelTieCmsQuery.
Theorem C01_query_source_tie :
  KernelsCms.gen_query_linear_init CmsLinear.cap = CmsLinear.cap /\
  (forall acc c : Z, KernelsCms.gen_query_linear_step acc c = if c <? acc then c else acc) /\
  (forall depth bucket (s : CmsLinear.sk) (k : key), CmsLinear.query depth bucket s k =
     fold_left (fun acc r => KernelsCms.gen_query_linear_step acc (CmsLinear.cms s r (bucket r k)))
               (seq 0 depth) (KernelsCms.gen_query_linear_init CmsLinear.cap)).
Proof. exact KernelTieCmsQuery.tie_query. Qed.
Print Assumptions C01_query_source_tie.

Example C01_query_source_tie_nonvacuous :
  KernelsCms.gen_query_linear_init (2^32 - 1) = 2^32 - 1 /\
  map (fun ac => KernelsCms.gen_query_linear_step (fst ac) (snd ac)) [(7, 3); (3, 7); (5, 5); (CmsLinear.cap, 0)] = [3; 3; 5; 0].
Proof. vm_compute. split; reflexivity. Qed.
