(* C08 — parallel_add gives the sequential result for every worker count and schedule.
   Only theorem statements; every proof is `exact <lemma>` from theories/MergingProofs.v.
   Vocabulary (theories/Merging.v):
     pm_round / pm   transcription of the rounds of helpers.parallel_merging (l.506-539): pairs
                     (2i, 2i+1) merged into block 2i, the new array takes indices 0,2,4,..;
     worker / worker_queue / worker_final   the loop of helpers._worker (l.173-231) on a queue that
                     holds the worker's items followed by its pill;
     a schedule      for every worker the list of item indices it receives, in the order it receives
                     them; valid = at least one worker and every index 0..n-1 occurs exactly once;
     hll_pa / cms_pa every worker starts from a fresh sketch, runs its queue, the worker sketches
                     are merged by pm (HyperLogLog / linear count-min instances);
     ok_outs items   the fault-free run: item i = (what the callback does, what it returns).
   The heavy-hitter instance (HH.v's history type) is at the end of the file. *)
From Coq Require Import ZArith List Bool Permutation.
From Sketchnu Require Import Machine Consts Hashes Ngram Hll HllProofs CmsLinear CmsLinearProofs CmsLinearHarness Merging MergingProofs.
Import ListNotations.
Open Scope Z_scope.

(* ---------------- the rounds of parallel_merging, for any sketch type and any merge ---------------- *)
(* one trip through the while body pairs the array up from the left; an odd last sketch is carried over *)
Theorem C08_round_pairs : forall (Sk : Type) (merge : Sk -> Sk -> Sk) (a b : Sk) (rest : list Sk),
  pm_round Sk merge (a :: b :: rest) = merge a b :: pm_round Sk merge rest.
Proof. exact pm_round_cons2. Qed.
Print Assumptions C08_round_pairs.

Theorem C08_round_structural : forall (Sk : Type) (merge : Sk -> Sk -> Sk) (l : list Sk),
  pm_round Sk merge l = pm_round_s Sk merge l.
Proof. exact pm_round_eq. Qed.
Print Assumptions C08_round_structural.

Theorem C08_pm_length : forall (Sk : Type) (merge : Sk -> Sk -> Sk) (l : list Sk),
  length (pm_round Sk merge l) = ((length l + 1) / 2)%nat.
Proof. exact pm_round_length. Qed.
Print Assumptions C08_pm_length.

Theorem C08_pm_rounds_enough : forall n, (1 <= n)%nat -> (n <= 2 ^ pm_rounds n)%nat.
Proof. exact pm_rounds_ge. Qed.
Print Assumptions C08_pm_rounds_enough.

(* the structural fuel is never exhausted *)
Theorem C08_pm_total : forall (Sk : Type) (merge : Sk -> Sk -> Sk) (l : list Sk),
  l <> [] -> pm Sk merge l <> None.
Proof. exact pm_total. Qed.
Print Assumptions C08_pm_total.

(* the result is a binary merge tree whose leaves are the inputs, each exactly once, in order:
   nothing dropped, nothing merged twice (no property of merge is used) *)
Theorem C08_pm_tree : forall (Sk : Type) (merge : Sk -> Sk -> Sk) (l : list Sk) (s : Sk),
  pm Sk merge l = Some s -> exists t : tree Sk, leaves t = l /\ s = eval_tree Sk merge t.
Proof. exact pm_tree. Qed.
Print Assumptions C08_pm_tree.

(* with an associative merge the rounds compute the left fold *)
Theorem C08_pm_fold : forall (Sk : Type) (merge : Sk -> Sk -> Sk),
  (forall a b c, merge (merge a b) c = merge a (merge b c)) ->
  forall a l, pm Sk merge (a :: l) = Some (fold_left merge l a).
Proof. exact pm_fold. Qed.
Print Assumptions C08_pm_fold.

(* whatever adds up over one merge (n_added, n_records, key lists, ...) adds up over the array *)
Theorem C08_pm_measure : forall (Sk : Type) (merge : Sk -> Sk -> Sk) (M : Type) (op : M -> M -> M),
  (forall a b c, op (op a b) c = op a (op b c)) ->
  forall mu : Sk -> M, (forall a b, mu (merge a b) = op (mu a) (mu b)) ->
  forall a l s, pm Sk merge (a :: l) = Some s -> mu s = fold_left op (map mu l) (mu a).
Proof. exact pm_measure. Qed.
Print Assumptions C08_pm_measure.

(* ---------------- the worker loop without faults ---------------- *)
(* a worker whose queue holds its items and then its pill returns, has applied every item's ops
   in order and has added the sum of the callback's return values exactly once *)
Theorem C08_worker : forall (St Ops : Type) (apply : St -> Ops -> St) (add_records : St -> Z -> St)
    (outs : list (outcome Ops)) (order : list nat) (st0 : St),
  worker St Ops apply add_records (worker_queue Ops outs order) st0 =
  Some (add_records (fold_left apply (flat_map (effect Ops) (sched_items Ops outs order)) st0)
                    (zsum (map (recs Ops) (sched_items Ops outs order))), []).
Proof. exact worker_queue_final. Qed.
Print Assumptions C08_worker.

(* ---------------- HyperLogLog: register for register the sequential sketch ---------------- *)
Theorem C08_hll : forall (p seed : Z) (items : list (list key * Z)) (sched : list (list nat)),
  hll_p_min <= p <= hll_p_max /\ 0 <= seed < 2^64 ->
  sched <> [] /\ Permutation (concat sched) (seq 0 (length items)) ->
  exists s, hll_pa p seed (ok_outs items) sched = Some s /\
    forall i, hll_registers s i = hll_reg p seed (hll_seq_hist (map fst items)) i.
Proof. exact C08_hll_thm. Qed.
Print Assumptions C08_hll.

(* ---------------- linear count-min ---------------- *)
(* the result is eval of a merge tree T of histories whose adds are exactly the adds of the items,
   so truth, row mass and total of T are those of the whole stream: C01 applies verbatim *)
Theorem C08_inherits : forall (width depth : nat) (bucket : nat -> key -> nat)
    (items : list (cms_item * Z)) (sched : list (list nat)),
  sched <> [] /\ Permutation (concat sched) (seq 0 (length items)) ->
  Forall (fun it => 0 <= snd it) items -> zsum (map snd items) < 2^64 ->
  exists T : hist,
    pm hist HMerge (map (cms_worker_hist (map fst items)) sched) = Some T /\
    cms_pa depth bucket (ok_outs items) sched =
      Some (with_records (eval width depth bucket T) (zsum (map snd items))) /\
    (forall k, truth T k = truth (cms_seq_hist (map fst items)) k) /\
    (forall r c, mass bucket T r c = mass bucket (cms_seq_hist (map fst items)) r c) /\
    total T = total (cms_seq_hist (map fst items)) /\
    (Forall item_wf (map fst items) -> wf T).
Proof. exact C08_inherits_thm. Qed.
Print Assumptions C08_inherits.

(* C01's sandwich with respect to the whole stream *)
Theorem C08_sandwich : forall (width depth : nat) (bucket : nat -> key -> nat)
    (items : list (cms_item * Z)) (sched : list (list nat)),
  (forall r k, (bucket r k < width)%nat) ->
  sched <> [] /\ Permutation (concat sched) (seq 0 (length items)) ->
  Forall (fun it => 0 <= snd it) items -> zsum (map snd items) < 2^64 ->
  Forall item_wf (map fst items) ->
  exists s, cms_pa depth bucket (ok_outs items) sched = Some s /\
    forall k, Z.min (truth (cms_seq_hist (map fst items)) k) cap <= query depth bucket s k /\
      forall r, (r < depth)%nat ->
        query depth bucket s k <= Z.min cap (mass bucket (cms_seq_hist (map fst items)) r (bucket r k)).
Proof. exact C08_sandwich_thm. Qed.
Print Assumptions C08_sandwich.

(* n_records() = the sum of the callback's return values *)
Theorem C08_nrecords : forall (width depth : nat) (bucket : nat -> key -> nat)
    (items : list (cms_item * Z)) (sched : list (list nat)),
  sched <> [] /\ Permutation (concat sched) (seq 0 (length items)) ->
  Forall (fun it => 0 <= snd it) items -> zsum (map snd items) < 2^64 ->
  exists s, cms_pa depth bucket (ok_outs items) sched = Some s /\ n_records s = zsum (map snd items).
Proof. exact C08_nrecords_thm. Qed.
Print Assumptions C08_nrecords.

(* n_added() = the total multiplicity, when no add of any worker was cut short by the ceiling *)
Theorem C08_nadded : forall (width depth : nat) (bucket : nat -> key -> nat)
    (items : list (cms_item * Z)) (sched : list (list nat)),
  sched <> [] /\ Permutation (concat sched) (seq 0 (length items)) ->
  Forall (fun it => 0 <= snd it) items -> zsum (map snd items) < 2^64 ->
  (forall order, In order sched -> uncut width depth bucket (cms_worker_hist (map fst items) order)) ->
  exists s, cms_pa depth bucket (ok_outs items) sched = Some s /\
            n_added s = total (cms_seq_hist (map fst items)).
Proof. exact C08_nadded_thm. Qed.
Print Assumptions C08_nadded.

(* the total of the sequential history is the sum of all multiplicities of all items *)
Theorem C08_total_is_sum : forall E : list cms_item, total (cms_seq_hist E) = zsum (map item_total E).
Proof. exact total_seq_hist. Qed.
Print Assumptions C08_total_is_sum.

(* ... which is the case whenever the stream adds no more than the ceiling in total *)
Theorem C08_nadded_small : forall (width depth : nat) (bucket : nat -> key -> nat)
    (items : list (cms_item * Z)) (sched : list (list nat)),
  sched <> [] /\ Permutation (concat sched) (seq 0 (length items)) ->
  Forall (fun it => 0 <= snd it) items -> zsum (map snd items) < 2^64 ->
  (0 < depth)%nat -> Forall item_wf (map fst items) -> total (cms_seq_hist (map fst items)) <= cap ->
  exists s, cms_pa depth bucket (ok_outs items) sched = Some s /\
            n_added s = total (cms_seq_hist (map fst items)).
Proof. exact C08_nadded_small_thm. Qed.
Print Assumptions C08_nadded_small.

(* ---------------- non-vacuity ---------------- *)
(* five sketches: two rounds of pairs, then the carried-over fifth: ((01)(23))4; 1..9 sketches take
   0,1,2,2,3,3,3,3,4 rounds; with a non-associative merge (subtraction) the tree, not the fold *)
Example C08_shape_nonvacuous :
  pm_shape 5 = Some (Node (Node (Node (Leaf 0) (Leaf 1)) (Node (Leaf 2) (Leaf 3))) (Leaf 4)) /\
  pm_shape 6 = Some (Node (Node (Node (Leaf 0) (Leaf 1)) (Node (Leaf 2) (Leaf 3))) (Node (Leaf 4) (Leaf 5))) /\
  pm_shape 3 = Some (Node (Node (Leaf 0) (Leaf 1)) (Leaf 2)) /\
  pm_shape 1 = Some (Leaf 0) /\ pm_shape 0 = None /\
  map pm_rounds [1; 2; 3; 4; 5; 6; 7; 8; 9]%nat = [0; 1; 2; 2; 3; 3; 3; 3; 4]%nat /\
  pm Z Z.sub [10; 1; 2; 3; 4] = Some 6 /\ fold_left Z.sub [1; 2; 3; 4] 10 = 0 /\
  pm_round Z Z.add [1; 2; 3; 4; 5] = [3; 7; 5].
Proof. repeat split; vm_compute; reflexivity. Qed.

(* four items on three workers, one of them idle, orders not the stream order *)
Definition ex_sched : list (list nat) := [[2; 0]; []; [3; 1]]%nat.
Example C08_sched_nonvacuous : ex_sched <> [] /\ Permutation (concat ex_sched) (seq 0 4).
Proof.
  split; [discriminate|]. cbn.
  apply (Permutation_cons_app [0; 1]%nat [3]%nat 2%nat). cbn. apply perm_skip. apply perm_swap.
Qed.

Definition ex_hll_items : list (list key * Z) :=
  [([[97]; [98]], 2); ([], 0); ([[99; 100]; [97]], 2); ([[100; 101]], 1)].
Example C08_hll_nonvacuous :
  (hll_p_min <= 7 <= hll_p_max /\ 0 <= 0 < 2^64) /\
  (ex_sched <> [] /\ Permutation (concat ex_sched) (seq 0 (length ex_hll_items))) /\
  option_map (fun s => hll_show (hll_registers s) 128) (hll_pa 7 0 (ok_outs ex_hll_items) ex_sched)
    = Some [(11, 1); (70, 2); (91, 1); (118, 4)] /\
  hll_show (hll_registers (hll_eval 7 0 (hll_seq_hist (map fst ex_hll_items)))) 128
    = [(11, 1); (70, 2); (91, 1); (118, 4)].
Proof.
  split; [vm_compute; repeat split; discriminate|]. split; [exact C08_sched_nonvacuous|].
  split; vm_compute; reflexivity.
Qed.

(* count-min, width 2, depth 2, keys colliding in row 0: 11 adds in total, 6 records *)
Definition ex_bucket : nat -> key -> nat :=
  fun r k => match r with O => 0%nat | _ => if keqb k [97] then 1%nat else 0%nat end.
Definition ex_cms_items : list (cms_item * Z) :=
  [([([97], 3); ([98], 1)], 2); ([], 0); ([([98], 2); ([97], 1)], 3); ([([99], 4)], 1)].
Example C08_cms_nonvacuous :
  (forall r k, (ex_bucket r k < 2)%nat) /\
  (ex_sched <> [] /\ Permutation (concat ex_sched) (seq 0 (length ex_cms_items))) /\
  Forall (fun it => 0 <= snd it) ex_cms_items /\ zsum (map snd ex_cms_items) < 2^64 /\
  (0 < 2)%nat /\ Forall item_wf (map fst ex_cms_items) /\
  total (cms_seq_hist (map fst ex_cms_items)) = 11 /\ 11 <= cap /\
  option_map (fun s => (tabulate 2 2 (cms s), n_added s, n_records s, query 2 ex_bucket s [97]))
             (cms_pa 2 ex_bucket (ok_outs ex_cms_items) ex_sched)
    = Some ([[8; 0]; [7; 4]], 11, 6, 4) /\
  truth (cms_seq_hist (map fst ex_cms_items)) [97] = 4.
Proof.
  split; [intros r k; unfold ex_bucket; destruct r; [|destruct (keqb k [97])]; repeat constructor|].
  split; [exact C08_sched_nonvacuous|].
  split; [repeat constructor; cbn; discriminate|].
  split; [vm_compute; reflexivity|]. split; [repeat constructor|].
  split; [repeat constructor; cbn; discriminate|].
  repeat split; vm_compute; try reflexivity; discriminate.
Qed.

(* ====================================================================== *)
(* heavy hitters (theories/HH.v, MergingHH.v).  From here on hist, eval, truth, mass, total, wf,
   n_added, n_records are those of HH.v.  hh_pa = parallel_add over heavy-hitter worker sketches
   (every worker = the adds of its items in its order, merged by the rounds with HH.hh_merge). *)
(* ====================================================================== *)
From Sketchnu Require Import HH HHProofs MergingHH MergingHHProofs.

(* the result is eval of an HH merge tree whose leaves are, as a multiset, exactly the adds of the
   items: truth, mass and total are those of the whole stream, so C03 and C04 apply verbatim *)
Theorem C08_hh_inherits : forall (width depth max_key_len : nat) (bucket : nat -> key -> nat) (default_thr : Z -> Z)
    (items : list (cms_item * Z)) (sched : list (list nat)),
  sched <> [] /\ Permutation (concat sched) (seq 0 (length items)) ->
  Forall (fun it => 0 <= snd it) items -> zsum (map snd items) < 2^64 ->
  exists T : hist,
    pm hist HMerge (map (hh_worker_hist (map fst items)) sched) = Some T /\
    hh_pa width depth max_key_len bucket (ok_outs items) sched =
      Some (hh_with_records (eval width depth max_key_len bucket default_thr T) (zsum (map snd items))) /\
    Permutation (leaves T) (leaves (hh_seq_hist (map fst items))) /\
    (forall x, truth max_key_len T x = truth max_key_len (hh_seq_hist (map fst items)) x) /\
    (forall r c, mass max_key_len bucket T r c = mass max_key_len bucket (hh_seq_hist (map fst items)) r c) /\
    total T = total (hh_seq_hist (map fst items)) /\
    (Forall hh_item_wf (map fst items) -> wf T).
Proof. exact C08_hh_inherits_thm. Qed.
Print Assumptions C08_hh_inherits.

Theorem C08_hh_stream : forall E : list cms_item, leaves (hh_seq_hist E) = concat E.
Proof. exact leaves_seq. Qed.
Print Assumptions C08_hh_stream.

(* C03 w.r.t. the whole stream: hh[k] never exceeds the stream count of k's identity, every
   reported (key, n) has 0 < n <= its stream count; n_records = sum of the callback's returns *)
Theorem C08_hh_no_overcount : forall (width depth max_key_len : nat) (bucket : nat -> key -> nat) (default_thr : Z -> Z),
  (forall r k, (bucket r k < width)%nat) -> (max_key_len <= 255)%nat ->
  forall (items : list (cms_item * Z)) (sched : list (list nat)),
  sched <> [] /\ Permutation (concat sched) (seq 0 (length items)) ->
  Forall (fun it => 0 <= snd it) items -> zsum (map snd items) < 2^64 ->
  Forall hh_item_wf (map fst items) ->
  exists s, hh_pa width depth max_key_len bucket (ok_outs items) sched = Some s /\
    n_records s = zsum (map snd items) /\
    (forall k, hh_get depth max_key_len bucket s k
               <= truth max_key_len (hh_seq_hist (map fst items)) (ident max_key_len k)) /\
    (forall kk thr x n, In (x, n) (snd (hh_query width depth max_key_len bucket default_thr s kk thr)) ->
                        0 < n <= truth max_key_len (hh_seq_hist (map fst items)) x).
Proof. exact C08_hh_no_overcount_thm. Qed.
Print Assumptions C08_hh_no_overcount.

(* C04 w.r.t. the whole stream: a key holding more than half of the stream is reported first with
   a count >= 2f - N; per row, hh[k] >= 2f - (row mass) whenever that is positive *)
Theorem C08_hh_majority : forall (width depth max_key_len : nat) (bucket : nat -> key -> nat) (default_thr : Z -> Z),
  (forall r k, (bucket r k < width)%nat) -> (max_key_len <= 255)%nat ->
  forall (items : list (cms_item * Z)) (sched : list (list nat)),
  sched <> [] /\ Permutation (concat sched) (seq 0 (length items)) ->
  Forall (fun it => 0 <= snd it) items -> zsum (map snd items) < 2^64 ->
  Forall hh_item_wf (map fst items) -> (0 < depth)%nat ->
  exists s, hh_pa width depth max_key_len bucket (ok_outs items) sched = Some s /\
    (forall x thr, total (hh_seq_hist (map fst items)) < 2^32 ->
       2 * truth max_key_len (hh_seq_hist (map fst items)) x > total (hh_seq_hist (map fst items)) ->
       thr_of default_thr s thr
         <= 2 * truth max_key_len (hh_seq_hist (map fst items)) x - total (hh_seq_hist (map fst items)) ->
       exists n, hd_error (snd (hh_query width depth max_key_len bucket default_thr s (Some 1) thr)) = Some (x, n) /\
                 n >= 2 * truth max_key_len (hh_seq_hist (map fst items)) x - total (hh_seq_hist (map fst items)) /\
                 n = hh_get depth max_key_len bucket s x) /\
    (forall k r, (r < depth)%nat ->
       let x := ident max_key_len k in
       mass max_key_len bucket (hh_seq_hist (map fst items)) r (bucket r x) < 2^32 ->
       0 < 2 * truth max_key_len (hh_seq_hist (map fst items)) x
           - mass max_key_len bucket (hh_seq_hist (map fst items)) r (bucket r x) ->
       hh_get depth max_key_len bucket s k >=
       2 * truth max_key_len (hh_seq_hist (map fst items)) x
       - mass max_key_len bucket (hh_seq_hist (map fst items)) r (bucket r x)).
Proof. exact C08_hh_majority_thm. Qed.
Print Assumptions C08_hh_majority.

(* n_added() = total multiplicity when no multiplicity exceeds 2^32 - 1 *)
Theorem C08_hh_nadded : forall (width depth max_key_len : nat) (bucket : nat -> key -> nat) (default_thr : Z -> Z)
    (items : list (cms_item * Z)) (sched : list (list nat)),
  sched <> [] /\ Permutation (concat sched) (seq 0 (length items)) ->
  Forall (fun it => 0 <= snd it) items -> zsum (map snd items) < 2^64 ->
  Forall hh_item_small (map fst items) ->
  exists s, hh_pa width depth max_key_len bucket (ok_outs items) sched = Some s /\
            n_added s = zsum (map item_total (map fst items)).
Proof. exact C08_hh_nadded_thm. Qed.
Print Assumptions C08_hh_nadded.

(* non-vacuity: width 1 (every key shares the cell of each row), alias keys a / a+NUL, the items
   of ex_cms_items on three workers (one idle): key a holds 4 of 11 ... *)
Definition ex_hh_items : list (cms_item * Z) :=
  [([([97], 5); ([97; 0], 1)], 2); ([], 0); ([([98], 2); ([97], 2)], 3); ([([97], 1)], 1)].
Example C08_hh_nonvacuous :
  let b := fun (_ : nat) (_ : key) => O in
  (forall r k, (b r k < 1)%nat) /\ (4 <= 255)%nat /\
  (ex_sched <> [] /\ Permutation (concat ex_sched) (seq 0 (length ex_hh_items))) /\
  Forall (fun it => 0 <= snd it) ex_hh_items /\ zsum (map snd ex_hh_items) < 2^64 /\
  Forall hh_item_wf (map fst ex_hh_items) /\ Forall hh_item_small (map fst ex_hh_items) /\ (0 < 2)%nat /\
  (truth 4 (hh_seq_hist (map fst ex_hh_items)) [97], total (hh_seq_hist (map fst ex_hh_items))) = (8, 11) /\
  option_map (fun s => (hh_get 2 4 b s [97], hh_get 2 4 b s [97; 0], n_added s, n_records s,
                        snd (hh_query 1 2 4 b (fun n => n / 2) s (Some 1) None)))
             (hh_pa 1 2 4 b (ok_outs ex_hh_items) ex_sched) = Some (5, 0, 11, 6, [([97], 5)]).
Proof.
  cbv zeta. split; [intros; constructor|]. split; [repeat constructor|]. split; [exact C08_sched_nonvacuous|].
  split; [repeat constructor; cbn; discriminate|]. split; [vm_compute; reflexivity|].
  split; [repeat constructor; cbn; try discriminate; reflexivity|].
  split; [repeat constructor; cbn; discriminate|]. split; [repeat constructor|].
  split; vm_compute; reflexivity.
Qed.

(* ---------------- source tie ----------------
   the index arithmetic of helpers.parallel_merging / _merge_worker / _fill_queue as regenerated from the source AST on
   this run (generated/KernelsHelpers.v, Python ints = Z): the test of the while loop, the number of merger processes of
   a round, the elements of sketch_array a merger is given (receiver = the parameter of _merge_worker that calls
   .merge(<the other>)), Python's range(start, stop, step) of the survivors (KernelTieHelpers.py_range) and the element
   kept for each, the element returned, the number of poison pills *)
From Sketchnu Require KernelsHelpers KernelTieHelpers.
Theorem C08_helpers_source_tie :
  (forall n : nat, KernelsHelpers.gen_pm_continue (Z.of_nat n) = (1 <? n)%nat) /\
  (forall n : nat, Z.to_nat (KernelsHelpers.gen_pm_n_pairs (Z.of_nat n)) = (n / 2)%nat) /\
  (forall i : nat, Z.to_nat (KernelsHelpers.gen_pm_receiver (Z.of_nat i)) = (2 * i)%nat /\
                   Z.to_nat (KernelsHelpers.gen_pm_other (Z.of_nat i)) = (2 * i + 1)%nat) /\
  (forall n : nat, let '(a, b, c) := KernelsHelpers.gen_pm_keep_range (Z.of_nat n) in
     map (fun z => Z.to_nat (KernelsHelpers.gen_pm_keep_index z)) (KernelTieHelpers.py_range a b c)
     = map (fun j => (2 * j)%nat) (seq 0 ((n + 1) / 2))) /\
  KernelsHelpers.gen_pm_result_index = 0 /\
  (forall n : Z, KernelsHelpers.gen_fill_pills n = n).
Proof. exact KernelTieHelpers.tie_helpers_pieces. Qed.
Print Assumptions C08_helpers_source_tie.

(* the loop of parallel_merging run with the generated test, counts, indices and range (KernelTieHelpers.pm_loop_gen)
   is the model's pm, for every sketch type, every merge and every array of sketches *)
Theorem C08_pm_source_tie : forall (Sk : Type) (merge : Sk -> Sk -> Sk) (l : list Sk),
  KernelTieHelpers.pm_loop_gen Sk merge (length l) l = pm Sk merge l.
Proof. exact KernelTieHelpers.tie_pm. Qed.
Print Assumptions C08_pm_source_tie.

Example C08_helpers_source_tie_nonvacuous :
  map (fun n => (KernelsHelpers.gen_pm_continue n, KernelsHelpers.gen_pm_n_pairs n, KernelsHelpers.gen_pm_keep_range n)) [1; 2; 5]
  = [(false, 0, (0, 1, 2)); (true, 1, (0, 2, 2)); (true, 2, (0, 5, 2))] /\
  KernelTieHelpers.py_range 0 5 2 = [0; 2; 4] /\ KernelTieHelpers.py_range 0 0 2 = [] /\
  (KernelsHelpers.gen_pm_receiver 3, KernelsHelpers.gen_pm_other 3) = (6, 7) /\
  KernelTieHelpers.pm_loop_gen (list Z) (fun a b => a ++ b) 5 [[1]; [2]; [3]; [4]; [5]] = Some [1; 2; 3; 4; 5] /\
  KernelsHelpers.gen_fill_pills 3 = 3.
Proof. vm_compute. repeat split; reflexivity. Qed.
