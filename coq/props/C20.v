(* C20 — a truncated sketch file is never loaded as a sketch (framing theorem under the stated
   hypothesis; F4 shows the hypothesis is needed).
   Only theorem statements; every proof is `exact <lemma>` from theories/ZipProofs.v. *)
From Coq Require Import ZArith List.
From Sketchnu Require Import Machine Zip ZipProofs.
Import ListNotations.

(* file = body ++ eocd, eocd the 22-byte end-of-central-directory record with zero comment length,
   and the record signature occurs nowhere before the record: then np.load + zipfile._EndRecData
   (model: reader) reject every strict prefix *)
Theorem C20_prefix_rejected : forall body eocd : list Z,
  wf_eocd eocd -> sig_free (body ++ firstn 3 eocd) ->
  forall n : nat, (n < length (body ++ eocd))%nat -> reader (firstn n (body ++ eocd)) = Reject.
Proof. exact prefix_rejected. Qed.
Print Assumptions C20_prefix_rejected.

(* the complete file: the record is located where it was written (no hypothesis on the body) *)
Theorem C20_complete_accepted : forall body eocd : list Z,
  wf_eocd eocd -> locate_eocd (body ++ eocd) = Some (length body).
Proof. exact complete_accepted. Qed.
Print Assumptions C20_complete_accepted.

(* without sig_free the statement is false (an embedded container; the real witness is F4) *)
Theorem C20_refuted_without_hyp : exists (body eocd : list Z) (n : nat),
  wf_eocd eocd /\ (n < length (body ++ eocd))%nat /\ reader (firstn n (body ++ eocd)) <> Reject.
Proof. exact refuted_without_hyp. Qed.
Print Assumptions C20_refuted_without_hyp.

(* non-vacuity: a concrete 47-byte container (record signature also occurring INSIDE the record's
   fields, body ending in "PK\005") satisfies the hypotheses; all 47 strict prefixes are rejected
   and the complete file is located *)
Example C20_hyps_nonvacuous :
  wf_eocd ex_eocd /\ sig_free (ex_body ++ firstn 3 ex_eocd) /\
  locate_eocd (ex_body ++ ex_eocd) = Some (length ex_body) /\
  map (fun n => reader (firstn n (ex_body ++ ex_eocd))) (seq 0 (length (ex_body ++ ex_eocd))) =
  repeat Reject (length (ex_body ++ ex_eocd)).
Proof. exact hyps_nonvacuous. Qed.
