(* C16 — shared-memory and attached sketches behave like in-memory ones (partial: layout and view
   algebra proved; SharedMemory's size, unaligned np.frombuffer views and the __del__ lifetime are observed).
   Only theorem statements; every proof is `exact <lemma>` from theories/ShmProofs.v. *)
From Coq Require Import ZArith List.
From Sketchnu Require Import Machine Shm ShmProofs.
Import ListNotations.

(* __init__ (sizes from the constructor arguments) and attach_existing_shm (sizes from .nbytes of the
   private arrays) compute the same views, for every configuration and every buffer length *)
Theorem C16_layout_agree : forall (p : params) (L : nat), layout_init p L = layout_attach p L.
Proof. exact layout_agree. Qed.
Print Assumptions C16_layout_agree.

(* on a block of exactly the requested size the views exist, lie in order without gap or overlap,
   their byte lengths sum to the block size, and the trailing buf[start:] slice is two uint64
   whatever the alignment *)
Theorem C16_disjoint_cover : forall p : params, wf p ->
  exists vs : list view,
    layout_init p (request p) = Some vs /\
    contiguous 0 vs (request p) /\ pairwise_disjoint vs /\ counters_last p vs.
Proof. exact disjoint_cover. Qed.
Print Assumptions C16_disjoint_cover.

Theorem C16_view_algebra :
  (forall (v : view) (xs m : list Z), in_bounds m v -> fits v xs -> read v (write v xs m) = xs) /\
  (forall (u v : view) (xs m : list Z),
     in_bounds m v -> length xs = v_cnt v -> disjoint u v -> read u (write v xs m) = read u m) /\
  (forall (p : params) (L : nat) (vs vs' : list view) (m : list Z),
     layout_init p L = Some vs -> layout_attach p L = Some vs' -> load vs m = load vs' m).
Proof. exact view_algebra. Qed.
Print Assumptions C16_view_algebra.

(* kernels are functions of the arrays only: a sketch whose arrays are views into one block (owner,
   and any attached view vs') goes through the same array states as a private sketch *)
Theorem C16_same_semantics : forall (p : params) (m : list Z) (vs vs' : list view) (ops : list kernel),
  wf p -> length m = request p ->
  layout_init p (request p) = Some vs -> layout_attach p (request p) = Some vs' ->
  Forall (shape_preserving vs) ops -> Forall2 fits vs (load vs m) ->
  load vs (run_shared vs ops m) = run_private ops (load vs m) /\
  load vs' (run_shared vs ops m) = run_private ops (load vs m).
Proof. exact same_semantics_layout. Qed.
Print Assumptions C16_same_semantics.

(* non-vacuity: odd-sized configurations are well-formed and have the stated layouts; the hypotheses of
   C16_same_semantics hold for HeavyHitters(3, 2, 5) with a kernel that changes all four arrays, and its
   conclusion evaluates to an equation between states that differ from the initial one *)
Example C16_layout_nonvacuous :
  wf ex_params /\ wf (PCms 1 5 3) /\ wf (PHll 7) /\
  show_layout (layout_init ex_params (request ex_params)) = [[0; 30; 1]; [30; 6; 4]; [54; 6; 1]; [60; 2; 8]]%Z /\
  show_layout (layout_attach ex_params (request ex_params)) = [[0; 30; 1]; [30; 6; 4]; [54; 6; 1]; [60; 2; 8]]%Z /\
  show_layout (layout_init (PCms 1 5 3) (request (PCms 1 5 3))) = [[0; 15; 1]; [15; 2; 8]]%Z /\
  show_layout (layout_init (PHll 7) (request (PHll 7))) = [[0; 128; 1]]%Z.
Proof. exact layout_nonvacuous. Qed.

Example C16_semantics_nonvacuous : exists vs : list view,
  layout_init ex_params (request ex_params) = Some vs /\ length ex_block = request ex_params /\
  pairwise_disjoint vs /\ Forall (in_bounds ex_block) vs /\
  Forall (shape_preserving vs) [ex_kernel; ex_kernel] /\ Forall2 fits vs (load vs ex_block).
Proof. exact semantics_hyps_nonvacuous. Qed.
