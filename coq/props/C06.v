(* C06 — log counters: exact in the reserved range, unbiased beyond it, fresh draws.
   Only theorem statements; every proof is `exact <lemma>` from theories/{CmsLogProofs,LogLaw}.v. *)
From Coq Require Import ZArith List Bool Reals Lra Lia.
From Coq Require Import Floats.PrimFloat.
From Sketchnu Require Import Machine Consts Ngram CmsLog CmsLogProofs LogLaw CmsLogFloat.
Import ListNotations.
Open Scope Z_scope.

(* ---------------------------------------------------------------- (a) the reserved range is exact *)
(* _log_counter on a counter c with c + v <= num_reserved + 1, draws in [0,1), base**0 = 1.0:
   the counter advances by exactly v; no draw is consumed while the result stays <= num_reserved,
   exactly one (the test rand < 1.0, which always succeeds) when it reaches num_reserved + 1 *)
Theorem C06_reserved : forall (nr umax : Z) (powneg : Z -> float),
  nr < umax -> powneg 0 = f_one ->
  forall (c : Z) (rs : rsrc) (v : Z),
  rs_draws_ok rs -> 0 <= v -> c + v <= nr + 1 ->
  log_counter nr umax powneg c rs v =
  (c + v, if (1 <=? v) && (c + v =? nr + 1) then snd (rand rs) else rs).
Proof. exact log_counter_reserved. Qed.
Print Assumptions C06_reserved.

(* a key that has some row to itself is counted exactly up to num_reserved + 1, and its estimate
   is that count (decode c = float(c) on 0..nr+1), on every merge-free history *)
Theorem C06_reserved_estimate :
  forall (width depth : nat) (bucket : nat -> key -> nat) (nr umax max_count : Z)
         (powneg decode : Z -> float) (castc : Z -> Z),
  (forall r k, (bucket r k < width)%nat) -> 0 <= umax ->
  (forall x, 0 <= x <= umax -> castc x = x) ->
  0 <= nr -> nr < umax -> powneg 0 = f_one ->
  forall (h : lhist) (k : key) (r0 : nat),
  (forall c, 0 <= c <= nr + 1 -> decode c = z2f c) ->
  lmerge_free h -> lwf h -> (r0 < depth)%nat ->
  (forall j, In j (lkeys h) -> j <> k -> bucket r0 j <> bucket r0 k) ->
  ltruth h k <= nr + 1 ->
  lestimate depth bucket umax decode
    (leval width depth bucket nr umax max_count powneg decode castc h) k = z2f (ltruth h k).
Proof. exact C06_exact_alone_estimate. Qed.
Print Assumptions C06_reserved_estimate.

(* ---------------------------------------------------------------- (b) unbiased beyond it (reals) *)
Theorem C06_unit_increment : forall b : R, (1 < b)%R -> forall nr c : Z,
  (p b nr c * (val b nr (c + 1) - val b nr c) = 1)%R.
Proof. exact unit_increment. Qed.
Print Assumptions C06_unit_increment.

Theorem C06_cond_expect : forall b : R, (1 < b)%R -> forall nr c : Z,
  (p b nr c * val b nr (c + 1) + (1 - p b nr c) * val b nr c = val b nr c + 1)%R.
Proof. exact cond_expect. Qed.
Print Assumptions C06_cond_expect.

(* N unit adds from counter c0 with the ceiling at umax: the expected decoded value is the start
   plus N minus the probability mass-time spent at the ceiling; exact while N <= umax - c0 *)
Theorem C06_expect : forall b : R, (1 < b)%R -> forall (nr umax c0 : Z) (N : nat),
  (cexpect b nr umax c0 N =
   val b nr c0 + INR N - rsum (fun t => cdist b nr umax c0 t (Kc umax c0)) N)%R.
Proof. exact chain_expect. Qed.
Print Assumptions C06_expect.

Theorem C06_expect_exact : forall b : R, (1 < b)%R -> forall (nr umax c0 : Z) (N : nat),
  (N <= Kc umax c0)%nat -> (cexpect b nr umax c0 N = val b nr c0 + INR N)%R.
Proof. exact chain_expect_exact. Qed.
Print Assumptions C06_expect_exact.

Theorem C06_expect_le : forall b : R, (1 < b)%R -> forall (nr umax c0 : Z) (N : nat),
  (cexpect b nr umax c0 N <= val b nr c0 + INR N)%R.
Proof. exact chain_expect_le. Qed.
Print Assumptions C06_expect_le.

Theorem C06_chain_mass : forall (b : R) (nr umax c0 : Z) (N : nat),
  (rsum (cdist b nr umax c0 N) (S (Kc umax c0)) = 1)%R.
Proof. exact chain_mass. Qed.
Print Assumptions C06_chain_mass.

Theorem C06_val_reserved : forall b : R, (1 < b)%R -> forall nr c : Z, c <= nr -> val b nr c = IZR c.
Proof. exact val_reserved. Qed.
Print Assumptions C06_val_reserved.

(* ---------------------------------------------------------------- (c) lower bound on every history *)
Theorem C06_lower :
  forall (width depth : nat) (bucket : nat -> key -> nat) (nr umax max_count : Z)
         (powneg decode : Z -> float) (castc : Z -> Z),
  (forall r k, (bucket r k < width)%nat) -> 0 <= umax ->
  (forall x, 0 <= x <= umax -> castc x = x) ->
  0 <= nr -> nr < umax -> powneg 0 = f_one ->
  forall (h : lhist) (k : key),
  lmerge_free h \/ merge_lower_ok nr umax max_count decode castc ->
  lwf h ->
  Z.min (ltruth h k) (nr + 1) <=
  lquery depth bucket umax (leval width depth bucket nr umax max_count powneg decode castc h) k.
Proof. exact C06_lower_gen. Qed.
Print Assumptions C06_lower.

(* the merge condition of C06_lower holds for a configuration whose 65536 counter pairs evaluate so *)
Theorem C06_merge_lower_grid : forall nr umax max_count decode castc,
  merge_grid_b nr umax max_count decode castc = true -> merge_lower_ok nr umax max_count decode castc.
Proof. exact merge_grid_lower_ok. Qed.
Print Assumptions C06_merge_lower_grid.

(* the same without any premise on the cell rule: one linear evaluation on the decode table of the
   configuration replaces it (through the standard library's specification of binary64 and Flocq) *)
Theorem C06_lower_float :
  forall (width depth : nat) (bucket : nat -> key -> nat) (nr umax max_count : Z)
         (powneg decode : Z -> float) (castc : Z -> Z),
  (forall r k, (bucket r k < width)%nat) ->
  (forall x, 0 <= x <= umax -> castc x = x) ->
  float_tables_ok_b nr umax max_count decode = true ->
  powneg 0 = f_one ->
  forall (h : lhist) (k : key), lwf h ->
  Z.min (ltruth h k) (nr + 1) <=
  lquery depth bucket umax (leval width depth bucket nr umax max_count powneg decode castc h) k.
Proof. exact CmsLogFloat.C06_lower_float. Qed.
Print Assumptions C06_lower_float.

(* ---------------------------------------------------------------- (d) draws are never recycled *)
(* the batch size is one number in the source: the test in _rand, the refill, both constructors *)
Theorem C06_batch_consts :
  rand_batch_cmp = rand_batch_gen /\ 1 <= rand_batch_gen /\
  log8_rand_batch_init = rand_batch_gen /\ log16_rand_batch_init = rand_batch_gen.
Proof. exact (batch_consts_check eq_refl). Qed.
Print Assumptions C06_batch_consts.

Theorem C06_rand_stream : forall (n : nat) (rs : rsrc),
  rs_wf rs -> (n <= length (pending rs))%nat ->
  fst (draws n rs) = firstn n (pending rs) /\
  pending (snd (draws n rs)) = skipn n (pending rs) /\
  rs_wf (snd (draws n rs)) /\
  ((1 <= n)%nat -> 1 <= rptr (snd (draws n rs)) <= rand_batch_gen).
Proof. exact (rand_stream_checked eq_refl). Qed.
Print Assumptions C06_rand_stream.

Theorem C06_rand_init : forall b fut,
  (length b = Z.to_nat log8_rand_batch_init \/ length b = Z.to_nat log16_rand_batch_init) ->
  Forall (fun x => length x = Z.to_nat rand_batch_gen) fut ->
  rs_wf {| rbatch := b; rptr := 0; rfuture := fut |}.
Proof. exact (rs_wf_init eq_refl). Qed.
Print Assumptions C06_rand_init.

(* what _log_counter consumes is a prefix of that stream *)
Theorem C06_log_counter_draws : forall (nr umax : Z) (powneg : Z -> float) (c : Z) (rs : rsrc) (v : Z),
  exists m, (m <= Z.to_nat v)%nat /\ snd (log_counter nr umax powneg c rs v) = snd (draws m rs).
Proof. exact log_counter_draws. Qed.
Print Assumptions C06_log_counter_draws.

(* ---------------------------------------------------------------- non-vacuity *)
(* the tables of the default CountMinLog8 (max_count = 2^32 - 1, num_reserved = 15), read from the
   implementation *)
Definition pn8t : ftree := Eval vm_compute in ft_of_list
[(0x1.0000000000000p+0)%float; (0x1.d79b3459cdd22p-1)%float; (0x1.b2663c5d71679p-1)%float;
   (0x1.9020bae5cfa3cp-1)%float; (0x1.708f66c07e9abp-1)%float; (0x1.537ba41ee5433p-1)%float;
   (0x1.38b3261eb5634p-1)%float; (0x1.200797c654e00p-1)%float; (0x1.094e4bdeb0241p-1)%float;
   (0x1.e8bfe63f9ed61p-2)%float; (0x1.c230b060f217ep-2)%float; (0x1.9eac42067c681p-2)%float;
   (0x1.7df52a492ec0bp-2)%float; (0x1.5fd2d12c849eap-2)%float; (0x1.441115b7e5cc4p-2)%float;
   (0x1.2a7ff3c952844p-2)%float; (0x1.12f331055ada3p-2)%float; (0x1.fa8420a961f50p-3)%float;
   (0x1.d28e16d5f7cacp-3)%float; (0x1.adbf23ba02cb9p-3)%float; (0x1.8bd79aabb87e2p-3)%float;
   (0x1.6c9cd5079f048p-3)%float; (0x1.4fd8ccbae20f8p-3)%float; (0x1.3559beced2857p-3)%float;
   (0x1.1cf1d553e61c9p-3)%float; (0x1.0676d8174d555p-3)%float; (0x1.e383c733eb9e4p-4)%float;
   (0x1.bd5e4b95427a0p-4)%float; (0x1.9a3b401d61f13p-4)%float; (0x1.79dddc5ce9374p-4)%float;
   (0x1.5c0e23847e039p-4)%float; (0x1.4098838a9e839p-4)%float; (0x1.274d7bf59008ap-4)%float;
   (0x1.10014baf171bcp-4)%float; (0x1.f5174aa7a50a3p-5)%float; (0x1.cd8ed2f693a45p-5)%float;
   (0x1.a924cd0028c33p-5)%float; (0x1.879a3ab203ab5p-5)%float; (0x1.68b51639e0f57p-5)%float;
   (0x1.4c3feda621b43p-5)%float; (0x1.320986718a9c1p-5)%float; (0x1.19e4885a4bb7ep-5)%float;
   (0x1.03a72ef0ff622p-5)%float; (0x1.de5602afdd328p-6)%float; (0x1.b8991f6b3abc8p-6)%float;
   (0x1.95d66bcefc6bap-6)%float; (0x1.75d1c615823c2p-6)%float; (0x1.5853caf3202c4p-6)%float;
   (0x1.3d2975c5804b5p-6)%float; (0x1.2423c8522df9fp-6)%float; (0x1.0d17797b9e2d3p-6)%float;
   (0x1.efb954c0280d0p-7)%float; (0x1.c89d42c1b29e0p-7)%float; (0x1.a4971534f5201p-7)%float;
   (0x1.83687ac04084ep-7)%float; (0x1.64d80ca9946afp-7)%float; (0x1.48b0eb8a5da93p-7)%float;
   (0x1.2ec263d8b65b4p-7)%float; (0x1.16df99a7ee7f9p-7)%float; (0x1.00df3b0e9fd15p-7)%float;
   (0x1.d93671581e050p-8)%float; (0x1.b3e107a2677eep-8)%float; (0x1.917da3b7047c5p-8)%float;
   (0x1.71d0c8b11ae56p-8)%float; (0x1.54a3ab23bfb26p-8)%float; (0x1.39c3d25010ef6p-8)%float;
   (0x1.2102c0d5bed93p-8)%float; (0x1.0a35a446fa848p-8)%float; (0x1.ea6a162955ef8p-9)%float;
   (0x1.c3b940a586e72p-9)%float; (0x1.a015d9bd63919p-9)%float; (0x1.7f423af6571b3p-9)%float;
   (0x1.61059afa69c67p-9)%float; (0x1.452bab5c443d9p-9)%float; (0x1.2b843e1b396b6p-9)%float;
   (0x1.13e2f24acfc32p-9)%float; (0x1.fc3dce9b38786p-10)%float; (0x1.d424ec3d4279ep-10)%float;
   (0x1.af35e05dbbccfp-10)%float; (0x1.8d30c6ccc1a27p-10)%float; (0x1.6ddac5c229f3fp-10)%float;
   (0x1.50fda80f5f8f0p-10)%float; (0x1.36677f5963b0ap-10)%float; (0x1.1dea4db8bd793p-10)%float;
   (0x1.075bb629ebc94p-10)%float; (0x1.e52966896fd08p-11)%float; (0x1.bee2a777461c2p-11)%float;
   (0x1.9ba0f85d52a80p-11)%float; (0x1.7b275bcb95f7ap-11)%float; (0x1.5d3da42092ac3p-11)%float;
   (0x1.41b0125aab10bp-11)%float; (0x1.284efc94451a1p-11)%float; (0x1.10ee7b8fdaf39p-11)%float;
   (0x1.f6cc3d8aab60ep-12)%float; (0x1.cf214cdaa1027p-12)%float; (0x1.aa97862280927p-12)%float;
   (0x1.88efb4620f2bbp-12)%float; (0x1.69ef9f2e94966p-12)%float; (0x1.4d61a5fbdc1b3p-12)%float;
   (0x1.3314635755138p-12)%float; (0x1.1ada5774d8478p-12)%float; (0x1.04899979405fep-12)%float;
   (0x1.dff71df55a556p-13)%float; (0x1.ba1952720ed17p-13)%float; (0x1.97384f367fa82p-13)%float;
   (0x1.7717be0dc2775p-13)%float; (0x1.59800b5fe5460p-13)%float; (0x1.3e3e060dc3bf2p-13)%float;
   (0x1.252286e29d10fp-13)%float; (0x1.0e021f023921cp-13)%float; (0x1.f169998d03944p-14)%float;
   (0x1.ca2b6d152d63ep-14)%float; (0x1.a605d5d746f9bp-14)%float; (0x1.84ba4c2263d8cp-14)%float;
   (0x1.660f372ec9a50p-14)%float; (0x1.49cf897b18593p-14)%float; (0x1.2fca6505c8c8cp-14)%float;
   (0x1.17d2c6c43e856p-14)%float; (0x1.01bf38c530bcdp-14)%float; (0x1.dad314ef6e4c6p-15)%float;
   (0x1.b55d1d35d1250p-15)%float; (0x1.92dbbcc78528bp-15)%float; (0x1.731342e02bb6ap-15)%float;
   (0x1.55ccb44b01e32p-15)%float; (0x1.3ad56c4652bd4p-15)%float; (0x1.21fec4e7de0f4p-15)%float;
   (0x1.0b1dc66aa6551p-15)%float; (0x1.ec15b9b51b02fp-16)%float; (0x1.c543273a5720cp-16)%float;
   (0x1.a180acc2ddadap-16)%float; (0x1.80906e11dc2a9p-16)%float; (0x1.6239704cdf51ep-16)%float;
   (0x1.4647376a2d7eap-16)%float; (0x1.2c896b65e9aa2p-16)%float; (0x1.14d384a0ef6a2p-16)%float;
   (0x1.fdf8fdb178f7ap-17)%float; (0x1.d5bd24664c8f9p-17)%float; (0x1.b0ade3c63a4e7p-17)%float;
   (0x1.8e8b1feadc714p-17)%float; (0x1.6f19cbbac0072p-17)%float; (0x1.522382c27aef1p-17)%float;
   (0x1.37762b1ce8591p-17)%float; (0x1.1ee39ec7c69e6p-17)%float; (0x1.08415bcec8b69p-17)%float;
   (0x1.e6d07586034fap-18)%float; (0x1.c06855feeafc1p-18)%float; (0x1.9d07e88b48f7ap-18)%float;
   (0x1.7c71fa8c4751bp-18)%float; (0x1.5e6e2d63b3455p-18)%float; (0x1.42c894f09cbafp-18)%float;
   (0x1.29515dbd6bc59p-18)%float; (0x1.11dc7a440b2b8p-18)%float; (0x1.f882ad72126a8p-19)%float;
   (0x1.d0b525b3b51dap-19)%float; (0x1.ac0b8289a324ap-19)%float; (0x1.8a4657d5e1939p-19)%float;
   (0x1.6b2b3a6924e80p-19)%float; (0x1.4e845af3ff385p-19)%float; (0x1.342028f11bddfp-19)%float;
   (0x1.1bd0fce781bd9p-19)%float; (0x1.056cc970898acp-19)%float; (0x1.e199a4f1d21d3p-20)%float;
   (0x1.bb9ad47df78e6p-20)%float; (0x1.989b6734bdb03p-20)%float; (0x1.785ed24436b7cp-20)%float;
   (0x1.5aad519e0d1f8p-20)%float; (0x1.3f53877f8332ep-20)%float; (0x1.26222395d0718p-20)%float;
   (0x1.0eed912525e4dp-20)%float; (0x1.f31b5749861b9p-21)%float; (0x1.cbbaf29b6161ep-21)%float;
   (0x1.a775d64801918p-21)%float; (0x1.860d4417da376p-21)%float; (0x1.67477109d17bap-21)%float;
   (0x1.4aef21598681ep-21)%float; (0x1.30d34c68c8d3ap-21)%float; (0x1.18c6c7ecf37eap-21)%float;
   (0x1.029ff9cd6ff55p-21)%float; (0x1.dc71205870a92p-22)%float; (0x1.b6da7e37b4e3ap-22)%float;
   (0x1.943b07209efbep-22)%float; (0x1.7456d642101c7p-22)%float; (0x1.56f6c075c35a9p-22)%float;
   (0x1.3be7f4d0d02b7p-22)%float; (0x1.22fba4bbac644p-22)%float; (0x1.0c06b2f99c595p-22)%float;
   (0x1.edc2d226fdf64p-23)%float; (0x1.c6ce6549e1a09p-23)%float; (0x1.a2ecbc29dceb7p-23)%float;
   (0x1.81dfc498ff11ap-23)%float; (0x1.636e520d2b71ap-23)%float; (0x1.4763bab88057dp-23)%float;
   (0x1.2d8f7c6f4e542p-23)%float; (0x1.15c4e8be078ecp-23)%float; (0x1.ffb5af3bfb047p-24)%float;
   (0x1.d756c0866ea86p-24)%float; (0x1.b2272f106f1a3p-24)%float; (0x1.8fe6a70c7ecc7p-24)%float;
   (0x1.7059e7e3223ecp-24)%float; (0x1.534a5db2e284ap-24)%float; (0x1.3885c2e67d5e9p-24)%float;
   (0x1.1fddc93defc91p-24)%float; (0x1.0927c9b3ea8bcp-24)%float; (0x1.e878f56a3d725p-25)%float;
   (0x1.c1ef58537d80ap-25)%float; (0x1.9e7011b7452cbp-25)%float; (0x1.7dbdb99987ffbp-25)%float;
   (0x1.5f9fc034a65fep-25)%float; (0x1.43e20c210521ap-25)%float; (0x1.2a54a034d070ep-25)%float;
   (0x1.12cb488001a57p-25)%float; (0x1.fa3a9baa18dd0p-26)%float; (0x1.d24a5eb3d85d6p-26)%float;
   (0x1.ad80c34f73f9cp-26)%float; (0x1.8b9e2611211e4p-26)%float; (0x1.6c67e8d8bc0b6p-26)%float;
   (0x1.4fa80d6ad6cc9p-26)%float; (0x1.352cd809c972fp-26)%float; (0x1.1cc8796d304dap-26)%float;
   (0x1.0650bf830426ep-26)%float; (0x1.e33d98e26cd63p-27)%float; (0x1.bd1da6b317a99p-27)%float;
   (0x1.99ffb4d6cd00ep-27)%float; (0x1.79a703b0babf4p-27)%float; (0x1.5bdb9e91e583fp-27)%float;
   (0x1.4069faed096bfp-27)%float; (0x1.27229f2d7ba34p-27)%float; (0x1.0fd9d096cfd56p-27)%float;
   (0x1.f4ce8f3e5f5a3p-28)%float; (0x1.cd4bd4830fdfdp-28)%float; (0x1.a8e7179e037bap-28)%float;
   (0x1.876163a181eadp-28)%float; (0x1.6880bb274649bp-28)%float; (0x1.4c0fb3ff97daap-28)%float;
   (0x1.31dd1aca74916p-28)%float; (0x1.19bb9ddaf5225p-28)%float; (0x1.03817ed1aeb0bp-28)%float;
   (0x1.de1094cce7c74p-29)%float; (0x1.b8592bc9146c8p-29)%float; (0x1.959b83cc86a07p-29)%float;
   (0x1.759b83cbfc3bdp-29)%float].
Definition pn8 : Z -> float := tabt_of pn8t.
Definition dc8t : ftree := Eval vm_compute in ft_of_list
[(0x0.0p+0)%float; (0x1.0000000000000p+0)%float; (0x1.0000000000000p+1)%float; (0x1.8000000000000p+1)%float;
   (0x1.0000000000000p+2)%float; (0x1.4000000000000p+2)%float; (0x1.8000000000000p+2)%float;
   (0x1.c000000000000p+2)%float; (0x1.0000000000000p+3)%float; (0x1.2000000000000p+3)%float;
   (0x1.4000000000000p+3)%float; (0x1.6000000000000p+3)%float; (0x1.8000000000000p+3)%float;
   (0x1.a000000000000p+3)%float; (0x1.c000000000000p+3)%float; (0x1.e000000000000p+3)%float;
   (0x1.0000000000000p+4)%float; (0x1.115ed3fdfbc66p+4)%float; (0x1.243a887f93e50p+4)%float;
   (0x1.38b3bcea76270p+4)%float; (0x1.4eeddbf35c780p+4)%float; (0x1.670f58e2738acp+4)%float;
   (0x1.8141f21725876p+4)%float; (0x1.9db2f93e58f58p+4)%float; (0x1.bc93a1b80f0cbp+4)%float;
   (0x1.de1955b3ffa36p+4)%float; (0x1.013f094c37515p+5)%float; (0x1.150066a9899e8p+5)%float;
   (0x1.2a72efa0cd056p+5)%float; (0x1.41bbbe3714200p+5)%float; (0x1.5b0319f634956p+5)%float;
   (0x1.7674bd9a99fd0p+5)%float; (0x1.944022b8ee5d7p+5)%float; (0x1.b498d3de74bacp+5)%float;
   (0x1.d7b6c5ba2783dp+5)%float; (0x1.fdd6b7e8d7cedp+5)%float; (0x1.139d4f05e022ap+6)%float;
   (0x1.2a1508efab1e6p+6)%float; (0x1.4279678bdac62p+6)%float; (0x1.5cf49cec75991p+6)%float;
   (0x1.79b47859de822p+6)%float; (0x1.98eab591bc98dp+6)%float; (0x1.bacd52cf7ce88p+6)%float;
   (0x1.df96ee334232ep+6)%float; (0x1.03c395946afc7p+7)%float; (0x1.1971903f0270fp+7)%float;
   (0x1.30fae7f36b71fp+7)%float; (0x1.4a8853df31a07p+7)%float; (0x1.664607f25ae56p+7)%float;
   (0x1.84640156ba452p+7)%float; (0x1.a5165973ea0a3p+7)%float; (0x1.c895a00f88d99p+7)%float;
   (0x1.ef1f3d25a2209p+7)%float; (0x1.0c7aed91426a5p+8)%float; (0x1.2330ed1ae56f5p+8)%float;
   (0x1.3bd8e6c30862dp+8)%float; (0x1.569d818ef9c4dp+8)%float; (0x1.73ad0bbebbd08p+8)%float;
   (0x1.9339cae78febfp+8)%float; (0x1.b57a52eaec17ap+8)%float; (0x1.daa9e4604ad3bp+8)%float;
   (0x1.0184698a944bbp+9)%float; (0x1.176e7aaa3f91ep+9)%float; (0x1.2f390e5b1f72cp+9)%float;
   (0x1.490d4ca3e1c1ep+9)%float; (0x1.6517e3f81395dp+9)%float; (0x1.83895683638cdp+9)%float;
   (0x1.a4964e13b276bp+9)%float; (0x1.c877f7331bfddp+9)%float; (0x1.ef6c640f8fdacp+9)%float;
   (0x1.0cdb7bed89d84p+10)%float; (0x1.23d06daf369aap+10)%float; (0x1.3cbcbdc3ee985p+10)%float;
   (0x1.57cb89686cc29p+10)%float; (0x1.752b9f343a79ap+10)%float; (0x1.950fd0123f6cbp+10)%float;
   (0x1.b7af4728bf97cp+10)%float; (0x1.dd45e948d8cd7p+10)%float; (0x1.030a5e454bc95p+11)%float;
   (0x1.19312c646f859p+11)%float; (0x1.313db0dfdcd8fp+11)%float; (0x1.4b5985d0299d0p+11)%float;
   (0x1.67b1d57ffa00cp+11)%float; (0x1.8677a88d7da69p+11)%float; (0x1.a7e03abd14849p+11)%float;
   (0x1.cc25570fd778ep+11)%float; (0x1.f385bbbd51e6fp+11)%float; (0x1.0f22c35eaf59bp+12)%float;
   (0x1.265755cef58abp+12)%float; (0x1.3f88b9b83b57dp+12)%float; (0x1.5ae283d64efb2p+12)%float;
   (0x1.7894047bf8288p+12)%float; (0x1.98d0996bf3b64p+12)%float; (0x1.bbd006b49638dp+12)%float;
   (0x1.e1ced727cc753p+12)%float; (0x1.0587628b2d841p+13)%float; (0x1.1beb9601c4e04p+13)%float;
   (0x1.343ac20af5decp+13)%float; (0x1.4e9ef40d67160p+13)%float; (0x1.6b45d38210dbep+13)%float;
   (0x1.8a60f0ee4700ap+13)%float; (0x1.ac261ba176854p+13)%float; (0x1.d0cfbecae9ef4p+13)%float;
   (0x1.f89d46889b18ap+13)%float; (0x1.11e9c6cef2119p+14)%float; (0x1.295eaa47ed39cp+14)%float;
   (0x1.42d5e17ab00cep+14)%float; (0x1.5e7b79ed4f061p+14)%float; (0x1.7c7f47156143ap+14)%float;
   (0x1.9d153513d5fc9p+14)%float; (0x1.c075a286df01dp+14)%float; (0x1.e6ddc20d513b8p+14)%float;
   (0x1.0848021215829p+15)%float; (0x1.1eea450ab1876p+15)%float; (0x1.377cd15f68fcdp+15)%float;
   (0x1.522a290488335p+15)%float; (0x1.6f2071fc500a2p+15)%float; (0x1.8e91c62be478ap+15)%float;
   (0x1.b0b48a06aeb49p+15)%float; (0x1.d5c3caa620af4p+15)%float; (0x1.fdffa3f09f16ap+15)%float;
   (0x1.14d6d7c02405ap+16)%float; (0x1.2c8cbe84b7ba9p+16)%float; (0x1.464a8a888c3bbp+16)%float;
   (0x1.623cc36ac5326p+16)%float; (0x1.8093c12f3ed47p+16)%float; (0x1.a183ffdfb1e3ep+16)%float;
   (0x1.c5467a5690afcp+16)%float; (0x1.ec190cd0acabbp+16)%float; (0x1.0b1f6ff814059p+17)%float;
   (0x1.22006e74e8cd8p+17)%float; (0x1.3ad715d2f20fap+17)%float; (0x1.55ce5dd72c965p+17)%float;
   (0x1.7314ec6bd7cd7p+17)%float; (0x1.92dd6652a7cafp+17)%float; (0x1.b55ec6c05e8cdp+17)%float;
   (0x1.dad4be7959b19p+17)%float; (0x1.01c00d89ce7dfp+18)%float; (0x1.17d39b887cccbp+18)%float;
   (0x1.2fcb39c99f68dp+18)%float; (0x1.49d05e3e7e714p+18)%float; (0x1.66100bf1b5918p+18)%float;
   (0x1.84bb20e4cb230p+18)%float; (0x1.a606aa991e457p+18)%float; (0x1.ca2c41d6685bdp+18)%float;
   (0x1.f16a6e4d94d4ap+18)%float; (0x1.0e02896225a17p+19)%float; (0x1.2522f142258c3p+19)%float;
   (0x1.3e3e706cdfa4bp+19)%float; (0x1.598075be8b493p+19)%float; (0x1.7718286be87f3p+19)%float;
   (0x1.9738b9941abe8p+19)%float; (0x1.ba19bccf130fbp+19)%float; (0x1.dff78851bad00p+19)%float;
   (0x1.0489cea717b7fp+20)%float; (0x1.1ada8ca24f1d3p+20)%float; (0x1.331498846322ap+20)%float;
   (0x1.4d61db28786a6p+20)%float; (0x1.69efd45ab5677p+20)%float; (0x1.88efe98da9eb0p+20)%float;
   (0x1.aa97bb4d89c42p+20)%float; (0x1.cf2182050c2efp+20)%float; (0x1.f6cc72b46aff7p+20)%float;
   (0x1.10ee96245da30p+21)%float; (0x1.284f172862afcp+21)%float; (0x1.41b02cee5ae3ep+21)%float;
   (0x1.5d3dbeb3cb563p+21)%float; (0x1.7b27765e4d439p+21)%float; (0x1.9ba112ef7d816p+21)%float;
   (0x1.bee2c208d87b5p+21)%float; (0x1.e529811a5ca63p+21)%float; (0x1.075bc37208588p+22)%float;
   (0x1.1dea5b00787a8p+22)%float; (0x1.36678ca0b4c90p+22)%float; (0x1.50fdb5563dac3p+22)%float;
   (0x1.6ddad3088b3cdp+22)%float; (0x1.8d30d4129b65dp+22)%float; (0x1.af35eda3026f4p+22)%float;
   (0x1.d424f981e9611p+22)%float; (0x1.fc3ddbdf31f63p+22)%float; (0x1.13e2f8ec6e601p+23)%float;
   (0x1.2b8444bc71d67p+23)%float; (0x1.452bb1fd0db5ep+23)%float; (0x1.6105a19abacb4p+23)%float;
   (0x1.7f424196255b6p+23)%float; (0x1.a015e05ca3d9fp+23)%float; (0x1.c3b947442d0ebp+23)%float;
   (0x1.ea6a1cc754c2cp+23)%float; (0x1.0a35a7959f198p+24)%float; (0x1.2102c42400d1ep+24)%float;
   (0x1.39c3d59de7d99p+24)%float; (0x1.54a3ae712262bp+24)%float; (0x1.71d0cbfdff675p+24)%float;
   (0x1.917da70360013p+24)%float; (0x1.b3e10aee2e4afp+24)%float; (0x1.d93674a3435b4p+24)%float;
   (0x1.00df3cb3dad77p+25)%float; (0x1.16df9b4cca5eep+25)%float; (0x1.2ec2657d2aed5p+25)%float;
   (0x1.48b0ed2e62151p+25)%float; (0x1.64d80e4d1f157p+25)%float; (0x1.83687c6347006p+25)%float;
   (0x1.a49716d76c1a3p+25)%float; (0x1.c89d44638dcc3p+25)%float; (0x1.efb956615a171p+25)%float;
   (0x1.0d177a4bdb61dp+26)%float; (0x1.2423c9220780fp+26)%float; (0x1.3d297694ed9b2p+26)%float;
   (0x1.5853cbc218002p+26)%float; (0x1.75d1c6e3fa83dp+26)%float; (0x1.95d66c9cea3aap+26)%float;
   (0x1.b899203892367p+26)%float; (0x1.de56037c91771p+26)%float; (0x1.03a72f5700ec8p+27)%float;
   (0x1.19e488bfed13bp+27)%float; (0x1.320986d6c38c7p+27)%float; (0x1.4c3fee0ae9477p+27)%float;
   (0x1.68b5169e2d75fp+27)%float; (0x1.879a3b15ca8e6p+27)%float; (0x1.a924cd635e973p+27)%float;
   (0x1.cd8ed3592bfc8p+27)%float; (0x1.f5174b0992698p+27)%float; (0x1.10014bdfb0fc8p+28)%float;
   (0x1.274d7c25c5278p+28)%float; (0x1.409883ba663f6p+28)%float; (0x1.5c0e23b3cefdbp+28)%float;
   (0x1.79dddc8bb943cp+28)%float; (0x1.9a3b404ba6053p+28)%float; (0x1.bd5e4bc2ee985p+28)%float;
   (0x1.e383c760f2c2ep+28)%float; (0x1.0676d82d775a2p+29)%float; (0x1.1cf1d569aee84p+29)%float;
   (0x1.3559bee431c43p+29)%float; (0x1.4fd8cccfceb71p+29)%float; (0x1.6c9cd51c0f442p+29)%float;
   (0x1.8bd79abfa1ae0p+29)%float; (0x1.adbf23cd595a4p+29)%float; (0x1.d28e16e8af293p+29)%float;
   (0x1.fa8420bb6c80bp+29)%float; (0x1.12f3310e024ffp+30)%float; (0x1.2a7ff3d19420ep+30)%float;
   (0x1.441115bfb8d69p+30)%float; (0x1.5fd2d133df9e2p+30)%float; (0x1.7df52a50076d4p+30)%float;
   (0x1.9eac420cc7982p+30)%float; (0x1.c230b066a3ad1p+30)%float; (0x1.e8bfe644a9a86p+30)%float;
   (0x1.094e4be0db078p+31)%float; (0x1.200797c81d7cep+31)%float; (0x1.38b32620134eap+31)%float;
   (0x1.537ba41fcf59bp+31)%float; (0x1.708f66c0eaf08p+31)%float; (0x1.9020bae5b3738p+31)%float;
   (0x1.b2663c5cc0ffcp+31)%float; (0x1.d79b34587c80ep+31)%float; (0x1.fffffffdfffd0p+31)%float;
   (0x1.15ed3fde5d913p+32)%float].
Definition dc8 : Z -> float := tabt_of dc8t.
Definition bk2 : nat -> key -> nat := bucket_of [([1], [0; 1]); ([2], [0; 0]); ([3], [1; 1])].
Definition rs_ex : rsrc := mk_rs 0 [0x1p-1; 0x1.8p-1; 0x0p+0; 0x1.fffffffffffffp-1]%float 0 [].

Example C06_tables_nonvacuous :
  pn8 0 = f_one /\ decode_reserved_b 15 dc8 = true /\ decode_increasing_b 255 dc8 = true /\
  powneg_ok_b 15 255 pn8 = true /\
  powneg_recurrence_b 45 (0x1.15ed3fdfbc66dp+0)%float pn8 (zrange 0 240) = true /\
  decode_recurrence_b 45 15 (0x1.15ed3fdfbc66dp+0)%float dc8 (zrange 15 240) = true.
Proof. vm_compute. repeat split; reflexivity. Qed.

Example C06_merge_nonvacuous : merge_lower_ok 15 255 4294967295 dc8 wrap8.
Proof. apply merge_grid_lower_ok. vm_cast_no_check (eq_refl true). Qed.

Example C06_float_tables_nonvacuous :
  float_tables_ok_b 15 255 4294967295 dc8 = true /\ float_tables_empty_ok_b 15 255 4294967295 dc8 = true.
Proof. vm_compute. split; reflexivity. Qed.

Example C06_reserved_nonvacuous :
  log_counter 15 255 pn8 3 rs_ex 13 = (16, snd (rand rs_ex)) /\ rptr (snd (rand rs_ex)) = 1 /\
  log_counter 15 255 pn8 3 rs_ex 12 = (15, rs_ex) /\
  fst (log_counter 15 255 pn8 16 rs_ex 3) = 19.
Proof. vm_compute. repeat split; reflexivity. Qed.

(* a history with adds, an ngram add, a merge and a save/load over colliding keys: well formed, and
   the lower bound is attained with equality for one key and strictly for another *)
Definition h_ex : lhist :=
  LSaveLoad (LMerge (LNgram (LAdd (LAdd (LEmpty rs_ex) [1] 9) [2] 20) [1; 2] 1)
                    (LAdd (LEmpty rs_ex) [3] 4)) rs_ex.
Example C06_lower_nonvacuous :
  map (ltruth h_ex) [[1]; [2]; [3]] = [10; 21; 4] /\
  map (lquery 2 bk2 255 (leval 2 2 bk2 15 255 4294967295 pn8 dc8 wrap8 h_ex)) [[1]; [2]; [3]] = [14; 20; 4].
Proof. vm_compute. split; reflexivity. Qed.
Example C06_lower_wf : lwf h_ex.
Proof.
  assert (D : rs_draws_ok rs_ex).
  { split; [|constructor]. apply Forall_forall. intros x Hx.
    assert (H : forallb (fun y => PrimFloat.ltb y f_one) (rbatch rs_ex) = true) by (vm_compute; reflexivity).
    rewrite forallb_forall in H. exact (H x Hx). }
  unfold h_ex. cbn [lwf]. repeat split; try apply D; try lia.
Qed.

Example C06_rand_stream_nonvacuous :
  let rs := mk_rs 2046 [0x1p-1; 0x1p-2]%float 2046 [[0x1p-3; 0x1p-4; 0x1p-5]%float] in
  fst (draws 4 rs) = [0x1p-1; 0x1p-2; 0x1p-3; 0x1p-4]%float /\ rptr (snd (draws 4 rs)) = 2 /\
  length (rbatch rs) = 2048%nat /\ length (pending rs) = 2050%nat.
Proof. vm_compute. repeat split; reflexivity. Qed.

Example C06_law_nonvacuous : (1 < 2)%R /\ Kc 255 15 = 240%nat /\ (val 2 3 2 = 2)%R.
Proof. split; [lra|]. split; [reflexivity|]. apply val_reserved; [lra|lia]. Qed.

(* ---------------- source tie (_rand, _log_counter) ----------------
   _rand (countmin.py l.179-184) and the body of _log_counter's loop (l.223, l.226-235) as regenerated from the source
   AST on this run (generated/KernelsLog.v, harness/pytrans_log.py).  gen_rand: rand_ptr -> (length of the refill or 0,
   index of the element returned, new rand_ptr); KernelTieLogRand.rand_assembled reads the element from the refilled
   batch when the length is positive.  gen_log_counter_step: (pow oracle, base, the number _rand would return, counter,
   num_reserved, uint_maxval) -> None for `return counter, rand_ptr`, else Some (counter, 1 if _rand was called else 0),
   with `float64(counter) - float64(num_reserved)`, `cprime < 0` and `rand < base ** (-cprime)` in PrimFloat;
   KernelTieLogCounter.lc_step_assembled advances the random source exactly when the flag is 1 and lc_iter_assembled
   iterates it.  The float test is proved to be the integer test of the model (binary64 subtraction of integers below
   2^53 is exact); the hypothesis on fpow is the meaning of the input table powneg (DESIGN 3.4). *)
From Sketchnu Require KernelsLog KernelTieLogRand.
Theorem C06_rand_source_tie :
  (forall p : Z, 0 <= p < 2^64 - 1 ->
     KernelsLog.gen_rand p = if p =? rand_batch_cmp then (rand_batch_gen, 0, 1) else (0, p, p + 1)) /\
  (forall rs : rsrc, 0 <= rptr rs < 2^64 - 1 -> rand rs = KernelTieLogRand.rand_assembled rs).
Proof. exact KernelTieLogRand.tie_rand_all. Qed.
Print Assumptions C06_rand_source_tie.

Example C06_rand_source_tie_nonvacuous :
  map KernelsLog.gen_rand [0; 5; 2047; 2048] = [(0, 0, 1); (0, 5, 6); (0, 2047, 2048); (2048, 0, 1)] /\
  let rs := mk_rs 2046 [0x1p-1; 0x1p-2]%float 2047 [[0x1p-3; 0x1p-4]%float] in
  let r1 := KernelTieLogRand.rand_assembled rs in
  let r2 := KernelTieLogRand.rand_assembled (snd r1) in
  (fst r1, rptr (snd r1), fst r2, rptr (snd r2), length (rfuture (snd r2))) = ((0x1p-2)%float, 2048, (0x1p-3)%float, 1, 0%nat) /\
  r1 = rand rs /\ r2 = rand (snd r1).
Proof. vm_compute. repeat split; reflexivity. Qed.

From Sketchnu Require KernelTieLogCounter.
Theorem C06_log_counter_source_tie : forall (fpow : float -> float -> float) (base : float) (nr umax : Z) (powneg : Z -> float),
  0 <= nr < 2^16 -> 0 <= umax < 2^16 ->
  (forall c, nr <= c < umax -> fpow base (PrimFloat.opp (PrimFloat.sub (z2f c) (z2f nr))) = powneg (c - nr)) ->
  (forall (r : float) (c : Z), 0 <= c < 2^16 ->
     KernelsLog.gen_log_counter_step fpow base r c nr umax =
     if c >=? umax then None
     else if c - nr <? 0 then Some (c + 1, 0)
     else if PrimFloat.ltb r (powneg (c - nr)) then Some (c + 1, 1) else Some (c, 1)) /\
  (forall (c : Z) (rs : rsrc), 0 <= c < 2^16 ->
     lc_step nr umax powneg (c, rs) = KernelTieLogCounter.lc_step_assembled fpow base nr umax (c, rs)) /\
  (forall (c : Z) (rs : rsrc) (v : Z), 0 <= c < 2^16 ->
     log_counter nr umax powneg c rs v = KernelTieLogCounter.lc_iter_assembled fpow base nr umax (Z.to_nat v) (c, rs)) /\
  (forall c p : Z, 0 <= c < 2^16 -> 0 <= p < 2^64 -> KernelsLog.gen_log_counter_ret c p = (c, p)).
Proof. exact KernelTieLogCounter.tie_log_counter_all. Qed.
Print Assumptions C06_log_counter_source_tie.

(* base 2 with an exact power function for integer exponents; num_reserved = 3, uint_maxval = 10; the table powneg is
   by definition what the code computes, so the hypothesis of the theorem holds for every fpow *)
Example C06_log_counter_source_tie_nonvacuous :
  let fpow := fun (b e : float) => ldshiftexp f_one (Uint63.of_Z (f2z_trunc e + 2101)) in
  let two := (0x1p+1)%float in
  let pn := fun d => fpow two (PrimFloat.opp (PrimFloat.sub (z2f (d + 3)) (z2f 3))) in
  map (fun rc => KernelsLog.gen_log_counter_step fpow two (fst rc) (snd rc) 3 10)
      [(f_half, 2); (f_zero, 3); (f_half, 4); ((0x1p-2)%float, 4); ((0x1p-3)%float, 5); (f_zero, 10); (f_zero, 65535)]
  = [Some (3, 0); Some (4, 1); Some (4, 1); Some (5, 1); Some (6, 1); None; None] /\
  (forall c, 3 <= c < 10 -> fpow two (PrimFloat.opp (PrimFloat.sub (z2f c) (z2f 3))) = pn (c - 3)) /\
  map pn [0; 1; 2] = [f_one; f_half; (0x1p-2)%float] /\
  map (fun c => KernelTieLogCounter.lc_step_assembled fpow two 3 10 (c, rs_ex)) [2; 3; 4; 10]
  = map (fun c => lc_step 3 10 pn (c, rs_ex)) [2; 3; 4; 10] /\
  KernelTieLogCounter.lc_iter_assembled fpow two 3 10 5 (1, rs_ex) = log_counter 3 10 pn 1 rs_ex 5 /\
  fst (log_counter 3 10 pn 1 rs_ex 5) = 5.
Proof.
  cbv zeta. split; [vm_compute; reflexivity|]. split.
  - intros c Hc. replace (c - 3 + 3) with c by lia. reflexivity.
  - vm_compute. repeat split; reflexivity.
Qed.
