(* C12 — batch, dict, multiplicity and ngram entry points equal loops of single adds.
   Shared window enumeration + linear count-min + HyperLogLog rows here; the log-counter and
   heavy-hitter rows are the C12_log_* / C12_hh_* theorems of their own models. *)
From Coq Require Import ZArith List.
From Sketchnu Require Import Machine Ngram NgramProofs CmsLinear CmsLinearProofs.
From Sketchnu Require Hll HllProofs CmsLog CmsLogProofs HH HHProofs Consts.
Import ListNotations.
Open Scope Z_scope.

(* the uint64 index loop of every _add_ngram* kernel enumerates exactly the windows *)
Theorem C12_ngram_idx : forall (k : key) (n : Z), 1 <= n < 2^64 -> zlen k < 2^64 ->
  ngram_windows k n = windows (Z.to_nat n) k.
Proof. exact ngram_windows_spec. Qed.
Print Assumptions C12_ngram_idx.

Theorem C12_windows_nonempty : forall n k, windows n k <> [].
Proof. exact windows_nonempty. Qed.
Print Assumptions C12_windows_nonempty.

(* ---- linear count-min ---- *)
Theorem C12_lin_update_list : forall depth bucket s ks,
  update_list depth bucket s ks = fold_left (fun s k => cls_add depth bucket s k 1) ks s.
Proof. exact CmsLinearProofs.C12_lin_update_list. Qed.
Print Assumptions C12_lin_update_list.

Theorem C12_lin_update_dict : forall depth bucket s kvs,
  update_dict depth bucket s kvs = fold_left (fun s kv => cls_add depth bucket s (fst kv) (snd kv)) kvs s.
Proof. exact CmsLinearProofs.C12_lin_update_dict. Qed.
Print Assumptions C12_lin_update_dict.

Theorem C12_lin_mult : forall depth bucket (s : sk) (k : key) (v : Z), Rng s -> 0 <= v ->
  sk_eq (cls_add depth bucket s k v) (iter_add depth bucket s k (Z.to_nat v)).
Proof. exact CmsLinearProofs.C12_lin_mult. Qed.
Print Assumptions C12_lin_mult.

Theorem C12_lin_ngram : forall depth bucket s (k : key) (n : Z), 1 <= n < 2^64 -> zlen k < 2^64 ->
  add_ngram depth bucket s k n = fold_left (fun s w => cls_add depth bucket s w 1) (windows (Z.to_nat n) k) s.
Proof. exact CmsLinearProofs.C12_lin_ngram. Qed.
Print Assumptions C12_lin_ngram.

Theorem C12_lin_update_ngram : forall depth bucket s ks n,
  update_ngram depth bucket s ks n = fold_left (fun s k => add_ngram depth bucket s k n) ks s.
Proof. exact CmsLinearProofs.C12_lin_update_ngram. Qed.
Print Assumptions C12_lin_update_ngram.

(* sketch[key] is query(key): __getitem__ is modelled by the same function (countmin.py l.808-813) *)

(* ---- HyperLogLog ---- *)
Theorem C12_hll : forall p seed h,
  Hll.hll_eval p seed (Hll.hll_desugar h) = Hll.hll_eval p seed h /\
  (forall s k n, Hll.cls_add_ngram s k n = Hll.cls_update s (ngram_windows k n)) /\
  (forall s ks n, Hll.cls_update_ngram s ks n = Hll.cls_update s (flat_map (fun k => ngram_windows k n) ks)) /\
  (forall s k v, Hll.cls_add s k v = Hll.cls_add s k 1).
Proof.
  exact (fun p seed h => conj (HllProofs.hll_desugar_eval p seed h)
         (conj HllProofs.cls_add_ngram_update (conj HllProofs.cls_update_ngram_update HllProofs.cls_add_value))).
Qed.
Print Assumptions C12_hll.

(* ---- log8 / log16 ---- *)
Theorem C12_log_mult : forall depth bucket nr umax powneg castc,
  0 <= umax -> (forall x, 0 <= x <= umax -> castc x = x) ->
  forall (s : CmsLog.lsk) (k : key) (v : Z), CmsLogProofs.lsk_ok umax s -> 0 <= v ->
  CmsLogProofs.lsk_eq (CmsLog.lcls_add depth bucket nr umax powneg castc s k v)
                      (CmsLogProofs.iter_add_log depth bucket nr umax powneg castc s k (Z.to_nat v)).
Proof. exact CmsLogProofs.C12_log_mult. Qed.
Print Assumptions C12_log_mult.

Theorem C12_log_ngram : forall depth bucket nr umax powneg castc (s : CmsLog.lsk) (k : key) (n : Z),
  1 <= n < 2^64 -> zlen k < 2^64 ->
  CmsLog.ladd_ngram depth bucket nr umax powneg castc s k n =
  fold_left (fun s0 w => CmsLog.lcls_add depth bucket nr umax powneg castc s0 w 1) (windows (Z.to_nat n) k) s.
Proof. exact CmsLogProofs.C12_log_ngram. Qed.
Print Assumptions C12_log_ngram.

Theorem C12_log_update_list : forall depth bucket nr umax powneg castc (s : CmsLog.lsk) (ks : list key),
  CmsLog.lupdate_list depth bucket nr umax powneg castc s ks =
  fold_left (fun s0 k => CmsLog.lcls_add depth bucket nr umax powneg castc s0 k 1) ks s.
Proof. exact CmsLogProofs.C12_log_update_list. Qed.
Print Assumptions C12_log_update_list.

(* ---- heavy hitters: add(key, v) = v unit adds, pointwise on tables and on every scalar field ---- *)
Theorem C12_hh_mult : forall (width depth max_key_len : nat) (bucket : nat -> key -> nat) (default_thr : Z -> Z),
  (forall r k, (bucket r k < width)%nat) -> (max_key_len <= 255)%nat ->
  forall (h : HH.hist) (k : key) (v : Z), HH.wf h -> zlen k < 2^64 -> 0 <= v <= Consts.hh_cap ->
  let s := HH.eval width depth max_key_len bucket default_thr h in
  let s1 := HH.hh_add depth max_key_len bucket s k v in
  let s2 := Nat.iter (Z.to_nat v) (HHProofs.hh_add1 depth max_key_len bucket k) s in
  (forall r c, HH.tab s1 r c = HH.tab s2 r c) /\ HH.n_added s1 = HH.n_added s2 /\ HH.n_records s1 = HH.n_records s2 /\
  HH.cand s1 = HH.cand s2 /\ HH.n_added_sort s1 = HH.n_added_sort s2 /\ HH.thr_sort s1 = HH.thr_sort s2.
Proof. exact HHProofs.hh_add_mult_reachable. Qed.
Print Assumptions C12_hh_mult.

Example C12_nonvacuous :
  windows 2 [1;2;3;4] = [[1;2];[2;3];[3;4]] /\ windows 4 [1;2;3;4] = [[1;2;3;4]] /\ windows 9 [1] = [[1]] /\
  ngram_windows [1;2;3;4] 2 = [[1;2];[2;3];[3;4]] /\
  (let b : nat -> key -> nat := fun _ _ => 0%nat in
   n_added (cls_add 1 b empty [7] 1000) = n_added (iter_add 1 b empty [7] 1000)).
Proof. repeat split; vm_compute; reflexivity. Qed.

(* ---------------- source tie (n-gram drivers) ----------------
   _add_ngram_linear / _add_ngram_log16 / _add_ngram_log8 (countmin.py), _add_ngram (hyperloglog.py), _add_ngram
   (heavyhitters.py) as regenerated from the source AST on this run (generated/KernelsNgram.v, harness/pytrans_ngram.py).
   Per driver T: gen_ngram_T_key_len (len(key) -> key_len), gen_ngram_T_whole (the test of the `if`), gen_ngram_T_count (the
   argument of range), gen_ngram_T_lo / _hi (the slice bounds), gen_ngram_T_mult (the multiplicity literal, None when the
   single-add kernel takes none), gen_ngram_T_threads_ptr (the driver returns the value both branches assign from the
   kernel).  The translator rejects a driver whose two branches do not call the same, expected single-add kernel with the
   driver's own arguments in order, differing in the key argument only (whole key / slice); the kernel's name is pinned in
   the tie files (tie_ngram_T_callee).  KernelTieNgram.driver_windows is the hand-written assembly of the pieces: the
   list of keys handed to the single-add kernel.  driver_ok pins each piece to the model's expression (the test only
   away from key_len = ngram, where either branch adds exactly the whole key).
   The ties hold for every 0 <= ngram < 2^64, ngram = 0 included (the bound wraps to key_len + 1 empty windows, in the
   source as in Ngram.ngram_windows), and every key shorter than 2^63 bytes. *)
From Sketchnu Require KernelsNgram KernelTieNgram.
Theorem C12_ngram_source_tie_assembly : forall (klf : Z -> Z) (whole : Z -> Z -> bool) (count lo hi : Z -> Z -> Z),
  KernelTieNgram.driver_ok klf whole count lo hi ->
  forall (k : key) (n : Z), 0 <= n < 2^64 -> zlen k < 2^63 ->
  KernelTieNgram.driver_windows klf whole count lo hi k n = ngram_windows k n.
Proof. exact KernelTieNgram.driver_windows_model. Qed.
Print Assumptions C12_ngram_source_tie_assembly.

From Sketchnu Require KernelTieNgramLinear.
Theorem C12_ngram_source_tie_linear :
  KernelTieNgram.driver_ok KernelsNgram.gen_ngram_linear_key_len KernelsNgram.gen_ngram_linear_whole KernelsNgram.gen_ngram_linear_count
                           KernelsNgram.gen_ngram_linear_lo KernelsNgram.gen_ngram_linear_hi /\
  (forall (k : key) (n : Z), 0 <= n < 2^64 -> zlen k < 2^63 -> KernelTieNgramLinear.ngram_linear_windows k n = ngram_windows k n) /\
  (forall (k : key) (n : Z), 1 <= n < 2^64 -> zlen k < 2^63 -> KernelTieNgramLinear.ngram_linear_windows k n = windows (Z.to_nat n) k) /\
  (KernelsNgram.gen_ngram_linear_mult = Some 1 /\ KernelsNgram.gen_ngram_linear_threads_ptr = false) /\
  (forall depth bucket (s : CmsLinear.sk) (k : key) (n : Z), 0 <= n < 2^64 -> zlen k < 2^63 ->
     CmsLinear.add_ngram depth bucket s k n =
     fold_left (fun s0 w => CmsLinear.add_linear depth bucket s0 w (KernelTieNgram.mult_value KernelsNgram.gen_ngram_linear_mult))
               (KernelTieNgramLinear.ngram_linear_windows k n) s).
Proof. exact KernelTieNgramLinear.tie_ngram_linear. Qed.
Print Assumptions C12_ngram_source_tie_linear.

From Sketchnu Require KernelTieNgramLog16.
Theorem C12_ngram_source_tie_log16 :
  KernelTieNgram.driver_ok KernelsNgram.gen_ngram_log16_key_len KernelsNgram.gen_ngram_log16_whole KernelsNgram.gen_ngram_log16_count
                           KernelsNgram.gen_ngram_log16_lo KernelsNgram.gen_ngram_log16_hi /\
  (forall (k : key) (n : Z), 0 <= n < 2^64 -> zlen k < 2^63 -> KernelTieNgramLog16.ngram_log16_windows k n = ngram_windows k n) /\
  (forall (k : key) (n : Z), 1 <= n < 2^64 -> zlen k < 2^63 -> KernelTieNgramLog16.ngram_log16_windows k n = windows (Z.to_nat n) k) /\
  (KernelsNgram.gen_ngram_log16_mult = Some 1 /\ KernelsNgram.gen_ngram_log16_threads_ptr = true) /\
  (forall depth bucket nr umax powneg castc (s : CmsLog.lsk) (k : key) (n : Z), 0 <= n < 2^64 -> zlen k < 2^63 ->
     CmsLog.ladd_ngram depth bucket nr umax powneg castc s k n =
     fold_left (fun s0 w => CmsLog.add_log depth bucket nr umax powneg castc s0 w (KernelTieNgram.mult_value KernelsNgram.gen_ngram_log16_mult))
               (KernelTieNgramLog16.ngram_log16_windows k n) s).
Proof. exact KernelTieNgramLog16.tie_ngram_log16. Qed.
Print Assumptions C12_ngram_source_tie_log16.

From Sketchnu Require KernelTieNgramLog8.
Theorem C12_ngram_source_tie_log8 :
  KernelTieNgram.driver_ok KernelsNgram.gen_ngram_log8_key_len KernelsNgram.gen_ngram_log8_whole KernelsNgram.gen_ngram_log8_count
                           KernelsNgram.gen_ngram_log8_lo KernelsNgram.gen_ngram_log8_hi /\
  (forall (k : key) (n : Z), 0 <= n < 2^64 -> zlen k < 2^63 -> KernelTieNgramLog8.ngram_log8_windows k n = ngram_windows k n) /\
  (forall (k : key) (n : Z), 1 <= n < 2^64 -> zlen k < 2^63 -> KernelTieNgramLog8.ngram_log8_windows k n = windows (Z.to_nat n) k) /\
  (KernelsNgram.gen_ngram_log8_mult = Some 1 /\ KernelsNgram.gen_ngram_log8_threads_ptr = true) /\
  (forall depth bucket nr umax powneg castc (s : CmsLog.lsk) (k : key) (n : Z), 0 <= n < 2^64 -> zlen k < 2^63 ->
     CmsLog.ladd_ngram depth bucket nr umax powneg castc s k n =
     fold_left (fun s0 w => CmsLog.add_log depth bucket nr umax powneg castc s0 w (KernelTieNgram.mult_value KernelsNgram.gen_ngram_log8_mult))
               (KernelTieNgramLog8.ngram_log8_windows k n) s).
Proof. exact KernelTieNgramLog8.tie_ngram_log8. Qed.
Print Assumptions C12_ngram_source_tie_log8.

From Sketchnu Require KernelTieNgramHll.
Theorem C12_ngram_source_tie_hll :
  KernelTieNgram.driver_ok KernelsNgram.gen_ngram_hll_key_len KernelsNgram.gen_ngram_hll_whole KernelsNgram.gen_ngram_hll_count
                           KernelsNgram.gen_ngram_hll_lo KernelsNgram.gen_ngram_hll_hi /\
  (forall (k : key) (n : Z), 0 <= n < 2^64 -> zlen k < 2^63 -> KernelTieNgramHll.ngram_hll_windows k n = ngram_windows k n) /\
  (forall (k : key) (n : Z), 1 <= n < 2^64 -> zlen k < 2^63 -> KernelTieNgramHll.ngram_hll_windows k n = windows (Z.to_nat n) k) /\
  (KernelsNgram.gen_ngram_hll_mult = None /\ KernelsNgram.gen_ngram_hll_threads_ptr = false) /\
  (forall (s : Hll.regs) (seed p m : Z) (k : key) (n : Z), 0 <= n < 2^64 -> zlen k < 2^63 ->
     Hll.hll_add_ngram s seed p m k n =
     fold_left (fun s0 w => Hll.hll_add s0 seed p m w)
               (KernelTieNgramHll.ngram_hll_windows k n) s).
Proof. exact KernelTieNgramHll.tie_ngram_hll. Qed.
Print Assumptions C12_ngram_source_tie_hll.

From Sketchnu Require KernelTieNgramHH.
Theorem C12_ngram_source_tie_hh :
  KernelTieNgram.driver_ok KernelsNgram.gen_ngram_hh_key_len KernelsNgram.gen_ngram_hh_whole KernelsNgram.gen_ngram_hh_count
                           KernelsNgram.gen_ngram_hh_lo KernelsNgram.gen_ngram_hh_hi /\
  (forall (k : key) (n : Z), 0 <= n < 2^64 -> zlen k < 2^63 -> KernelTieNgramHH.ngram_hh_windows k n = ngram_windows k n) /\
  (forall (k : key) (n : Z), 1 <= n < 2^64 -> zlen k < 2^63 -> KernelTieNgramHH.ngram_hh_windows k n = windows (Z.to_nat n) k) /\
  (KernelsNgram.gen_ngram_hh_mult = Some 1 /\ KernelsNgram.gen_ngram_hh_threads_ptr = false) /\
  (forall depth max_key_len bucket (s : HH.sketch) (k : key) (n : Z), 0 <= n < 2^64 -> zlen k < 2^63 ->
     HH.hh_add_ngram depth max_key_len bucket s k n =
     fold_left (fun s0 w => HH.hh_add_raw depth max_key_len bucket s0 w (KernelTieNgram.mult_value KernelsNgram.gen_ngram_hh_mult))
               (KernelTieNgramHH.ngram_hh_windows k n) s).
Proof. exact KernelTieNgramHH.tie_ngram_hh. Qed.
Print Assumptions C12_ngram_source_tie_hh.

(* evaluated on the generated definitions: an ordinary key, key_len = ngram (one window, the key), key_len < ngram,
   ngram = 0 (key_len + 1 empty windows; the empty key gives one), ngram = 2^64 - 1, the bound (its wrap at ngram = 0
   included), the test away from key_len = ngram, the slice bounds and the multiplicities *)
Example C12_ngram_source_tie_nonvacuous :
  KernelTieNgramLinear.ngram_linear_windows [1;2;3;4] 2 = [[1;2];[2;3];[3;4]] /\
  KernelTieNgramLog16.ngram_log16_windows [1;2;3] 3 = [[1;2;3]] /\
  KernelTieNgramLog8.ngram_log8_windows [1;2;3] 7 = [[1;2;3]] /\
  KernelTieNgramHll.ngram_hll_windows [1;2;3] 0 = [[];[];[];[]] /\
  KernelTieNgramHH.ngram_hh_windows [] 0 = [[]] /\
  KernelTieNgramHH.ngram_hh_windows [5;6] (2^64 - 1) = [[5;6]] /\
  KernelTieNgramLinear.ngram_linear_windows [1;2;3] 0 = ngram_windows [1;2;3] 0 /\
  (KernelsNgram.gen_ngram_linear_count 3 0, KernelsNgram.gen_ngram_log16_count 10 3, KernelsNgram.gen_ngram_log8_count 5 5,
   KernelsNgram.gen_ngram_hll_count 0 0, KernelsNgram.gen_ngram_hh_count 7 1) = (4, 8, 1, 1, 7) /\
  (KernelsNgram.gen_ngram_linear_whole 2 3, KernelsNgram.gen_ngram_log16_whole 4 3, KernelsNgram.gen_ngram_hh_whole 0 1) = (true, false, true) /\
  (KernelsNgram.gen_ngram_log8_lo 7 3, KernelsNgram.gen_ngram_log8_hi 7 3, KernelsNgram.gen_ngram_hll_key_len 40) = (7, 10, 40) /\
  (KernelsNgram.gen_ngram_linear_mult, KernelsNgram.gen_ngram_log16_mult, KernelsNgram.gen_ngram_log8_mult,
   KernelsNgram.gen_ngram_hll_mult, KernelsNgram.gen_ngram_hh_mult) = (Some 1, Some 1, Some 1, None, Some 1).
Proof. vm_compute. repeat split; reflexivity. Qed.
