(* C12 — batch, dict, multiplicity and ngram entry points equal loops of single adds.
   Shared window enumeration + linear count-min + HyperLogLog rows here; the log-counter and
   heavy-hitter rows are the C12_log_* / C12_hh_* theorems of their own models. *)
From Coq Require Import ZArith List.
From Sketchnu Require Import Machine Ngram NgramProofs CmsLinear CmsLinearProofs.
From Sketchnu Require Hll HllProofs CmsLog CmsLogProofs HH HHProofs Consts.
Import ListNotations.
Open Scope Z_scope.

(* the uint64 index loop of every _add_ngram* kernel enumerates exactly the windows *)
Theorem C12_ngram_idx : forall (k : key) (n : Z), 1 <= n < 2^64 -> zlen k < 2^64 ->
  ngram_windows k n = windows (Z.to_nat n) k.
Proof. exact ngram_windows_spec. Qed.
Print Assumptions C12_ngram_idx.

Theorem C12_windows_nonempty : forall n k, windows n k <> [].
Proof. exact windows_nonempty. Qed.
Print Assumptions C12_windows_nonempty.

(* ---- linear count-min ---- *)
Theorem C12_lin_update_list : forall depth bucket s ks,
  update_list depth bucket s ks = fold_left (fun s k => cls_add depth bucket s k 1) ks s.
Proof. exact CmsLinearProofs.C12_lin_update_list. Qed.
Print Assumptions C12_lin_update_list.

Theorem C12_lin_update_dict : forall depth bucket s kvs,
  update_dict depth bucket s kvs = fold_left (fun s kv => cls_add depth bucket s (fst kv) (snd kv)) kvs s.
Proof. exact CmsLinearProofs.C12_lin_update_dict. Qed.
Print Assumptions C12_lin_update_dict.

Theorem C12_lin_mult : forall depth bucket (s : sk) (k : key) (v : Z), Rng s -> 0 <= v ->
  sk_eq (cls_add depth bucket s k v) (iter_add depth bucket s k (Z.to_nat v)).
Proof. exact CmsLinearProofs.C12_lin_mult. Qed.
Print Assumptions C12_lin_mult.

Theorem C12_lin_ngram : forall depth bucket s (k : key) (n : Z), 1 <= n < 2^64 -> zlen k < 2^64 ->
  add_ngram depth bucket s k n = fold_left (fun s w => cls_add depth bucket s w 1) (windows (Z.to_nat n) k) s.
Proof. exact CmsLinearProofs.C12_lin_ngram. Qed.
Print Assumptions C12_lin_ngram.

Theorem C12_lin_update_ngram : forall depth bucket s ks n,
  update_ngram depth bucket s ks n = fold_left (fun s k => add_ngram depth bucket s k n) ks s.
Proof. exact CmsLinearProofs.C12_lin_update_ngram. Qed.
Print Assumptions C12_lin_update_ngram.

(* sketch[key] is query(key): __getitem__ is modelled by the same function (countmin.py l.808-813) *)

(* ---- HyperLogLog ---- *)
Theorem C12_hll : forall p seed h,
  Hll.hll_eval p seed (Hll.hll_desugar h) = Hll.hll_eval p seed h /\
  (forall s k n, Hll.cls_add_ngram s k n = Hll.cls_update s (ngram_windows k n)) /\
  (forall s ks n, Hll.cls_update_ngram s ks n = Hll.cls_update s (flat_map (fun k => ngram_windows k n) ks)) /\
  (forall s k v, Hll.cls_add s k v = Hll.cls_add s k 1).
Proof.
  exact (fun p seed h => conj (HllProofs.hll_desugar_eval p seed h)
         (conj HllProofs.cls_add_ngram_update (conj HllProofs.cls_update_ngram_update HllProofs.cls_add_value))).
Qed.
Print Assumptions C12_hll.

(* ---- log8 / log16 ---- *)
Theorem C12_log_mult : forall depth bucket nr umax powneg castc,
  0 <= umax -> (forall x, 0 <= x <= umax -> castc x = x) ->
  forall (s : CmsLog.lsk) (k : key) (v : Z), CmsLogProofs.lsk_ok umax s -> 0 <= v ->
  CmsLogProofs.lsk_eq (CmsLog.lcls_add depth bucket nr umax powneg castc s k v)
                      (CmsLogProofs.iter_add_log depth bucket nr umax powneg castc s k (Z.to_nat v)).
Proof. exact CmsLogProofs.C12_log_mult. Qed.
Print Assumptions C12_log_mult.

Theorem C12_log_ngram : forall depth bucket nr umax powneg castc (s : CmsLog.lsk) (k : key) (n : Z),
  1 <= n < 2^64 -> zlen k < 2^64 ->
  CmsLog.ladd_ngram depth bucket nr umax powneg castc s k n =
  fold_left (fun s0 w => CmsLog.lcls_add depth bucket nr umax powneg castc s0 w 1) (windows (Z.to_nat n) k) s.
Proof. exact CmsLogProofs.C12_log_ngram. Qed.
Print Assumptions C12_log_ngram.

Theorem C12_log_update_list : forall depth bucket nr umax powneg castc (s : CmsLog.lsk) (ks : list key),
  CmsLog.lupdate_list depth bucket nr umax powneg castc s ks =
  fold_left (fun s0 k => CmsLog.lcls_add depth bucket nr umax powneg castc s0 k 1) ks s.
Proof. exact CmsLogProofs.C12_log_update_list. Qed.
Print Assumptions C12_log_update_list.

(* ---- heavy hitters: add(key, v) = v unit adds, pointwise on tables and on every scalar field ---- *)
Theorem C12_hh_mult : forall (width depth max_key_len : nat) (bucket : nat -> key -> nat) (default_thr : Z -> Z),
  (forall r k, (bucket r k < width)%nat) -> (max_key_len <= 255)%nat ->
  forall (h : HH.hist) (k : key) (v : Z), HH.wf h -> zlen k < 2^64 -> 0 <= v <= Consts.hh_cap ->
  let s := HH.eval width depth max_key_len bucket default_thr h in
  let s1 := HH.hh_add depth max_key_len bucket s k v in
  let s2 := Nat.iter (Z.to_nat v) (HHProofs.hh_add1 depth max_key_len bucket k) s in
  (forall r c, HH.tab s1 r c = HH.tab s2 r c) /\ HH.n_added s1 = HH.n_added s2 /\ HH.n_records s1 = HH.n_records s2 /\
  HH.cand s1 = HH.cand s2 /\ HH.n_added_sort s1 = HH.n_added_sort s2 /\ HH.thr_sort s1 = HH.thr_sort s2.
Proof. exact HHProofs.hh_add_mult_reachable. Qed.
Print Assumptions C12_hh_mult.

Example C12_nonvacuous :
  windows 2 [1;2;3;4] = [[1;2];[2;3];[3;4]] /\ windows 4 [1;2;3;4] = [[1;2;3;4]] /\ windows 9 [1] = [[1]] /\
  ngram_windows [1;2;3;4] 2 = [[1;2];[2;3];[3;4]] /\
  (let b : nat -> key -> nat := fun _ _ => 0%nat in
   n_added (cls_add 1 b empty [7] 1000) = n_added (iter_add 1 b empty [7] 1000)).
Proof. repeat split; vm_compute; reflexivity. Qed.
